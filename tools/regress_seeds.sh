#!/bin/bash
# Re-runs every stored seeded change against its property's quick check, in THIS copy of /verif and against the
# repository copy named by VERIF_REPO (never /repo when started through `vp run --with-repo`).
# usage: VERIF_REPO=<repo copy> tools/regress_seeds.sh [pattern]     output: one line per seed on stdout
set -u
HERE="$(cd "$(dirname "$0")/.." && pwd)"
REPO="${VERIF_REPO:-/repo}"
PAT="${1:-C}"
cd "$HERE" || exit 2
export VERIF_REPO="$REPO"
./run.sh setup >/dev/null 2>&1 || { echo "setup failed"; exit 2; }
for d in seeded/${PAT}*; do
  id=$(basename "$d"); prop=${id%%-*}
  [ -f "$d/patch.diff" ] || continue
  # the stored changes of rounds 1-11 were written against 70d7802 (before the C06 repair): fall back to a 3-way merge
  ( cd "$REPO" && git reset -q && git checkout -q -- . && git clean -fdq -- src rsactor-derive tests examples && { git apply "$HERE/$d/patch.diff" 2>/dev/null || { git apply --3way "$HERE/$d/patch.diff" >/dev/null 2>&1 && git reset -q; }; } ) || { ( cd "$REPO" && git reset -q && git checkout -q -- . ); echo "$id :: patch does not apply (written against 70d7802)"; continue; }
  out=$(./run.sh quick "$prop" 2>&1); rc=$?
  echo "$id :: rc=$rc :: $(echo "$out" | grep -E "VIOLATION|KNOWN|INFRA" | head -1 | cut -c1-140) | $(echo "$out" | tail -1 | cut -c1-110)"
  ( cd "$REPO" && git reset -q && git checkout -q -- . && git clean -fdq -- src rsactor-derive tests examples )
done
