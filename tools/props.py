"""Per-property configuration of the verdict procedure."""

COMMON_ASSUME = [
    "Tokio's mpsc/oneshot/semaphore/timer behave as modelled (DESIGN.md §3.7): FIFO-fair permits, linearizable acquire/push/dequeue/close+drain",
    "the extractor reports what the source says (differential-tested by the tables harness)",
    "scripted hooks stand for all user hooks (rsactor is parametric in message, reply, actor and error types)",
]

def corr(families, nq=300, nt=4000, erase=False):
    return {"families": families, "n_quick": nq, "n_thorough": nt, "erase": erase}

HOOK_COMMITS = ["c29540b"]

PROOF_NOTE = ("Trusted: Lean 4.33 kernel with axioms {propext, Classical.choice, Quot.sound} (audited per theorem by #print axioms); "
              "the extractor; the correspondence harness and its generators; Tokio's primitives as modelled (DESIGN.md §3.7, §6). "
              "The theorems are about the Lean model; the model is tied to /repo by regenerated definitions and by the per-run correspondence check.")

PROPS = {
    "C09": {
        "level": "proof",
        "text": "Kernel-checked theorems for every label list (= every schedule, number of senders, capacity): mailbox occupancy + reserved permits <= capacity; capacity/default/once-only configuration proved on functions translated from src/lib.rs on every run. The model is validated against the real crate by per-run correspondence (seeded scripts on a paused Tokio runtime) and the occupancy monitor runs on every real trace.",
        "note": PROOF_NOTE,
        "technique": "Lean 4 invariant proof by induction over label sequences + translated config functions + model/implementation correspondence",
        "monitors": ["C09"],
        "corr": corr(["burst", "mixed", "timeouts"]),
        "extract_items": ["DEFAULT_MAILBOX_CAPACITY", "set_default_mailbox_capacity", "spawn_capacity", "spawn_with_mailbox_capacity"],
        "assumptions": COMMON_ASSUME + ["a granted-but-unpushed permit reserves a slot (the bound is on pushed + granted)"],
    },
}

NOT_APPLICABLE = {p: "check not built yet in this session (work in progress; see DESIGN.md §12 build order)" for p in
                  ["C%02d" % i for i in range(1, 21)]}
