"""Per-property configuration of the verdict procedure."""

COMMON_ASSUME = [
    "Tokio's mpsc/oneshot/semaphore/timer behave as modelled (DESIGN.md §3.7): FIFO-fair permits, linearizable acquire/push/dequeue/close+drain",
    "the extractor reports what the source says (differential-tested by the tables harness)",
    "scripted hooks stand for all user hooks (rsactor is parametric in message, reply, actor and error types)",
]

def corr(families, nq=300, nt=4000, erase=False):
    return {"families": families, "n_quick": nq, "n_thorough": nt, "erase": erase}

HOOK_COMMITS = ["c29540b", "70d7802"]

PROOF_NOTE = ("Trusted: Lean 4.33 kernel with axioms {propext, Classical.choice, Quot.sound} (audited per theorem by #print axioms); "
              "the extractor; the correspondence harness and its generators; Tokio's primitives as modelled (DESIGN.md §3.7, §6). "
              "The theorems are about the Lean model; the model is tied to /repo by regenerated definitions and by the per-run correspondence check.")

PROPS = {
    "C09": {
        "level": "proof",
        "text": "Kernel-checked theorems for every label list (= every schedule, number of senders, capacity): mailbox occupancy + reserved permits <= capacity; ok_tell_was_accepted (a tell that returned Ok has its accepted event in the history or, if the actor dropped its receivers while the sender held its slot, lies in the closed channel of the ended actor: Inv/OkAcc.lean); capacity/default/once-only configuration proved on functions translated from src/lib.rs on every run. The model is validated against the real crate by per-run correspondence (seeded scripts on a paused Tokio runtime) and the occupancy monitor runs on every real trace. Real threads: a spawn_blocking sender's blocking_tell(.., None) calls into a full capacity-1 mailbox all wait and return Ok (stress blocking a2); a cancelled send holds no slot (stress cancel). Step-level, any state: free_slot_no_wait (a send issued while a slot is free and nobody is queued ahead holds its permit at once) and full_mailbox_waits (otherwise it is queued FIFO: no failure recorded, mailbox untouched). no_idle_slot (every reachable state): while the mailbox is open, a sender is queued without a permit only when mailbox items + permits handed out = capacity. Net engine (detection build): a hook's tell into its own full mailbox waits or times out - it never ends the hook with a panic. Real clock (late): a timed tell whose slot is freed well before the deadline while the runtime thread stays busy past it returns Ok. send_error_only_after_end (Inv/SendErr.lean): an operation answered with Err(Send) was answered after the actor's task had finished - a running actor never refuses a message; the trace monitor C09.failOnlyWhenClosed checks it, with the event order, on every real trace. Stress scenario `stale`: after a timed tell gave up and a stop() was abandoned while waiting for a slot, a plain tell into the still-full mailbox waits and is accepted. ok_stop_was_accepted_or_closed (Inv/OkStop.lean): a stop() that returned Ok put its marker into the mailbox or met an actor whose task had already finished.",
        "note": PROOF_NOTE,
        "technique": "Lean 4 invariant proof by induction over label sequences + translated config functions + model/implementation correspondence",
        "monitors": ["C09"],
        "extra": ["tables", "stress", "netcorr"],
        "corr": corr(["shutdown", "burst", "mixed", "timeouts"]),
        "extract_items": ["DEFAULT_MAILBOX_CAPACITY", "set_default_mailbox_capacity", "spawn_capacity", "spawn_with_mailbox_capacity"],
        "assumptions": COMMON_ASSUME + ["a granted-but-unpushed permit reserves a slot (the bound is on pushed + granted)"],
    },
}

PROPS.update({
    "C01": {
        "level": "proof",
        "text": "Kernel-checked theorems over every label list: at_most_once, handled_were_accepted, rejected_never (state form and on the monitor predicate evaluated on real traces), graceful_complete (everything the loop has dequeued has been handled) and marker_is_next (when the loop dequeues a stop marker everything accepted before it has been dequeued). The model's mailbox is tied to the code by per-run correspondence; the acceptance probe makes 'accepted' observable on the real side; monitors C01.atMostOnce / rejectedNever / gracefulComplete run on every real trace. Stress scenario `selfchain`: work that keeps itself alive - each handler tells its own actor the next step (directly, through a task holding a clone, or by upgrading a weak handle) after the spawner dropped its handle: every step is handled before on_stop. Progress: accepted_message_is_not_left_waiting - when nothing can run any more, no accepted message sits in the mailbox of an idle actor. Net engine (detection build): hooks that tell their own actor and stop it from inside; on every history a tell that returned Ok before the graceful on_stop began is handled before it. Stress scenario `stale`: with the mailbox empty again after an episode of back-pressure, tells with a budget of 0 ns / 300 us report exactly what happened to their message.",
        "note": PROOF_NOTE + "",
        "technique": "Lean 4 invariant proofs (FIFO log, id freshness, rejection) by induction over label sequences + correspondence + Lean monitors on real traces",
        "extra": ["stress", "netcorr"],
        "monitors": ["C01"],
        "corr": corr(["abandon", "eager", "shutdown", "burst", "mixed", "handles", "timeouts"], erase="both"),
        "extract_items": ["ask_wait_watches_closed"],
        "assumptions": COMMON_ASSUME,
    },
    "C02": {
        "level": "proof",
        "text": "Kernel-checked: handler starts are exactly the envelopes of the taken prefix of the acceptance log, in order; the mailbox is the remaining suffix; an item is accepted at most once; the log only grows at its end - for every schedule, capacity and operation mix, the stop marker being an ordinary item of the same queue. stop() in band: before_stop_handled (everything accepted before the dequeued marker has been handled), after_stop_never_handled (nothing accepted behind a marker is ever handled, in any reachable state), nothing_after_stop_begins (no handler starts once the loop has left its select; via the invariant that the dequeue pointer never passes a marker). Correspondence + monitors C02.fifo / idxInOrder / stopPrefix / stopCallOrder / nothingAfterStopReturned on real traces (acceptance order observed by the probe). Real-time side: stress scenario `cancel` - a tell / ask / stop() cancelled by its caller while parked on a full capacity-1 mailbox was never accepted: it is never delivered, holds no slot, and a later stop() through the same handle, a clone, an upgraded weak reference or a boxed ActorControl stops the actor (everything accepted before it handled, nothing accepted after it returned handled). Net engine (detection build): hooks that tell their own actor with a timeout; on every history a tell that returned Ok before another send to the same actor began is handled first.",
        "note": PROOF_NOTE,
        "technique": "Lean 4 invariant proof (mailbox = suffix of acceptance log) + correspondence + Lean monitors on real traces",
        "extra": ["stress", "netcorr"],
        "monitors": ["C02"],
        "corr": corr(["abandon", "eager", "shutdown", "burst", "mixed", "timeouts"], erase="both"),
        "extract_items": [],
        "assumptions": COMMON_ASSUME,
    },
    "C10": {
        "level": "proof",
        "text": "Kernel-checked: Err(Timeout) is returned only by operations given a timeout and never before issue instant + timeout (never_early, on the monitor predicate), the timer label is guarded by the deadline, and is_retryable (translated from src/error.rs on every run) is true exactly for Timeout. Exactness on the virtual clock (fires at the deadline, other outcomes not later) is checked on every real trace by C10.exact and by step-by-step correspondence including return instants. Real clock: the reply is produced at once and the runtime thread is then kept busy past the deadline, with the call made from a spawned task and from the runtime's main task (the time driver turns before the caller is polled): the result must be the reply. New (every schedule): timeout_only_while_pending - the step that yields Err(Timeout) is enabled only while the operation is incomplete (send still queued for a permit on an open mailbox; ask whose reply is neither sent nor lost), so an outcome that is already there is never masked however late the caller is polled (tokio::time::timeout polls the operation before the timer: assumption on Tokio, the wrapper's shape is extracted); timeout_only_from_timer - no other step returns Timeout; send_failure_not_delayed / lost_reply_not_delayed - a closed mailbox or a lost reply is reported as itself at the caller's next poll, whatever the deadline. Monitor C10.failureIsFinal on every real trace: an operation that returned Err(Send) or Err(Receive) does not enter a handler afterwards.",
        "note": PROOF_NOTE + " Wall-clock behaviour of the blocking variants is outside the model (see C17).",
        "technique": "Lean 4 invariant proof over label sequences + translated is_retryable + correspondence with virtual-clock return instants",
        "monitors": ["C10"],
        "extra": ["tables", "stress", "netcorr"],
        "corr": corr(["abandon", "timeouts", "burst", "mixed"], erase="both"),
        "extract_items": ["ErrorKind", "forwarders", "timeout_wrappers"],
        "assumptions": COMMON_ASSUME + ["tokio::time::timeout polls the inner future first and fires no earlier than its deadline"],
    },
    "C13": {
        "level": "proof",
        "text": "Kernel-checked for every run: dead letters = failing returns, as lists (each dead letter immediately followed by the failing return of the same operation with the matching reason; successes record none), hence the counter equals the number of failures. Real dead letters are captured from the tracing events by an in-process subscriber and compared event by event with the model; monitor C13.ok on every real trace. Every script is run twice, directly and through the type-erased wrappers (Box<dyn TellHandler/AskHandler/ActorControl>), both against the model, and the forwarder table (28 methods, each forwarding verbatim to the inherent method) is a tie of this property too. Stress scenario `replyclose`: a handler that replies and ends its own actor in the same poll - the asker gets the reply and no dead letter is recorded. Stress scenario `mix` (multi-thread runtime, seeded): tells, asks, timeout variants, erased handles, sends cancelled by their caller, blocking calls from a plain thread, handlers that send to their own actor, handle churn and an ending, all at once on one actor; after every iteration the number of dead letters recorded equals the number of operations that failed. Stress scenario `dlrace`: two deliveries that fail at the same moment on two threads, under a subscriber that takes 8-40 ms per event, record two dead letters.",
        "note": PROOF_NOTE,
        "technique": "Lean 4 fold-invariant proof over label sequences + correspondence on captured tracing dead-letter events",
        "monitors": ["C13"],
        "corr": corr(["abandon", "flood", "eager", "shutdown", "timeouts", "burst", "mixed", "handles"], erase="both"),
        "extra": ["stress"],
        "extract_items": ["forwarders"],
        "assumptions": COMMON_ASSUME + ["dead-letter operation labels are compared by family (tell/ask), DESIGN.md §7/C13"],
    },
})

PROPS.update({
    "C04": {
        "level": "proof",
        "text": "Kernel-checked for every run: the actor's hook events form a word of the lifecycle automaton (on_start once and first, handlers never overlapping, on_stop at most once and last, nothing after a panic but the join); on_stop(killed=true) only after a kill() was issued and exactly in the step that consumes the signal; on_stop ran iff the actor ended by stop/kill/unreferenced/on_run error. The same three predicates (C04.accepts, killedOnlyIfKill, stopIffCause) are evaluated on every real trace; causes land at every phase through the generators. Real-time side: stress scenario `backlog` (1-200 tells queued before the actor first runs; on_run default / parked / ticking / failing once the backlog is done; then stop() or drop of the last reference): on_stop(killed=false) runs exactly once, after the failing on_run pass where there is one. Stress scenario `hookpanic`: a panic in on_start, a handler, on_tell_result, on_run or on_stop ends the actor - the JoinHandle reports the panic and on_stop does not run afterwards.",
        "note": PROOF_NOTE,
        "technique": "Lean 4 fold-invariant proofs (lifecycle automaton, kill fold, result summary) over label sequences + correspondence + Lean monitors on real traces",
        "monitors": ["C04"],
        "extra": ["stress"],
        "corr": corr(["eager", "shutdown", "mixed", "burst", "idle", "handles"]),
        "extract_items": [],
        "assumptions": COMMON_ASSUME,
    },
    "C05": {
        "level": "proof",
        "text": "Kernel-checked: (a) for every run the JoinHandle output equals the outcome computed from the hook events alone (variant, phase, killed, error source, actor log, panic as JoinError) - theorem on the very predicate C05.ok that is evaluated on real traces; (b) accessor laws for all values of ActorResult, proved about the functions translated from src/actor_result.rs on every run; the translation is differential-tested against the real accessors on all 18 shapes, with independent oracles. The atomic kill monitors of C06 (killWins: after a kill() that returned on a not-yet-stopping actor the next on_stop is on_stop(true)) are evaluated for this property too.",
        "note": PROOF_NOTE,
        "technique": "Lean 4 invariant proof + theorems on translated accessor functions + exhaustive differential test of the translation",
        "monitors": ["C05", "C04", "C06"],
        "extra": ["tables", "stress"],
        "corr": corr(["eager", "shutdown", "mixed", "idle", "burst"]),
        "extract_items": ["FailurePhase", "ActorResult"],
        "assumptions": COMMON_ASSUME,
    },
})

PROPS.update({
    "C03": {
        "level": "proof",
        "text": "Kernel-checked for every run: reply_integrity (on the monitor predicate), ended_clean, later_fail, and completes - once the actor has ended every operation still in flight (queued for a permit, holding a permit, awaiting a reply, even with its envelope pushed after the receivers were dropped) completes within two of its own steps. The last case relies on the repaired reply wait, whose presence is extracted from src/actor_ref.rs on every run (Extracted.ask_wait_watches_closed). Correspondence + monitors C03.replyIntegrity / nothingPendingAfterEnd / laterFail on real traces. Progress (every schedule): no_operation_left_hanging - in every reachable state in which nothing can run any more (neither the actor's task nor a client operation) and the actor is idle or has ended, every operation ever issued has returned: no ask still waits for a reply, no send for a slot (Inv/Progress.lean: NoIdleSlot, ProgInv, quiescent_all_returned). Stress scenario `queuedask`: asks with reply types String, (), Option<String> and Vec<u8> still queued when the actor ends (kill, or behind a stop marker) fail with Err(Receive), unhandled, with one dead letter - never an Ok. Theorem settled_scheduler_all_returned restates the progress theorem in the scheduler's terms (Exec.runnable = []). queuedask also re-asks through the same handle value after an ask was given up while queued: the second ask gets its own handler's value (same type, other type, timed). kill_wins: with a kill signal pending and the actor not yet stopping, every step into on_stop other than an on_run error carries killed=true - including the loop's second look at the control channel when it finds the stop marker or the closed mailbox (the repair of the C06 defect, 34034cc; pinned in the source by lifecycle_arms.mailRechecksKill). Stress scenario `killdrop` (multi-thread): kill(), then the last reference dropped (or stop() and the drop), against an actor whose loop is polled all the time: always on_stop(killed=true), reported as killed (20,000 trials quick, 120,000 thorough; the unrepaired crate fails within the first hundred).",
        "note": PROOF_NOTE + " ask_join is covered by the existing suite only. The stranding interleaving exists only with true parallelism; on the real code it is exercised by the multi-thread hammer (thorough).",
        "technique": "Lean 4 invariant proofs + progress theorem over label sequences + extraction of the reply-wait protocol + correspondence",
        "extra": ["stress"],
        "monitors": ["C03"],
        "corr": corr(["abandon", "eager", "shutdown", "burst", "mixed", "handles", "timeouts", "idle"], erase="both"),
        "extract_items": ["ask_wait_watches_closed", "timeout_wrappers", "blocking_dispatch"],
        "assumptions": COMMON_ASSUME + ["Sender::closed() completes once the receiver is closed or dropped"],
    },
    "C06": {
        "level": "proof",
        "text": "Kernel-checked: kill_total (in every state kill() is enabled, returns Ok in its own label, queues nothing, records nothing), kill_bound (on the monitor predicate: after kill() on an actor that had not begun to stop at most one further handler starts, for every schedule and queue content; the bound is shown tight), kill_not_lost, kill_prompt. Monitors C06.killTotal / killBound / killOutcome / leftoversFail on every real trace; burst family lands kills at every phase with full mailboxes. Script family `abandon` (sends given up by their callers while queued, then kill / stop / nothing) and, on settled traces, monitor C06.killEnds: an actor on which kill() has returned has ended (the safety half is kill_not_lost + kill_prompt). On the single-threaded correspondence the monitors are the atomic ones: after a kill() that returned on a not-yet-stopping actor no handler starts (killBoundAtomic), no on_run pass begins or completes (noRunAfterKill) and the next on_stop is on_stop(true) (killWins). Progress: killed_actor_does_not_idle - when nothing can run any more, an actor with a pending kill has ended or is inside the hook that was in progress. The hook-language monitor C04.accepts is evaluated for this property too: an on_stop(killed=true) that began ends before the actor is joined.",
        "note": PROOF_NOTE,
        "technique": "Lean 4 fold-invariant proof (budget argument over the split select) + correspondence + Lean monitors on real traces",
        "extra": ["stress"],
        "monitors": ["C06", "C04"],
        "corr": corr(["handles", "abandon", "eager", "shutdown", "burst", "mixed", "idle"], erase="both"),
        "extract_items": [],
        "assumptions": COMMON_ASSUME,
    },
})

PROPS.update({
    "C07": {
        "level": "proof",
        "text": "Kernel-checked step theorems (for every state, hence every reachable one): never_spontaneous (a live actor begins to stop only by consuming a kill, observing zero strong references, dequeuing the stop marker, or an on_run error), ends_only_after_stop_or_crash, weak_dont_count, upgrade_iff, closed_means_unreferenced (the reference count includes handles, queued envelopes and markers, blocked senders, the running handler, operations in flight), and progress lemmas ends_when_unreferenced / ends_when_stopped. On real traces: C07.neverSpontaneous on every trace and endsWhenDue on settled (fully drained) traces; the handles family walks clone/drop/downgrade/upgrade histories. Stress scenario `backlog`: with any kind of on_run and backlogs of up to 200 queued messages, stop() or the drop of the last reference ends the actor after all of them were handled. Progress: unreferenced_actor_does_not_idle / idle_actor_is_referenced - when nothing can run any more, an actor without strong references has ended (or is inside a hook waiting for its own event), and an actor that idles is referenced, has no kill pending and an empty mailbox. The hook-language monitor C04 (on_stop at most once; killed=true only after a kill) is evaluated under C07 too: the statement names on_stop(killed=false).",
        "note": PROOF_NOTE + " Liveness (the JoinHandle eventually resolves) is stated as progress lemmas plus the settled-trace monitor, not as a temporal theorem.",
        "technique": "Lean 4 case-analysis theorems on the step function + correspondence on handle histories + Lean monitors on settled real traces",
        "monitors": ["C07", "C01", "C02", "C04"],
        "corr": corr(["eager", "shutdown", "handles", "mixed", "burst", "timeouts"], erase="both"),
        "extra": ["stress"],
        "extract_items": ["lifecycle", "send_paths", "handle_algebra"],
        "assumptions": COMMON_ASSUME + ["the two sender counts of an ActorRef are treated as one (both closure arms are on_stop(false); break - shape lemma lifecycle_arms)"],
    },
    "C08": {
        "level": "proof",
        "text": "Kernel-checked for every run: run_only_when_empty (at the on_run poll every message accepted when that poll checked the mailbox has been taken), disable_forever_and_err_fails (on the monitor predicate: no on_run poll after Ok(false); after Err the next hook event is on_stop(false)), disabled_stays, serving_after_disable, continue_rearms. The select order / guard are extracted from src/actor.rs (shape lemma select_order). Monitors C08.runOnlyWhenEmpty / disableForeverAndErrFails on real traces; the idle family drives on_run scripts against message arrivals. backlog mode `spinning`: an on_run that returns Ok(true) without waiting is run again pass after pass (400 passes) - nothing but Ok(false) or Err disables it.",
        "note": PROOF_NOTE,
        "technique": "Lean 4 fold-invariant proof + extraction of the select! shape + correspondence with cancel-and-restart of on_run futures",
        "monitors": ["C08"],
        "corr": corr(["eager", "idle", "mixed", "burst"]),
        "extra": ["stress"],
        "extract_items": ["lifecycle"],
        "assumptions": COMMON_ASSUME,
    },
    "C11": {
        "level": "proof",
        "text": "Kernel-checked: ids_unique for any number of spawns (the allocator constants are extracted from src/lib.rs), alive_true / alive_false (is_alive on a strong handle is true until the actor has ended and false afterwards, for every run), sends_fail_after_end, upgrade_iff. Identity copying and the two-channel liveness predicates are extracted shape lemmas (handle_algebra_shape, forwarders_verbatim). upgrade_truthful_monitor (Inv/Handles: the strong handles read off the trace are those of the handle table, and every failed upgrade in every run happened while the script held none - the predicate Monitor.C11.upgradeTruthful that runs on real traces). Probes alive/upgrade are script operations compared step by step with the real crate; monitor C11 on real traces; stress ids (incl. failing on_start) and refs (no-yield handle sequences, identity through every way of copying a handle between two actors). Stress scenario `afterend`: after the JoinHandle resolved (actor ended by kill or stop with messages still queued) is_alive is false and every send fails at once, from worker tasks of a multi-thread runtime and on a current-thread runtime that polls the driver every tick. The ids scenario creates its 32,000 actors through spawn() and spawn_with_mailbox_capacity() alike.",
        "note": PROOF_NOTE + " Atomicity of fetch_add is assumed (std); identities of different actors are compared in the multi-actor scripts of C12/C14.",
        "technique": "Lean 4 theorems on the step function and the allocator + extracted shape lemmas + correspondence with liveness probes",
        "extra": ["stress"],
        "monitors": ["C11", "C03"],
        "corr": corr(["handles", "mixed"]),
        "extract_items": ["handle_algebra", "spawn_with_mailbox_capacity", "forwarders"],
        "assumptions": COMMON_ASSUME + ["AtomicU64::fetch_add is atomic"],
    },
})

PROPS.update({
    "C12": {
        "level": "proof",
        "text": "Kernel-checked: a panic in any hook surfaces as a panic JoinError with nothing running after it (C04/C05 theorems, which quantify over all runs including every crash point), the victim's pending and later senders complete with errors (C03.completes), the deliberate deadlock panic changes nothing of other actors (deadlock_panic_is_local), the wait-for map is never corrupted in any reachable state (graph_never_corrupted = the C15 invariant), asks to a dead actor are resumable. The lock is released before the panic (extracted). Real side: multi-actor histories with scripted panics at arbitrary handler positions, replayed on the protocol model, plus a poisoned-lock probe after every macro-step; single-actor scripts panic in on_start / k-th handler / k-th on_run / on_stop and are compared step by step. Stress scenario `hookpanic` (see C04): the panic is reported, nothing queued behind it is handled, later sends fail. backlog mode `failing3`: the on_run pass that returns Err first sends two messages to its own actor; the failed actor handles neither. afterend: sends of a u32, a () and a &str to an ended actor, made from a task of their own, each return an error - the sending task does not fail with the actor it wrote to.",
        "note": PROOF_NOTE + " Isolation of Tokio tasks (a panic unwinds only its task) is a property of the runtime, assumed.",
        "technique": "Lean 4 theorems on the actor model and on the wait-for protocol model + replay of real multi-actor histories on the model",
        "monitors": ["C03", "C04", "C05", "C13"],
        "extra": ["stress", "netcorr"],
        "corr": corr(["eager", "shutdown", "mixed", "burst", "idle"]),
        "extract_items": ["ask_protocol", "lifecycle", "feature_sites"],
        "assumptions": COMMON_ASSUME + ["a panic unwinds only the panicking task (Tokio)"],
    },
    "C14": {
        "level": "proof",
        "text": "Kernel-checked: hasPath_spec (the function translated from has_path decides reachability in >= 1 step for every graph: the len() bound always suffices), graph_covers (every unanswered in-flight ask has its edge in every reachable state), closes_panics (self-ask or any chain of in-flight asks back to the asker => the ask panics with the cycle path, inserts no edge, for every cycle length and creation order), waits_otherwise, no_one_left_waiting, asks_to_dead_are_lost, late_reply_keeps_newer_edge (a reply that arrives after its asker gave up still calls clear_wait_for with the old token; in every reachable state that removes nothing, so the asker's newer edge stays visible), path_starts_with_caller. The protocol steps (check+insert under one lock, all four hooks scoped) are extracted, and so is the shape of the timed ask (timeout(d, self.ask(msg)): the protocol applies whatever the budget, zero included - generated histories and a corpus history use 0 ms budgets). Real side: random ask topologies (cycles of length 1-5, timeouts, panics, kills) replayed on the model: every model-predicted deadlock must be a real panic with the same cycle path; translation differential on 11,886 graph queries. Peers whose on_run fails reach on_stop through the error path (`runerr<k>`): cycles closed by asks made there are part of the generated histories and of the corpus. Stress scenario `cyclerace` (all-features build): two actors on two OS threads ask each other at the same instant behind a spin barrier, 1500 rounds: one of the two asks is always reported. Stress scenario `slowlog` (all-features build): three actors on three OS threads under a tracing subscriber that takes up to 50 ms for some of the crate's events; an ask whose deadline races its reply, then an ask that closes a cycle through the same asker: the closing ask always panics (60 rounds quick, 240 thorough). Corpus history c14_ring_of_ten.net: a cycle of ten actors is reported like any other (the net harness runs up to 16 peers).",
        "note": PROOF_NOTE + " Asks awaited concurrently inside one hook are outside the property (sequential asks only).",
        "technique": "Lean 4 proof (pigeonhole bound for the translated graph walk; protocol invariant) + replay of real histories on the protocol model",
        "monitors": ["C03"],
        "extra": ["netcorr", "tables", "stress"],
        "corr": corr(["mixed"], nq=60, nt=500),
        "extract_items": ["has_path", "format_cycle_path", "ask_protocol", "feature_sites", "timeout_wrappers"],
        "assumptions": COMMON_ASSUME,
    },
    "C15": {
        "level": "proof",
        "text": "Kernel-checked for every run of the protocol: graph_exact (the wait-for map is exactly the set of unanswered in-flight asks), sound (a deadlock is reported only for a self-ask or a chain in which every link is an in-flight unanswered ask), no_residue, ended_dont_count, answered_no_edge, and the stale-edge scenario is fine. These hold for the repaired protocol (edge cleared token-matched at reply time), which is what the extractor finds in the source; on the unrepaired source the shape lemma fails and the corpus history c15_stale_edge.net exhibits the false panic. Real side: histories replayed on the model with a snapshot of the real map (hook wait_for_edges) compared after every macro-step.",
        "note": PROOF_NOTE + " Hook: read-only verif_hooks::wait_for_edges().",
        "technique": "Lean 4 invariant proof on the wait-for protocol model + replay of real histories with graph snapshots",
        "monitors": ["C03"],
        "extra": ["netcorr", "tables"],
        "corr": corr(["mixed"], nq=60, nt=500),
        "extract_items": ["has_path", "format_cycle_path", "ask_protocol", "feature_sites"],
        "assumptions": COMMON_ASSUME,
    },
})

PROPS.update({
    "C16": {
        "level": "proof",
        "text": "Kernel-checked: forwarders_verbatim (the table of all 28 trait-object methods, read from src/handler.rs and src/actor_control.rs on every run, forwards each method to the inherent method of the same name with the same arguments, strong traits implemented by ActorRef only, weak traits by ActorWeak only), conversions_keep_strength (every From conversion boxes the value itself or its clone: strong->strong, weak->weak), clone_keeps_strength / keeps_alive (model). Since each erased operation IS the direct one, all C01-C15 theorems transfer. Real side: every seeded script is run twice against the same model, once on ActorRef/ActorWeak directly and once with every operation (tell/ask/timeouts/stop/kill/clone/downgrade/upgrade/is_alive/identity) routed through a trait object chosen per operation (TellHandler, AskHandler, ActorControl, Weak*; via From<&ActorRef>, From<ActorRef>, clone_boxed, as_control, as_weak_control); the two runs must both equal the model's run step by step, hence each other; identity/upgrade/downgrade mismatches are logged as events that the model never produces. Stress scenario `erasedblk`: blocking_tell / blocking_ask directly and through Box<dyn TellHandler> / Box<dyn AskHandler> over timeouts {None, zero, 40 ms, 2 s} and actor states {idle, busy, full mailbox, ended} give the same outcome class. hookpanic keeps one Box<dyn ActorControl> across the actor's end and compares its is_alive() with the ActorRef's; erasedblk also compares the dead letters recorded by each call.",
        "note": PROOF_NOTE,
        "technique": "Lean 4 theorems over the forwarder table extracted from the source + double correspondence (direct and type-erased) against one model",
        "monitors": ["C01", "C02", "C03", "C07", "C11", "C13"],
        "corr": corr(["mixed", "handles", "timeouts", "burst"], nq=300, nt=3000, erase="both"),
        "extra": ["stress"],
        "extract_items": ["forwarders", "conversions", "handle_algebra"],
        "assumptions": COMMON_ASSUME + ["dyn dispatch and Box are transparent (Rust semantics)"],
    },
    "C17": {
        "level": "proof",
        "text": "PARTIAL (the wall-clock deadline bound is checked on real runs only, see the end of this text). Kernel-checked: aliases (tell_blocking/ask_blocking delegate to blocking_tell/blocking_ask and the dispatchers pick the timeout/no-timeout implementation: extracted), blocking_same_paths (blocking variants build the same envelope and use the same sender as tell/ask; timeout variants run tell/ask under tokio::time::timeout on a helper thread with a timer runtime: extracted), blocking_inherits (every label-list theorem covers callers on any thread: at-most-once, rejected-never, reply integrity, dead letters). Real side (multi-thread runtime, real clock): 1/4/16 plain threads issuing all six blocking forms against a live actor (delivery exactly once, per-thread order, reply integrity, aliases ignore the timeout); deadlines against a slow actor with a full mailbox (not early, not later than deadline + 300 ms); stopped actor (every variant fails at once with Send and a dead letter); timeout variants called from inside a runtime context (no panic). NOT proved: the wall-clock bound itself (it is a property of the OS scheduler, thread spawn and Tokio timer; checked with slack on real runs only). The deprecated aliases given Some(30 ms) against a full mailbox / a slow handler wait like the None forms (b9); a blocking call that timed out records exactly one dead letter whatever happens to the actor afterwards (b10). (c3) a handler's timed blocking_tell into its own full mailbox times out like tell_with_timeout; (b13) timed blocking calls on different threads do not wait for one another; the blocking scenario is run a second time on the build with all optional features. blocking (b15): a timed blocking_tell that timed out on a full mailbox says nothing about the next one, which waits for the slot within its own budget. blocking (b16): under a subscriber that takes 8-40 ms per event, a timed blocking call that times out returns with its one dead letter already recorded, as the async variants do.",
        "note": PROOF_NOTE + " The blocking API needs real threads; the step-by-step correspondence (single-threaded, paused clock) cannot run it, so the real side is oracle-only.",
        "technique": "Lean 4 theorems on the model + extracted send-path equalities; real-thread stress runs under property oracles",
        "monitors": ["C01", "C03", "C13"],
        "extra": ["stress"],
        "corr": corr(["timeouts", "mixed"], nq=150, nt=1500),
        "extract_items": ["blocking_dispatch", "send_paths", "timeout_wrappers", "ask_wait_watches_closed", "blocking_ask_wait_watches_closed", "dead_letter_census"],
        "assumptions": COMMON_ASSUME + ["OS thread scheduling delays below 300 ms in the deadline oracle"],
    },
})

PROPS.update({
    "C20": {
        "level": "proof",
        "text": "Kernel-checked on the collector translated from src/metrics/collector.rs on every run: count_len (message_count = number of records, any sequence), count_monotone / never_decreases, avg_le_max (via the invariant total <= count*max, saturation included), max_ge_each (max >= every recorded duration, capped at u64::MAX ns), snapshot_agrees; on the actor model: count_exact (in every reachable state message_count + [a handler is running] = number of handlers entered; stop markers and leftovers never enter a handler), max_ge_handler. The guard (records once, on drop, elapsed time) and its placement (one site, envelope arm, straight before the handler call, alive to the end of the arm) are extracted shape lemmas. Real side: harness built with the metrics feature (and all others); after every macro-step of every seeded script every live strong or weak-upgradable handle is read: message_count() = handlers entered and left (harness's own counter), never decreases, avg <= max, max >= the longest time measured strictly inside a handler body, metrics() snapshot = accessors, all handles agree, values stay readable after the actor ended (handles outlive it in most scripts); translation differential for the collector (tables). Script family `streak`: 130-190 handlers that finish at once followed by one that is held for milliseconds of real time, so that sampling or adaptive shortcuts in the guard show up as max < time demonstrably spent in a handler. Stress scenario `metabort` (all-features build): three handlers entered, the third left by JoinHandle::abort / a panic / the runtime being dropped while it is suspended: message_count() = 3 afterwards and max_processing_time() covers the time it ran.",
        "note": PROOF_NOTE + " Durations come from std::time::Instant; the oracle compares max against a lower bound measured inside the handler, never against exact times.",
        "technique": "Lean 4 proofs on the translated collector and on the actor model + extracted guard placement + metrics oracle at every quiescent point of the correspondence runs (metrics build)",
        "monitors": ["C04"],
        "extra": ["featcorr", "tables", "stress"],
        "corr": corr(["mixed", "shutdown"], nq=60, nt=500),
        "extract_items": ["Metrics", "metrics_guard_drop", "metrics_placement", "lifecycle"],
        "assumptions": COMMON_ASSUME + ["Relaxed atomics: readers at quiescence see all earlier records (the harness reads after the actor task has yielded)"],
    },
})

PROPS.update({
    "C18": {
        "level": "proof",
        "text": "PARTIAL (transparency of the tracing crate's span machinery and of task_local scoping is assumed, see the end of this text). Kernel-checked: (metrics) extra_ref_neutral - while a handler runs the envelope's own reference keeps strongCount >= 1, so the guard's extra reference clone (alive from before the handler call to the end of the arm) changes no closed/alive/upgrade test in any reachable state; count_exact (C20) shows the guard only records. (deadlock-detection) detection_silent_without_cycle - in the protocol model an ask that closes no cycle takes the same step whether or not detection is compiled in, apart from the bookkeeping map (C14.waits_otherwise / C15.sound: a panic needs a real chain). (tracing, test-utils) every feature-gated site of src/*.rs is read from the source on every run and classified (feature_sites_shape): tracing sites are spans, instrument attributes, log macros and a clock read used only by a log line; test-utils sites are the dead-letter counter; no unclassified site. Real side: the same seeded scripts run on harness builds with default features and with all four features (thorough: all 15 non-empty subsets); every build is compared step by step with the one model AND the builds' raw traces are compared byte for byte; multi-actor programs (asks between actors, timeouts, panics, kills, small mailboxes, concurrent asks) are compared between builds whenever they contain no ask cycle (by construction, or - general programs - when the detecting build saw no justified deadlock; an unjustified deadlock report is a violation). NOT proved: that the tracing crate's span/instrument machinery and task_local scoping are behaviourally transparent (assumed; exercised by the builds). The tables engine (all-features build) checks that the configured default capacity is process-wide: set on one thread, it governs spawn() on any other.",
        "note": PROOF_NOTE,
        "technique": "Lean 4 theorems (reference-count neutrality, detection silent without a cycle) + extracted inventory of feature-gated sites + differential correspondence across feature builds",
        "monitors": ["C01", "C02", "C03", "C04", "C05", "C13"],
        "extra": ["featcorr", "tables"],
        "corr": corr(["mixed", "shutdown"], nq=60, nt=500),
        "extract_items": ["feature_sites", "metrics_placement", "ask_protocol", "lifecycle"],
        "assumptions": COMMON_ASSUME + ["tracing::Span / #[instrument] / task_local scope wrappers only wrap the future they are given"],
    },
})

PROPS.update({
    "C19": {
        "level": "proof",
        "text": "Kernel-checked: decision_table - for every form of the #[handler] attribute (bare, any list of result/no_log/unknown options in any order and multiplicity, name-value), every declared return type (none, any path type, any other type) and both answers to 'is it really a Result', the macro's decision (compile error / impl that logs Err after tell / impl that logs nothing) equals the documented table stated independently; corollaries no_log_never_logs, result_and_no_log_is_error, non_result_logs_nothing, result_spelling_logs. is_result_type and the should_generate block are translated from rsactor-derive/src/lib.rs on every run; option parsing and the quote! templates (Reply = declared return type, handle = self.method(msg, actor_ref).await, generated on_tell_result = `if let Err(ref e) = result { error!(..) }` only, derive(Actor) = Args Self / Infallible / Ok(args), generics forwarded) are extracted shape lemmas; the runtime calls on_tell_result only without a reply channel (handle_message_shape). Real side: a generated corpus of actor programs over the grammar return-type spelling (15: unit, plain, Result in five spellings incl. bare fmt::Result and bare/generic aliases, alias not named Result, Option, tuple, Box, reference, a user type named Result) x attribute form (11) x actor kind (struct, enum, generic, generic with where clause) x message kind (plain, generic), each with co-existing non-handler methods, compiled against the real macros: programs the model calls errors must fail to compile (without any use site, so only the macro or its output can fail), the others are run through ask and tell with Ok and Err values: replies equal the method's value, error events after tell(Err) = 1 iff the model says 'log' (with the error's Display text), 0 after ask and after tell(Ok), the handler ran once per message, derive(Actor) hands back its argument. Runtime half, kernel-checked on the actor model: tell_result_adjacent (in every run tellResult/replySent occur only immediately after the handler of the same message returned, at most one of them, never after a panic) and result_follows_kind (a tell's handler is followed by on_tell_result and no reply, an ask's by its reply and no on_tell_result); the same automaton (C19.accepts) and the kind-aware C19.adjacent run on every real correspondence trace. Real threads: in the blocking stress scenario the actor overrides on_tell_result: after every tell-family blocking form (blocking_tell with and without timeout, tell_blocking) it is invoked exactly once with the handler's value, after ask-family forms never. Stress askjoin: a handler that returns a JoinHandle - ask_join gives exactly what awaiting that handle gives, whatever happens to the actor meanwhile. Every corpus program also issues ask_with_timeout(.., ZERO) with a failing handler: no error log (an ask is never a tell), the handler runs. hookpanic: after a panic in any hook of one actor (on_tell_result included) a fresh actor's handled tell is still followed by exactly one on_tell_result and its ask by none. Every corpus program also carries an attribute below #[handler] (#[allow(non_snake_case)] under #![deny(non_snake_case)]): the method is re-emitted as written, so the program must still compile.",
        "note": PROOF_NOTE + " rustc's own behaviour (trait resolution, `if let Err` typing) is part of the trusted base of the corpus run.",
        "technique": "Lean 4 proof of the decision table over definitions translated from the macro source + extracted templates + generated program corpus compiled and run against the real macros",
        "monitors": ["C19", "C01"],
        "extra": ["macrocorpus", "stress"],
        "corr": corr(["mixed", "burst"], nq=100, nt=1000),
        "extract_items": ["is_result_type", "should_generate", "handler_options", "macro_templates", "handle_message"],
        "assumptions": COMMON_ASSUME + ["the abstraction of a return type to (path segments' identifiers == Result, other) is done by the corpus generator and is part of the trusted base"],
    },
})

NOT_APPLICABLE = {p: "check not built yet in this session (work in progress; see DESIGN.md §12 build order)" for p in
                  ["C%02d" % i for i in range(1, 21)]}
