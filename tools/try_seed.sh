#!/bin/bash
# usage: try_seed.sh <patch> <prop> [<prop>...]   — applies a seeded change to /repo, runs quick checks, reverts
set -u
PATCH="$1"; shift
# stored changes of rounds 1-11 were written against 70d7802 (before the C06 repair): fall back to a 3-way merge
cd /repo && { git apply "$PATCH" 2>/dev/null || { git apply --3way "$PATCH" >/dev/null 2>&1 && git reset -q; }; } || { git reset -q; git checkout -q -- .; echo "patch does not apply"; exit 2; }
cd /verif
mkdir -p build/evidence_keep; for p in "$@"; do cp -f evidence/$p.json build/evidence_keep/ 2>/dev/null; done
for p in "$@"; do
  out=$(./run.sh quick "$p" 2>&1); rc=$?
  echo "$p rc=$rc :: $(echo "$out" | grep -E "VIOLATION|KNOWN|INFRA" | head -2 | tr '\n' ' ') | $(echo "$out" | tail -1)"
done
cd /repo && git reset -q && git checkout -- . && git clean -fdq -- src rsactor-derive tests examples && git status --short | head -3
# the evidence files written during a seeded run describe the seeded tree: put the clean ones back
cd /verif && for p in "$@"; do cp -f build/evidence_keep/$p.json evidence/ 2>/dev/null; done
cd /verif/lean && ../tools/extract/target/release/extract /repo Rsactor/Extracted.lean /verif/build/extract.json >/dev/null 2>&1
