#!/usr/bin/env python3
"""Verdict procedure (DESIGN.md §5) for one property.

usage: check.py <quick|thorough|replay> <Cxx | replay-file>
env:   VERIF_SEED (int), VERIF_REPO (default /repo), VERIF_TIER
exit:  0 held, 1 violation (a line `VIOLATION property=<id> replay=<path>` on stdout), 2 infrastructure error
"""
import fcntl
import json
import os
import re
import subprocess
import sys
import time

ROOT = os.path.dirname(os.path.dirname(os.path.abspath(__file__)))
REPO = os.environ.get("VERIF_REPO", "/repo")
BUILD = os.path.join(ROOT, "build")
LEAN = os.path.join(ROOT, "lean")
HARNESS = os.path.join(ROOT, "harness")
EXTRACT = os.path.join(ROOT, "tools", "extract")
DRIVER = os.path.join(LEAN, ".lake", "build", "bin", "driver")
ENV = dict(os.environ, CARGO_NET_OFFLINE="true")
ALLOWED_AXIOMS = {"propext", "Classical.choice", "Quot.sound"}

sys.path.insert(0, os.path.dirname(os.path.abspath(__file__)))
from props import PROPS  # noqa: E402


class Infra(Exception):
    pass


def sh(cmd, cwd=None, timeout=3600, input_text=None, env=None):
    p = subprocess.run(cmd, cwd=cwd, env=env or ENV, input=input_text, capture_output=True, text=True, timeout=timeout)
    return p.returncode, p.stdout, p.stderr


def write_if_changed(path, text):
    try:
        if open(path).read() == text:
            return False
    except FileNotFoundError:
        pass
    with open(path, "w") as f:
        f.write(text)
    return True


# --------------------------------------------------------------------------- step 1: extract
def extract():
    rc, out, err = sh(["cargo", "build", "--release", "--offline"], cwd=EXTRACT)
    if rc != 0:
        raise Infra("cannot build tools/extract:\n" + err[-2000:])
    tmp_lean = os.path.join(BUILD, "Extracted.lean.new")
    tmp_json = os.path.join(BUILD, "extract.json")
    rc, out, err = sh([os.path.join(EXTRACT, "target", "release", "extract"), REPO, tmp_lean, tmp_json])
    if rc != 0:
        raise Infra("extractor failed (is the tree under test syntactically valid Rust?):\n" + err[-2000:])
    write_if_changed(os.path.join(LEAN, "Rsactor", "Extracted.lean"), open(tmp_lean).read())
    info = json.load(open(tmp_json))
    unrec = {k: v for k, v in info.items() if isinstance(v, str) and v.startswith("UNRECOGNISED")}
    return info, unrec


# --------------------------------------------------------------------------- step 2: prove
def tie_names(path):
    return [m.group(1) for l in open(path) for m in [re.match(r"--\s*@tie\s+(\S+)", l)] if m]


def theorem_names(path):
    names, lines = [], []
    ns = None
    for i, l in enumerate(open(path), 1):
        m = re.match(r"namespace\s+(\S+)", l)
        if m and ns is None:
            ns = m.group(1)
        m = re.match(r"theorem\s+(\S+)", l)
        if m:
            names.append(m.group(1))
            lines.append(i)
    return ns, names, lines


def source_hygiene():
    """No sorry/admit/axiom/native_decide/... outside comments in any Lean source."""
    bad = []
    pat = re.compile(r"\bsorry\b|\badmit\b|^axiom\s|native_decide|bv_decide|implemented_by|\bunsafe\s|maxHeartbeats\s+0")
    for dp, _, fs in os.walk(LEAN):
        if ".lake" in dp:
            continue
        for f in fs:
            if not f.endswith(".lean"):
                continue
            in_block = False
            for i, l in enumerate(open(os.path.join(dp, f)), 1):
                code = l
                if in_block:
                    if "-/" in code:
                        in_block = False
                        code = code.split("-/", 1)[1]
                    else:
                        continue
                while "/-" in code:
                    pre, rest = code.split("/-", 1)
                    if "-/" in rest:
                        code = pre + rest.split("-/", 1)[1]
                    else:
                        code = pre
                        in_block = True
                        break
                code = code.split("--", 1)[0]
                if pat.search(code):
                    bad.append(f"{os.path.relpath(os.path.join(dp, f), LEAN)}:{i}: {l.strip()}")
    return bad


def prove(prop, thorough):
    cfg = PROPS[prop]
    module = "Rsactor.Props." + prop
    path = os.path.join(LEAN, "Rsactor", "Props", prop + ".lean")
    ns, names, lines = theorem_names(path)
    ties = tie_names(path)
    res = {"module": module, "theorems": names + [t.split(".")[-1] for t in ties], "failed": [], "axioms": {}, "build_log_tail": ""}
    rc, out, err = sh(["lake", "build", module, "driver"], cwd=LEAN, timeout=3000)
    log = out + err
    res["build_log_tail"] = log[-3000:]
    if rc != 0:
        # which obligations failed: map error lines in the property file to the enclosing theorem;
        # errors in imported modules break every theorem that depends on them
        failed = set()
        for m in re.finditer(r"error: (\S+?\.lean):(\d+):\d+", log):
            f, ln = m.group(1), int(m.group(2))
            if f.endswith(f"Props/{prop}.lean"):
                cand = [n for n, l0 in zip(names, lines) if l0 <= ln]
                failed.add(cand[-1] if cand else f"{f}:{ln}")
            elif "/Ties/" in f or f.startswith("Rsactor/Ties/"):
                failed.add(os.path.basename(f)[:-5] + " (shape lemma: the source no longer has the shape the model assumes)")
            else:
                failed.add(f"{f}:{ln}")
        if not failed:
            failed.add("lake build failed")
        res["failed"] = sorted(failed)
        if not os.path.exists(DRIVER):
            raise Infra("the Lean driver could not be built:\n" + log[-3000:])
        return res
    # axiom audit
    audit = os.path.join(BUILD, f"Audit_{prop}.lean")
    with open(audit, "w") as f:
        f.write(f"import {module}\n")
        for n in names:
            f.write(f"#print axioms {ns}.{n}\n")
        for t in ties:
            f.write(f"#print axioms {t}\n")
    rc, out, err = sh(["lake", "env", "lean", audit], cwd=LEAN, timeout=1200)
    cur = None
    text = out + err
    for m in re.finditer(r"'([^']+)' depends on axioms: \[([^\]]*)\]|'([^']+)' does not depend on any axioms", text):
        if m.group(1):
            res["axioms"][m.group(1).split(".")[-1]] = [a.strip() for a in m.group(2).replace("\n", " ").split(",") if a.strip()]
        else:
            res["axioms"][m.group(3).split(".")[-1]] = []
    for n in names + [t.split(".")[-1] for t in ties]:
        ax = res["axioms"].get(n)
        if ax is None:
            res["failed"].append(f"{n} (no axiom report)")
        elif not set(ax) <= ALLOWED_AXIOMS:
            res["failed"].append(f"{n} (axioms {ax})")
    bad = source_hygiene()
    if bad:
        res["failed"].append("source hygiene: " + "; ".join(bad[:5]))
    if thorough and not res["failed"]:
        rc, out, err = sh(["lake", "env", "leanchecker", module], cwd=LEAN, timeout=3000)
        res["leanchecker_rc"] = rc
        if rc != 0:
            res["failed"].append("leanchecker: " + (out + err)[-500:])
    return res


# --------------------------------------------------------------------------- step 3/4: correspond + monitor
def build_harness(features):
    text = open(os.path.join(HARNESS, "Cargo.toml.in")).read().replace("@REPO@", REPO)
    write_if_changed(os.path.join(HARNESS, "Cargo.toml"), text)
    lock_src = os.path.join(REPO, "Cargo.lock")
    if os.path.exists(lock_src) and not os.path.exists(os.path.join(HARNESS, "Cargo.lock")):
        write_if_changed(os.path.join(HARNESS, "Cargo.lock"), open(lock_src).read())
    cmd = ["cargo", "build", "--release", "--offline"]
    if features:
        cmd += ["--features", ",".join(features)]
    rc, out, err = sh(cmd, cwd=HARNESS, timeout=3000)
    if rc != 0:
        raise Infra("cannot build the harness against the tree under test:\n" + err[-3000:])


def run_corr(prop, seed, n, families, erase=False, tag=""):
    rep = os.path.join(BUILD, f"corr_{prop}{tag}.json")
    tr = os.path.join(BUILD, f"traces_{prop}{tag}.txt")
    cmd = [os.path.join(HARNESS, "target", "release", "corr"), "--driver", DRIVER, "--seed", str(seed), "--n", str(n),
           "--family", ",".join(families), "--corpus", os.path.join(ROOT, "corpus"), "--report", rep, "--traces", tr]
    if erase:
        cmd.append("--erase")
    rc, out, err = sh(cmd, timeout=3000)
    if rc not in (0, 3):
        raise Infra(f"corr failed rc={rc}:\n" + err[-2000:])
    return json.load(open(rep)), tr


def run_monitors(prop, traces_path, monitors):
    text = "monitor " + ",".join(monitors) + "\n" + open(traces_path).read()
    rc, out, err = sh([DRIVER], input_text=text, timeout=3000)
    fails = [l.split()[1:] for l in out.splitlines() if l.startswith("FAIL ")]
    parse_errors = [l for l in out.splitlines() if l.startswith("PARSE-ERROR")]
    summary = [l for l in out.splitlines() if l.startswith("monitor-summary")]
    if rc != 0 or not summary:
        raise Infra("monitor run failed:\n" + (out + err)[-2000:])
    return fails, parse_errors, summary[0]


def trace_of(traces_path, name):
    cur, keep = [], False
    for l in open(traces_path):
        if l.startswith("trace "):
            keep = l.split()[1] == name
            cur = []
        if keep:
            cur.append(l.rstrip("\n"))
        if l.startswith("endtrace") and keep:
            return cur
    return cur


# --------------------------------------------------------------------------- verdict
def known_findings():
    out = []
    p = os.path.join(ROOT, "known_findings.txt")
    if os.path.exists(p):
        for l in open(p):
            l = l.strip()
            if l.startswith("finding:"):
                m = re.search(r"property=(\S+)\s+witness=(\S+)\s*(.*)", l)
                if m:
                    out.append({"property": m.group(1), "witness": m.group(2), "text": m.group(3)})
    return out


def write_replay(prop, kind, payload):
    os.makedirs(os.path.join(ROOT, "replays"), exist_ok=True)
    path = os.path.join(ROOT, "replays", f"{prop}-{kind}-{int(time.time())}.json")
    payload = dict(payload, property=prop, kind=kind, repo=REPO)
    payload.setdefault("seed", int(os.environ.get("VERIF_SEED", "1")))
    with open(path, "w") as f:
        json.dump(payload, f, indent=1)
    return path


def check(prop, tier):
    t0 = time.time()
    seed = int(os.environ.get("VERIF_SEED", "1"))
    thorough = tier == "thorough"
    cfg = PROPS[prop]
    os.makedirs(BUILD, exist_ok=True)
    os.makedirs(os.path.join(ROOT, "evidence"), exist_ok=True)
    lock = open(os.path.join(BUILD, ".lock"), "w")
    fcntl.flock(lock, fcntl.LOCK_EX)

    info, unrec = extract()
    needed = cfg.get("extract_items", [])
    broken_items = {k: v for k, v in unrec.items() if any(k == n or k.startswith(n) for n in needed)}
    pr = prove(prop, thorough)
    proof_ok = not pr["failed"]

    violations = []   # (kind, text, payload) with a concrete failing input
    broken = []       # ties / obligations that no longer check
    if not proof_ok:
        broken.append("proof obligations: " + ", ".join(pr["failed"]))
    if broken_items:
        broken.append("extraction: " + "; ".join(f"{k}: {v}" for k, v in broken_items.items()))

    corr_total = {"scripts": 0, "macro_steps": 0, "distinct_nontrivial": 0, "divergences": [], "ops": {}, "events": {}, "samples": []}
    monitor_summaries = []
    extra = {}
    if cfg.get("corr"):
        build_harness(cfg.get("features", []))
        n = cfg["corr"]["n_thorough" if thorough else "n_quick"]
        runs = [(seed, n, "")]
        if thorough:
            runs += [(seed + 101 * i, n, f"_s{i}") for i in range(1, 4)]
        er = cfg["corr"].get("erase", False)
        if er == "both":   # the same seeded scripts directly and through the type-erased wrappers, both against the model
            runs = [(sd, nn, tag, False) for (sd, nn, tag) in runs] + [(sd, nn, tag + "_erased", True) for (sd, nn, tag) in runs]
        else:
            runs = [(sd, nn, tag, bool(er)) for (sd, nn, tag) in runs]
        div_by_run = {}
        for (sd, nn, tag, erased) in runs:
            rep, tr = run_corr(prop, sd, nn, cfg["corr"]["families"], erase=erased, tag=tag)
            corr_total.setdefault("erased_scripts", 0)
            if erased:
                corr_total["erased_scripts"] += rep["scripts"]
            for k in ("scripts", "macro_steps", "distinct_nontrivial"):
                corr_total[k] += rep[k]
            for k in ("ops", "events"):
                for kk, vv in rep[k].items():
                    corr_total[k][kk] = corr_total[k].get(kk, 0) + vv
            corr_total["divergences"] += rep["divergences"]
            div_by_run.setdefault(tag.replace("_erased", ""), {})[erased] = {d["script"]: d for d in rep["divergences"]}
            if not corr_total["samples"]:
                corr_total["samples"] = rep["samples"][:1]
            fails, perr, summ = run_monitors(prop, tr, cfg["monitors"])
            monitor_summaries.append(summ)
            for pe in perr[:3]:
                broken.append("trace parse error: " + pe)
            for f in fails:
                mon, name = f[0], f[1]
                violations.append(("monitor-failure", f"monitor {mon} is false on the real trace {name}",
                                   {"monitor": mon, "trace": trace_of(tr, name), "seed": sd}))
        if prop == "C16":
            # transparency itself: the same script, run directly, follows the model; run through the type-erased
            # wrappers it does not - the operation has a different observable effect through the trait object
            for base, both in div_by_run.items():
                only_erased = [d for name, d in both.get(True, {}).items() if name not in both.get(False, {})]
                for d in only_erased[:1]:
                    violations.append(("erased-run-differs", f"script {d['script']}: run directly on the ActorRef / ActorWeak it behaves as the model says; with the same operations issued through type-erased handles it differs at step {d['step']} ({d['op']})",
                                       {"failing_input": d, "scripts_differing_only_when_erased": len(only_erased), "seed": seed}))
        if corr_total["divergences"]:
            d = corr_total["divergences"][0]
            broken.append(f"correspondence: model and implementation diverge on {len(corr_total['divergences'])} script(s); first: {d['script']} at step {d['step']} ({d['op']})")
    for hook in cfg.get("extra", []):
        from extra import EXTRA  # noqa: E402
        r = EXTRA[hook](prop, tier, seed, dict(ROOT=ROOT, REPO=REPO, BUILD=BUILD, DRIVER=DRIVER, HARNESS=HARNESS, sh=sh, Infra=Infra, build_harness=build_harness))
        extra[hook] = r.get("evidence", {})
        for v in r.get("violations", []):
            violations.append(v)
        for b in r.get("broken", []):
            broken.append(b)

    # search for a failing input when a tie or an obligation is broken but nothing failed yet
    search_note = None
    if broken and not violations and cfg.get("corr"):
        fams = ["mixed", "burst", "handles", "idle", "timeouts", "shutdown", "eager", "flood", "abandon"]
        rep, tr = run_corr(prop, seed + 7777, 3000 if thorough else 1200, fams, tag="_search")
        fails, perr, summ = run_monitors(prop, tr, cfg["monitors"])
        search_note = f"search: {rep['scripts']} further scripts over all families under monitors {cfg['monitors']}: {len(fails)} monitor failure(s)"
        for f in fails[:1]:
            violations.append(("monitor-failure", f"monitor {f[0]} is false on the real trace {f[1]} (found by the search after a broken tie)",
                               {"monitor": f[0], "trace": trace_of(tr, f[1]), "seed": seed + 7777, "broken": broken}))

    # known findings
    kf = [k for k in known_findings() if k["property"] == prop]
    reported = []
    exit_code = 0
    for (kind, text, payload) in violations:
        wit = payload.get("witness")
        hit = [k for k in kf if wit and k["witness"] == wit]
        if hit:
            print(f"KNOWN-FINDING: property={prop} {hit[0]['witness']} {hit[0]['text']}")
            continue
        reported.append((kind, text, payload))
    if reported:
        kind, text, payload = reported[0]
        path = write_replay(prop, kind, dict(payload, what=text, all=[t for (_, t, _) in reported][:20]))
        print(f"VIOLATION property={prop} replay={path}")
        exit_code = 1
    elif broken:
        path = write_replay(prop, "tie-broken", {"no_longer_checks": broken, "search": search_note,
                                                "build_log_tail": pr["build_log_tail"],
                                                "divergence": corr_total["divergences"][:1]})
        print(f"VIOLATION property={prop} replay={path} no-failing-input-found")
        exit_code = 1

    obligations = len(pr["theorems"])
    discharged = obligations - len([f for f in pr["failed"] if f.split(" ")[0] in pr["theorems"]]) if proof_ok or pr["theorems"] else 0
    if not proof_ok and all(f.split(" ")[0] not in pr["theorems"] for f in pr["failed"]):
        discharged = 0
    ev = {
        "property_id": prop,
        "tier": tier,
        "seed": seed,
        "level": cfg["level"],
        "coverage": {
            "obligations": obligations,
            "discharged": discharged,
            "checker_cmd": f"cd {LEAN} && lake build Rsactor.Props.{prop} && lake env lean build/Audit_{prop}.lean (#print axioms)" + (" && lake env leanchecker Rsactor.Props." + prop if thorough else ""),
            "trusted_base": ["Lean 4.33 kernel", "axioms: " + ", ".join(sorted({a for v in pr["axioms"].values() for a in v}) or ["none"]),
                             "tools/extract (translator, differential-tested by the tables harness)",
                             "correspondence harness + Exec scheduler + canonicaliser",
                             "Tokio primitives behave as modelled (DESIGN.md §3.7)"],
            "theorems": pr["theorems"],
            "axioms_per_theorem": pr["axioms"],
            "failed_obligations": pr["failed"],
            "unrecognised_extraction_items": broken_items,
            "evaluations": corr_total["scripts"],
            "distinct_nontrivial": corr_total["distinct_nontrivial"],
            "rule": "seeded operation scripts (families %s) run on the real crate (paused current-thread Tokio runtime) and on the Lean model, canonical event streams diffed per macro-step; distinct_nontrivial = scripts in which the actor's JoinHandle resolved and whose set of event kinds had not been seen before in this run" % (cfg.get("corr", {}).get("families"),),
            "traces_validated_against_impl": corr_total["scripts"],
            "macro_steps": corr_total["macro_steps"],
            "divergences": len(corr_total["divergences"]),
            "monitors": cfg.get("monitors", []),
            "monitor_summaries": monitor_summaries,
            "op_distribution": corr_total["ops"],
            "event_distribution": corr_total["events"],
            "samples": corr_total["samples"] or [{"theorems": pr["theorems"][:5]}],
            "extra": extra,
            "search": search_note,
        },
        "assumptions": cfg.get("assumptions", []),
        "wall_s": round(time.time() - t0, 2),
        "violations": len(reported) + (1 if (broken and not reported) else 0),
    }
    with open(os.path.join(ROOT, "evidence", f"{prop}.json"), "w") as f:
        json.dump(ev, f, indent=1)
    print(f"{prop} {tier}: obligations={obligations} discharged={discharged} scripts={corr_total['scripts']} divergences={len(corr_total['divergences'])} violations={ev['violations']} wall={ev['wall_s']}s")
    return exit_code


def replay(path):
    r = json.load(open(path))
    prop = r["property"]
    print(json.dumps({k: r[k] for k in r if k not in ("trace",)}, indent=1)[:4000])
    tr = r.get("trace")
    if tr:
        script = [l[2:] for l in tr if l.startswith("> ")]
        p = os.path.join(BUILD, "replay.script")
        os.makedirs(BUILD, exist_ok=True)
        open(p, "w").write("\n".join(script) + "\n")
        build_harness(PROPS[prop].get("features", []))
        tpath = os.path.join(BUILD, "replay_traces.txt")
        sh([os.path.join(HARNESS, "target", "release", "corr"), "--driver", DRIVER, "--replay", p, "--traces", tpath, "--report", os.path.join(BUILD, "replay_report.json")])
        fails, perr, summ = run_monitors(prop, tpath, PROPS[prop]["monitors"])
        print("replayed on the current tree:", summ, "fails:", fails)
        return 1 if fails else 0
    fi = r.get("failing_input") if isinstance(r.get("failing_input"), dict) else None
    if r.get("kind") == "history-failure" and fi and fi.get("script"):
        # a multi-actor history: run the recorded program on the current tree and replay it on the protocol model
        from extra import build_feat
        ctx = dict(ROOT=ROOT, REPO=REPO, BUILD=BUILD, DRIVER=DRIVER, HARNESS=HARNESS, sh=sh, Infra=Infra, build_harness=build_harness)
        bindir = build_feat(ctx)
        p = os.path.join(BUILD, "replay.net")
        open(p, "w").write("\n".join(fi["script"]) + "\n")
        rep = os.path.join(BUILD, "replay_net.json")
        rc, out, err = sh([os.path.join(bindir, "netcorr"), "--driver", DRIVER, "--replay", p, "--report", rep])
        rr = json.load(open(rep))
        print("replayed on the current tree:", rr["summary"], "fails:", [f["fail"] for f in rr["failing"]][:3])
        return 1 if rr["fails"] else 0
    # every other kind (stress / tables / corpus / cross-build engines, broken ties): the engines are
    # deterministic functions of the seed, so the replay is the property's quick check under the recorded seed
    os.environ["VERIF_SEED"] = str(r.get("seed", os.environ.get("VERIF_SEED", "1")))
    print(f"replay = quick check of {prop} with VERIF_SEED={os.environ['VERIF_SEED']} on the current tree")
    return check(prop, "quick")


def main():
    if len(sys.argv) != 3:
        print(__doc__)
        return 2
    mode, arg = sys.argv[1], sys.argv[2]
    try:
        if mode == "replay":
            return replay(arg)
        if arg not in PROPS:
            print(f"unknown property {arg}")
            return 2
        return check(arg, mode)
    except Infra as e:
        print("INFRASTRUCTURE ERROR (no verdict):", e)
        return 2


if __name__ == "__main__":
    sys.exit(main())
