"""Generates the macro corpus (C19): small actor programs drawn from the grammar of handler signatures
   (return-type spelling x #[handler(..)] form x actor kind x message kind), positive ones as modules of one
   binary, programs that must not compile as one binary each.  The expectation for every program comes from
   the Lean model (driver `macro` lines), never from this generator."""
import os

# (key, Rust spelling, model abstraction, really a Result?, ok-expr, err-expr, Debug of ok, Debug of err, text the error log must contain)
RETS = [
    ("unit", None, "none", False, "()", "()", "()", "()", None),
    ("u32", "u32", "path:o", False, "v", "0", "3", "0", None),
    ("result", "Result<u32, String>", "path:r", True, "Ok(v)", 'Err("boom".to_string())', "Ok(3)", 'Err("boom")', "boom"),
    ("std_result", "std::result::Result<u32, String>", "path:o.o.r", True, "Ok(v)", 'Err("boom".to_string())', "Ok(3)", 'Err("boom")', "boom"),
    ("core_result", "::core::result::Result<u32, String>", "path:o.o.r", True, "Ok(v)", 'Err("boom".to_string())', "Ok(3)", 'Err("boom")', "boom"),
    ("fmt_result", "fmt::Result", "path:o.r", True, "{ let _ = v; Ok(()) }", "Err(fmt::Error)", "Ok(())", "Err(Error)", "formatting"),
    ("std_fmt_result", "std::fmt::Result", "path:o.o.r", True, "{ let _ = v; Ok(()) }", "Err(fmt::Error)", "Ok(())", "Err(Error)", "formatting"),
    ("alias", "MyRes", "path:o", True, "Ok(v)", 'Err("boom".to_string())', "Ok(3)", 'Err("boom")', "boom"),
    ("generic_alias", "ali::Result<u32>", "path:o.r", True, "Ok(v)", 'Err("boom".to_string())', "Ok(3)", 'Err("boom")', "boom"),
    ("bare_alias", "bare::Result", "path:o.r", True, "Ok(v)", 'Err("boom".to_string())', "Ok(3)", 'Err("boom")', "boom"),
    ("option", "Option<u32>", "path:o", False, "Some(v)", "None", "Some(3)", "None", None),
    ("tuple", "(u32, u32)", "other", False, "(v, 1)", "(0, 0)", "(3, 1)", "(0, 0)", None),
    ("boxed", "Box<u32>", "path:o", False, "Box::new(v)", "Box::new(0)", "3", "0", None),
    ("str_ref", "&'static str", "other", False, '{ let _ = v; "ok" }', '"err"', '"ok"', '"err"', None),
    ("user_named_result", "mine::Result", "path:o.r", False, "mine::Result(v)", "mine::Result(0)", "Result(3)", "Result(0)", None),
    # a Result whose Ok type is the actor's own type parameter (generic actors only: T = u8, t = 5)
    ("result_of_param", "Result<T, String>", "path:r", True, "{ let _ = v; Ok(self.t.clone()) }", 'Err("boom".to_string())', "Ok(5)", 'Err("boom")', "boom"),
    ("std_result_of_param", "std::result::Result<T, String>", "path:o.o.r", True, "{ let _ = v; Ok(self.t.clone()) }", 'Err("boom".to_string())', "Ok(5)", 'Err("boom")', "boom"),
]

# (key, attribute text, model form)
ATTRS = [
    ("plain", "#[handler]", "path"),
    ("empty", "#[handler()]", "list:"),
    ("result", "#[handler(result)]", "list:r"),
    ("no_log", "#[handler(no_log)]", "list:n"),
    ("no_log_comma", "#[handler(no_log,)]", "list:n"),
    ("result_twice", "#[handler(result, result)]", "list:r,r"),
    ("both", "#[handler(result, no_log)]", "list:r,n"),
    ("both_rev", "#[handler(no_log, result)]", "list:n,r"),
    ("unknown", "#[handler(foo)]", "list:u"),
    ("unknown_after", "#[handler(no_log, foo)]", "list:n,u"),
    ("name_value", '#[handler = "x"]', "nv"),
]

BOUND = "Send + Sync + Clone + std::fmt::Debug + PartialEq + 'static"
ACTORS = [
    # key, type decl, impl header, concrete type, init expr, bump body, state expr
    ("struct", "#[derive(Actor, Debug, Clone, PartialEq)]\npub struct A { pub seed: u32, pub calls: u32 }",
     "impl A", "A", "A { seed: 7, calls: 0 }", "self.calls += 1;", "(self.seed, self.calls)"),
    ("enum", "#[derive(Actor, Debug, Clone, PartialEq)]\npub enum A { Idle { seed: u32, calls: u32 }, Busy(u32, u32) }",
     "impl A", "A", "A::Busy(7, 0)",
     "match self { A::Idle { calls, .. } => *calls += 1, A::Busy(_, c) => *c += 1 }",
     "match self { A::Idle { seed, calls } => (*seed, *calls), A::Busy(s, c) => (*s, *c) }"),
    ("generic", f"#[derive(Actor, Debug, Clone, PartialEq)]\npub struct A<T: {BOUND}> {{ pub seed: u32, pub calls: u32, pub t: T }}",
     f"impl<T: {BOUND}> A<T>", "A<u8>", "A { seed: 7, calls: 0, t: 5u8 }", "self.calls += 1;", "(self.seed, self.calls)"),
    ("generic_where", f"#[derive(Actor, Debug, Clone, PartialEq)]\npub struct A<T> where T: {BOUND} {{ pub seed: u32, pub calls: u32, pub t: T }}",
     f"impl<T> A<T> where T: {BOUND}", "A<String>", 'A { seed: 7, calls: 0, t: "x".to_string() }', "self.calls += 1;", "(self.seed, self.calls)"),
]
MSGS = [
    ("plain", "pub struct Msg { pub fail: bool, pub park: bool, pub v: u32 }", "Msg", "Msg { fail: {f}, park: {p}, v: 3 }", "m.v"),
    ("generic", "pub struct Wrap<X> { pub inner: X, pub fail: bool, pub park: bool }", "Wrap<u32>", "Wrap { inner: 3u32, fail: {f}, park: {p} }", "m.inner"),
]

PRELUDE = """#![allow(dead_code, unused_imports, clippy::all)]
#![deny(non_snake_case)]
use rsactor::{message_handlers, Actor, ActorRef};
use std::fmt;
type MyRes = std::result::Result<u32, String>;
pub mod ali { pub type Result<T> = std::result::Result<T, String>; }
pub mod bare { pub type Result = std::result::Result<u32, String>; }
pub mod mine { #[derive(Debug, Clone, PartialEq)] pub struct Result(pub u32); }
"""


def program(i, ret, attr, actor, msg):
    rk, rspell, _, _, okx, errx, _, _, _ = ret
    ak, atext, _ = attr
    ck, decl, implh, conc, init, bump, state = actor
    mk, mdecl, mty, mlit, mval = msg
    lit = lambda f, p="false": mlit.replace("{f}", f).replace("{p}", p)
    arrow = f" -> {rspell}" if rspell else ""
    if rspell is None:
        body = "self.bump(); if m.park { macrocorpus::park().await; } let _ = (m.fail, v);"
    else:
        body = f"self.bump(); if m.park {{ macrocorpus::park().await; }} if m.fail {{ {errx} }} else {{ {okx} }}"
    src = f"""// program {i}: attr={ak} ret={rk} actor={ck} msg={mk}
{PRELUDE}
{decl}
{mdecl}
pub struct GetState;
pub struct GetAll;

#[message_handlers]
{implh} {{
    /// co-existing plain method
    pub fn bump(&mut self) {{ {bump} }}
    /// co-existing async method that is not a handler
    pub async fn not_a_handler(&mut self, x: u32) -> u32 {{ x + 1 }}

    {atext}
    async fn on_msg(&mut self, m: {mty}, _r: &ActorRef<Self>){arrow} {{
        let v: u32 = {mval};
        {body}
    }}

    #[handler]
    #[allow(non_snake_case)]
    async fn get_state(&mut self, _m: GetState, _r: &ActorRef<Self>) -> (u32, u32) {{
        // the method is re-emitted as written: an attribute below #[handler] still applies to it
        let Kept_Attribute = 0u32;
        let _ = Kept_Attribute;
        {state}
    }}

    #[handler]
    async fn get_all(&mut self, _m: GetAll, _r: &ActorRef<Self>) -> Self {{ self.clone() }}
}}

pub async fn run() -> String {{
    let init: {conc} = {init};
    let (r, jh) = rsactor::spawn::<{conc}>(init.clone());
    // #[derive(Actor)]: on_start hands back its argument unchanged
    let started: {conc} = r.ask(GetAll).await.unwrap();
    let start_ok = started == init;
    let l0 = macrocorpus::err_logs();
    let ask_ok = format!("{{:?}}", r.ask({lit("false")}).await.unwrap());
    let ask_err = format!("{{:?}}", r.ask({lit("true")}).await.unwrap());
    let l1 = macrocorpus::err_logs();
    r.tell({lit("false")}).await.unwrap();
    let _: (u32, u32) = r.ask(GetState).await.unwrap(); // barrier: the tell has been handled
    let l2 = macrocorpus::err_logs();
    r.tell({lit("true")}).await.unwrap();
    let (_, calls): (u32, u32) = r.ask(GetState).await.unwrap();
    let l3 = macrocorpus::err_logs();
    let text = macrocorpus::last_err_text();
    // an ask is an ask whatever its timeout: a zero budget may expire before the reply, but the handler's value is never
    // handed to on_tell_result (no error log), and the handler runs like for any accepted request
    let _ = r.ask_with_timeout({lit("true")}, std::time::Duration::ZERO).await;
    let (_, calls_after_zero): (u32, u32) = r.ask(GetState).await.unwrap();
    let l3z = macrocorpus::err_logs();
    r.stop().await.unwrap();
    let completed = jh.await.map(|x| x.is_completed()).unwrap_or(false);
    // a second instance: the handler of a tell is suspended when kill() is called and then returns its Err - the
    // handler's value is reported after the tell like any other (kill waits for the hook in progress)
    let (r2, jh2) = rsactor::spawn::<{conc}>(init.clone());
    let l4 = macrocorpus::err_logs();
    r2.tell({lit("true", "true")}).await.unwrap();
    let parked = macrocorpus::wait_parked().await;
    r2.kill().unwrap();
    macrocorpus::release();
    let killed = jh2.await.map(|x| x.was_killed()).unwrap_or(false);
    let l5 = macrocorpus::err_logs();
    format!("p{i} start_ok={{start_ok}} ask_ok={{ask_ok}} ask_err={{ask_err}} logs_ask={{}} logs_tell_ok={{}} logs_tell_err={{}} calls={{calls}} completed={{completed}} parked={{parked}} killed={{killed}} logs_tell_err_kill_pending={{}} logs_ask_zero_timeout={{}} calls_after_zero={{calls_after_zero}} text={{:?}}", l1 - l0, l2 - l1, l3 - l2, l5 - l4, l3z - l3, text)
}}
"""
    return src


def generate(root, rotation, thorough):
    """writes the corpus under <root>/src; returns the list of program descriptors"""
    gen = os.path.join(root, "src", "gen")
    bins = os.path.join(root, "src", "bin")
    for d in (gen, bins):
        os.makedirs(d, exist_ok=True)
        for f in os.listdir(d):
            os.remove(os.path.join(d, f))
    progs = []
    i = 0
    combos = []
    for ri, ret in enumerate(RETS):
        for ai, attr in enumerate(ATTRS):
            kinds = [(a, m) for a in range(len(ACTORS)) for m in range(len(MSGS))] if thorough else [((ri + ai + rotation) % len(ACTORS), (ri + 2 * ai + rotation) % len(MSGS))]
            if ret[0].endswith("_of_param"):
                # needs the actor's type parameter: the generic struct with T = u8
                kinds = sorted(set((2, m) for (_, m) in kinds))
            for (a, m) in kinds:
                combos.append((ret, attr, ACTORS[a], MSGS[m]))
    for (ret, attr, actor, msg) in combos:
        progs.append({"id": i, "ret": ret[0], "attr": attr[0], "actor": actor[0], "msg": msg[0], "model_line": f"macro {attr[2]} {ret[2]} {'true' if ret[3] else 'false'}",
                      "ask_ok": ret[6], "ask_err": ret[7], "err_text": ret[8], "src": program(i, ret, attr, actor, msg),
                      "attr_text": attr[1], "ret_text": ret[1] or "()"})
        i += 1
    return progs


def write_sources(root, progs, expect):
    """expect[i] in {error, log, nolog}: programs the model says do not compile become one binary each"""
    gen = os.path.join(root, "src", "gen")
    bins = os.path.join(root, "src", "bin")
    pos = [p for p in progs if expect[p["id"]] != "error"]
    neg = [p for p in progs if expect[p["id"]] == "error"]
    for p in pos:
        open(os.path.join(gen, f"p{p['id']}.rs"), "w").write(p["src"])
    main = ["#![allow(dead_code, unused_imports)]"]
    for p in pos:
        main.append(f'#[path = "../gen/p{p["id"]}.rs"]\nmod p{p["id"]};')
    main.append("fn main() {\n    macrocorpus::install();\n    let rt = tokio::runtime::Builder::new_current_thread().enable_time().build().unwrap();\n    rt.block_on(async {")
    for p in pos:
        main.append(f'        println!("{{}}", p{p["id"]}::run().await);')
    main.append("    });\n}")
    open(os.path.join(bins, "pos.rs"), "w").write("\n".join(main) + "\n")
    for p in neg:
        # without the scenario: the only thing that can fail is the macro or the code it generated
        open(os.path.join(bins, f"neg_{p['id']}.rs"), "w").write(p["src"].split("pub async fn run()")[0] + "\nfn main() {}\n")
    return pos, neg
