"""Extra per-property engines (tables differential, stress, macro corpus, feature matrix)."""
import json
import os


def build_feat(ctx, features=("deadlock", "metrics", "testutils")):
    """harness build with optional rsactor features, in its own target dir"""
    H = ctx["HARNESS"]
    ctx["build_harness"]([])  # writes Cargo.toml for the tree under test (and builds the default flavour)
    env = dict(os.environ, CARGO_NET_OFFLINE="true", CARGO_TARGET_DIR=os.path.join(H, "target-feat"))
    rc, out, err = ctx["sh"](["cargo", "build", "--release", "--offline", "--features", ",".join(features)], cwd=H, timeout=3000, env=env)
    if rc != 0:
        raise ctx["Infra"]("cannot build the feature harness against the tree under test:\n" + err[-3000:])
    return os.path.join(H, "target-feat", "release")


def tables(prop, tier, seed, ctx):
    """differential test of the translated pure functions + independent oracles on the real functions"""
    bindir = build_feat(ctx)
    rep = os.path.join(ctx["BUILD"], f"tables_{prop}.json")
    rc, out, err = ctx["sh"]([os.path.join(bindir, "tables"), "--driver", ctx["DRIVER"], "--seed", str(seed), "--report", rep], timeout=1800)
    if rc not in (0, 3):
        raise ctx["Infra"](f"tables failed rc={rc}:\n" + err[-2000:])
    r = json.load(open(rep))
    res = {"evidence": {"cases": r["cases"], "by_kind": r["by_kind"], "oracle_checks": r["oracle_checks"],
                        "exhaustive_graphs": r["exhaustive_graphs"], "mismatches": len(r["mismatches"]),
                        "oracle_failures": len(r["oracle_failures"]), "samples": r["samples"]},
           "violations": [], "broken": []}
    mine = [f for f in r["oracle_failures"] if prop in f["what"]]
    for f in mine[:1]:
        res["violations"].append(("oracle-failure", f"the real function violates: {f['what']} on input `{f['input']}`: got `{f['real']}`, expected `{f['expected']}`",
                                  {"failing_input": f, "all": mine[:20]}))
    kinds = {"C05": ["ar"], "C09": ["cfg", "spawnguard"], "C10": ["retry"], "C14": ["hp", "fcp"], "C15": ["hp", "fcp"], "C20": ["metrics"]}.get(prop, [])
    mm = [m for m in r["mismatches"] if m["input"].split()[1] in kinds]
    if mm:
        res["broken"].append(f"translator differential: the function translated from the source and the real function disagree on {len(mm)} input(s), first: {mm[0]}")
    return res


STRESS_SCENARIOS = {
    # property -> (quick scenarios, quick seconds for the hammer, thorough scenarios, thorough seconds)
    "C01": (["late"], 0, ["late", "hammer"], 60),
    "C02": ([], 0, ["hammer"], 60),
    "C03": (["askjoin", "hammer"], 6, ["askjoin", "hammer"], 180),
    "C06": ([], 0, ["hammer"], 60),
    "C08": (["idlewin"], 0, ["idlewin"], 0),
    "C10": (["late"], 0, ["late", "blocking"], 0),
    "C11": (["ids"], 0, ["ids"], 0),
    "C17": (["blocking", "late"], 0, ["blocking", "late", "hammer"], 60),
}


def stress(prop, tier, seed, ctx):
    """real-time / multi-thread scenarios under property oracles (monitor-only; never a step-by-step comparison)"""
    q, qs, t, ts = STRESS_SCENARIOS.get(prop, ([], 0, [], 0))
    scen, secs = (t, ts) if tier == "thorough" else (q, qs)
    res = {"evidence": {}, "violations": [], "broken": []}
    if not scen:
        return res
    ctx["build_harness"]([])
    rep = os.path.join(ctx["BUILD"], f"stress_{prop}.json")
    rc, out, err = ctx["sh"]([os.path.join(ctx["HARNESS"], "target", "release", "stress"), "--scenario", ",".join(scen),
                              "--seconds", str(max(secs, 1)), "--seed", str(seed), "--report", rep], timeout=3600)
    if rc not in (0, 3):
        raise ctx["Infra"](f"stress failed rc={rc}:\n" + err[-2000:])
    r = json.load(open(rep))
    res["evidence"] = {"scenarios": r["scenarios"], "stats": r["stats"], "violations_all_properties": len(r["violations"])}
    mine = [v for v in r["violations"] if prop in v["props"].split()]
    for v in mine[:1]:
        res["violations"].append(("stress-oracle-failure", f"real code, scenario run: {v['what']}",
                                  {"failing_input": v, "all": mine[:20], "scenarios": scen, "seed": seed}))
    return res


NET_CLASSES = [
    ("although no chain", {"C15", "C12"}),
    ("was due but did not happen", {"C14"}),
    ("wait-for graph:", {"C15", "C14", "C12"}),
    ("poisoned", {"C12", "C15"}),
    ("never returned", {"C14", "C12", "C03"}),
    ("another request's reply", {"C03", "C12"}),
    ("names the cycle", {"C14"}),
]


def netcorr(prop, tier, seed, ctx):
    """multi-actor histories of the real crate (deadlock-detection on) replayed on the Lean protocol model"""
    bindir = build_feat(ctx)
    rep = os.path.join(ctx["BUILD"], f"netcorr_{prop}.json")
    n = 2500 if tier == "thorough" else 250
    rc, out, err = ctx["sh"]([os.path.join(bindir, "netcorr"), "--driver", ctx["DRIVER"], "--seed", str(seed), "--n", str(n),
                              "--corpus", os.path.join(ctx["ROOT"], "corpus"), "--report", rep], timeout=3600)
    if rc not in (0, 3):
        raise ctx["Infra"](f"netcorr failed rc={rc}:\n" + err[-2000:])
    r = json.load(open(rep))
    res = {"evidence": {"histories": r["histories"], "summary": r["summary"], "fails": r["fails"], "deadlock_panics_observed": r["deadlocks"],
                        "asks_timed_out": r["timeouts"], "handler_panics": r["panics"], "events": r["events"], "sample": r["sample"]},
           "violations": [], "broken": []}
    if not r["summary"]:
        res["broken"].append("netreplay produced no summary (driver failure)")
    if r.get("diffs"):
        res["broken"].append(f"protocol correspondence: the real histories differ from the model with the extracted switches on {len(r['diffs'])} history(ies), first: {r['diffs'][0]}")
    for f in r["failing"]:
        msg = f["fail"]
        props = set()
        for key, ps in NET_CLASSES:
            if key in msg:
                props |= ps
        if "does not allow" in msg or not props:
            res["broken"].append("protocol correspondence: " + msg)
            props |= {"C12", "C14", "C15"}
        if prop in props:
            res["violations"].append(("history-failure", "real history disagrees with the wait-for protocol: " + msg,
                                      {"failing_input": {"script": f["script"], "trace": f["trace"]}, "seed": seed}))
            break
    return res


EXTRA = {"tables": tables, "stress": stress, "netcorr": netcorr}
