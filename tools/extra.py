"""Extra per-property engines (tables differential, stress, macro corpus, feature matrix)."""
import json
import os


def build_feat(ctx, features=("deadlock", "metrics", "testutils", "rstracing")):
    """harness build with optional rsactor features, in its own target dir"""
    H = ctx["HARNESS"]
    ctx["build_harness"]([])  # writes Cargo.toml for the tree under test (and builds the default flavour)
    env = dict(os.environ, CARGO_NET_OFFLINE="true", CARGO_TARGET_DIR=os.path.join(H, "target-feat"))
    cmd = ["cargo", "build", "--release", "--offline"] + (["--features", ",".join(features)] if features else [])
    rc, out, err = ctx["sh"](cmd, cwd=H, timeout=3000, env=env)
    if rc != 0:
        raise ctx["Infra"]("cannot build the feature harness against the tree under test:\n" + err[-3000:])
    return os.path.join(H, "target-feat", "release")


def tables(prop, tier, seed, ctx):
    """differential test of the translated pure functions + independent oracles on the real functions"""
    bindir = build_feat(ctx)
    rep = os.path.join(ctx["BUILD"], f"tables_{prop}.json")
    rc, out, err = ctx["sh"]([os.path.join(bindir, "tables"), "--driver", ctx["DRIVER"], "--seed", str(seed), "--report", rep], timeout=1800)
    if rc not in (0, 3):
        raise ctx["Infra"](f"tables failed rc={rc}:\n" + err[-2000:])
    r = json.load(open(rep))
    res = {"evidence": {"cases": r["cases"], "by_kind": r["by_kind"], "oracle_checks": r["oracle_checks"],
                        "exhaustive_graphs": r["exhaustive_graphs"], "mismatches": len(r["mismatches"]),
                        "oracle_failures": len(r["oracle_failures"]), "samples": r["samples"]},
           "violations": [], "broken": []}
    mine = [f for f in r["oracle_failures"] if prop in f["what"]]
    for f in mine[:1]:
        res["violations"].append(("oracle-failure", f"the real function violates: {f['what']} on input `{f['input']}`: got `{f['real']}`, expected `{f['expected']}`",
                                  {"failing_input": f, "all": mine[:20]}))
    kinds = {"C05": ["ar"], "C09": ["cfg", "spawnguard"], "C10": ["retry"], "C14": ["hp", "fcp"], "C15": ["hp", "fcp"], "C20": ["metrics"]}.get(prop, [])
    mm = [m for m in r["mismatches"] if m["input"].split()[1] in kinds]
    if mm:
        res["broken"].append(f"translator differential: the function translated from the source and the real function disagree on {len(mm)} input(s), first: {mm[0]}")
    return res


STRESS_SCENARIOS = {
    # property -> (quick scenarios, quick seconds for the hammer, thorough scenarios, thorough seconds)
    # every scenario is attached to every property one of its oracles can decide (tags in harness/src/bin/stress.rs)
    "C01": (["late", "blocking", "cancel", "backlog", "refs", "selfchain", "stale"], 0, ["late", "blocking", "cancel", "backlog", "refs", "selfchain", "hammer", "mix", "stale"], 60),
    "C02": (["blocking", "cancel", "backlog", "stale"], 0, ["blocking", "cancel", "backlog", "hammer", "mix", "stale"], 60),
    "C03": (["askjoin", "hammer", "idlewin", "blocking", "cancel", "backlog", "replyclose", "mix", "afterend", "queuedask", "stale"], 6, ["askjoin", "hammer", "idlewin", "blocking", "cancel", "backlog", "replyclose", "mix", "afterend", "queuedask", "stale"], 180),
    "C04": (["backlog", "refs", "hookpanic", "idlewin"], 0, ["backlog", "refs", "hookpanic", "hammer", "mix", "idlewin"], 60),
    "C05": (["cancel", "backlog", "idlewin", "refs", "stale"], 0, ["cancel", "backlog", "idlewin", "refs", "hammer", "mix", "stale"], 60),
    "C06": (["refs", "queuedask", "killdrop"], 0, ["refs", "hammer", "mix", "queuedask", "killdrop"], 60),
    "C07": (["refs", "cancel", "backlog", "blocking", "selfchain", "stale"], 0, ["refs", "cancel", "backlog", "blocking", "selfchain", "hammer", "mix", "stale"], 60),
    "C08": (["idlewin", "backlog", "cancel"], 0, ["idlewin", "backlog", "cancel"], 0),
    "C09": (["blocking", "cancel", "backlog", "late", "stale"], 0, ["blocking", "cancel", "backlog", "late", "stale"], 0),
    "C10": (["late", "blocking", "lazyfut", "stale"], 0, ["late", "blocking", "lazyfut", "stale"], 0),
    "C11": (["ids", "refs", "selfchain", "afterend", "queuedask"], 0, ["ids", "refs", "selfchain", "afterend", "queuedask"], 0),
    "C12": (["ids", "hookpanic", "askjoin", "queuedask", "backlog", "afterend"], 0, ["ids", "hookpanic", "askjoin", "queuedask", "backlog", "afterend"], 0),
    "C13": (["blocking", "replyclose", "mix", "stale", "dlrace"], 4, ["blocking", "replyclose", "mix", "stale", "dlrace"], 60),
    "C16": (["lazyfut", "blocking", "erasedblk", "refs", "hookpanic"], 0, ["lazyfut", "blocking", "erasedblk", "refs", "hookpanic"], 0),
    "C17": (["blocking", "late", "erasedblk"], 0, ["blocking", "late", "erasedblk", "hammer"], 60),
    "C19": (["blocking", "askjoin", "hookpanic"], 0, ["blocking", "askjoin", "hookpanic"], 0),
}


STRESS_FEAT = {"C17": ["blocking"], "C14": ["cyclerace", "slowlog"], "C20": ["metabort"]}


def stress(prop, tier, seed, ctx):
    """real-time / multi-thread scenarios under property oracles (monitor-only; never a step-by-step comparison)"""
    q, qs, t, ts = STRESS_SCENARIOS.get(prop, ([], 0, [], 0))
    scen, secs = (t, ts) if tier == "thorough" else (q, qs)
    res = {"evidence": {}, "violations": [], "broken": []}
    if not scen and prop not in STRESS_FEAT:
        return res
    if not scen:
        scen = ["cyclerace"]   # a no-op on the default build; keeps the report shape uniform
    ctx["build_harness"]([])
    rep = os.path.join(ctx["BUILD"], f"stress_{prop}.json")
    rc, out, err = ctx["sh"]([os.path.join(ctx["HARNESS"], "target", "release", "stress"), "--scenario", ",".join(scen),
                              "--seconds", str(max(secs, 1)), "--seed", str(seed), "--report", rep], timeout=3600)
    if rc not in (0, 3):
        raise ctx["Infra"](f"stress failed rc={rc}:\n" + err[-2000:])
    r = json.load(open(rep))
    res["evidence"] = {"scenarios": r["scenarios"], "stats": r["stats"], "violations_all_properties": len(r["violations"])}
    mine = [v for v in r["violations"] if prop in v["props"].split()]
    # scenarios whose subject can be altered by an optional feature run a second time on the all-features build
    if prop in STRESS_FEAT and not mine:
        bindir = build_feat(ctx)
        rep2 = os.path.join(ctx["BUILD"], f"stress_{prop}_allfeatures.json")
        rc, out, err = ctx["sh"]([os.path.join(bindir, "stress"), "--scenario", ",".join(STRESS_FEAT[prop]),
                                  "--seconds", "60" if tier == "thorough" else "1", "--seed", str(seed), "--report", rep2], timeout=3600)
        if rc not in (0, 3):
            raise ctx["Infra"](f"stress (all-features build) failed rc={rc}:\n" + err[-2000:])
        r2 = json.load(open(rep2))
        res["evidence"]["all_features_build"] = {"scenarios": r2["scenarios"], "stats": r2["stats"]}
        mine = [dict(v, what="[build with all optional features] " + v["what"]) for v in r2["violations"] if prop in v["props"].split()]
    for v in mine[:1]:
        res["violations"].append(("stress-oracle-failure", f"real code, scenario run: {v['what']}",
                                  {"failing_input": v, "all": mine[:20], "scenarios": scen, "seed": seed}))
    return res


NET_CLASSES = [
    ("although no chain", {"C15", "C12"}),
    ("although every ask has finished", {"C15", "C12"}),
    ("was due but did not happen", {"C14"}),
    ("wait-for graph:", {"C15", "C14", "C12"}),
    ("poisoned", {"C12", "C15"}),
    ("never returned", {"C14", "C12", "C03"}),
    ("another request's reply", {"C03", "C12"}),
    ("names the cycle", {"C14"}),
    ("before its", {"C10", "C14"}),
    ("handled first", {"C02"}),
    ("before the actor's graceful on_stop began", {"C01", "C02"}),
    ("it does not fail with a panic", {"C09", "C15"}),
    ("never was", {"C02", "C01"}),
]


def netcorr(prop, tier, seed, ctx):
    """multi-actor histories of the real crate (deadlock-detection on) replayed on the Lean protocol model"""
    bindir = build_feat(ctx)
    rep = os.path.join(ctx["BUILD"], f"netcorr_{prop}.json")
    n = 2500 if tier == "thorough" else 250
    rc, out, err = ctx["sh"]([os.path.join(bindir, "netcorr"), "--driver", ctx["DRIVER"], "--seed", str(seed), "--n", str(n), "--joins", str(n),
                              "--corpus", os.path.join(ctx["ROOT"], "corpus"), "--report", rep], timeout=3600)
    if rc not in (0, 3):
        raise ctx["Infra"](f"netcorr failed rc={rc}:\n" + err[-2000:])
    r = json.load(open(rep))
    res = {"evidence": {"histories": r["histories"], "oracle_only_histories_with_concurrent_asks": r.get("oracle_only_histories_with_concurrent_asks", 0),
                        "join_steps": r.get("join_steps", 0), "summary": r["summary"], "fails": r["fails"], "deadlock_panics_observed": r["deadlocks"],
                        "asks_timed_out": r["timeouts"], "handler_panics": r["panics"], "events": r["events"], "sample": r["sample"]},
           "violations": [], "broken": []}
    if not r["summary"]:
        res["broken"].append("netreplay produced no summary (driver failure)")
    if r.get("diffs"):
        res["broken"].append(f"protocol correspondence: the real histories differ from the model with the extracted switches on {len(r['diffs'])} history(ies), first: {r['diffs'][0]}")
    for f in r["failing"]:
        msg = f["fail"]
        props = set()
        for key, ps in NET_CLASSES:
            if key in msg:
                props |= ps
        if "does not allow" in msg or not props:
            res["broken"].append("protocol correspondence: " + msg)
            props |= {"C12", "C14", "C15"}
        if prop in props:
            res["violations"].append(("history-failure", "real history disagrees with the wait-for protocol: " + msg,
                                      {"failing_input": {"script": f["script"], "trace": f["trace"]}, "seed": seed}))
            break
    return res


ALL_FEATURES = ["rstracing", "metrics", "testutils", "deadlock"]   # harness names of tracing, metrics, test-utils, deadlock-detection
FEATCORR = {
    # property -> (families, quick n, thorough n, quick feature sets, compare builds?)
    "C18": (["mixed", "shutdown", "burst", "timeouts", "handles", "idle"], 240, 1200, True),
    "C20": (["mixed", "shutdown", "burst", "idle", "handles", "streak"], 300, 3000, False),
}


def _first_trace_diff(a_path, b_path):
    """first trace (name, lines a, lines b) on which two trace files differ"""
    def split(path):
        out, cur, name = [], [], None
        for l in open(path):
            l = l.rstrip("\n")
            if l.startswith("trace "):
                name, cur = l, []
            elif l == "endtrace":
                out.append((name, cur))
            else:
                cur.append(l)
        return out
    A, B = split(a_path), split(b_path)
    for (na, la), (nb, lb) in zip(A, B):
        if na != nb or la != lb:
            k = next((i for i, (x, y) in enumerate(zip(la, lb)) if x != y), min(len(la), len(lb)))
            return {"trace": na, "other_trace": nb, "first_differing_line": k, "default_build": la[max(0, k - 12):k + 6], "feature_build": lb[max(0, k - 12):k + 6],
                    "script": [x[2:] for x in la if x.startswith("> ") or x.startswith("# ")]}
    if len(A) != len(B):
        return {"trace": "count", "default_build": [str(len(A))], "feature_build": [str(len(B))]}
    return None


def _net_compare(ref_path, feat_path):
    """multi-actor programs: default build vs a feature build.  Programs in which the detecting build saw a
    justified deadlock are not compared (they contain an ask cycle); an unjustified deadlock report is itself a difference."""
    def split(path):
        out, cur, name, verdict = {}, [], None, None
        order = []
        for l in open(path):
            l = l.rstrip("\n")
            if l.startswith("trace "):
                name, cur, verdict = l, [], None
            elif l.startswith("#verdict "):
                verdict = l[len("#verdict "):]
            elif l == "endtrace":
                out[name] = (verdict, cur)
                order.append(name)
            else:
                cur.append(l)
        return out, order
    A, order = split(ref_path)
    B, _ = split(feat_path)
    stats = {"compared": 0, "skipped_justified_deadlock": 0}
    for name in order:
        va, la = A[name]
        if name not in B:
            return {"trace": name, "default_build": ["present"], "feature_build": ["missing"]}, stats
        vb, lb = B[name]
        script = [x[2:] for x in la if x.startswith("# ")]
        if vb and vb.startswith("violation"):
            return {"trace": name, "what": vb, "script": script, "feature_build": [x for x in lb if not x.startswith("# ")][-40:]}, stats
        if vb == "justified-deadlock":
            stats["skipped_justified_deadlock"] += 1
            continue
        stats["compared"] += 1
        if la != lb:
            k = next((i for i, (x, y) in enumerate(zip(la, lb)) if x != y), min(len(la), len(lb)))
            return {"trace": name, "first_differing_line": k, "script": script, "default_build": la[max(0, k - 12):k + 6], "feature_build": lb[max(0, k - 12):k + 6]}, stats
    return None, stats


def featcorr(prop, tier, seed, ctx):
    """the same seeded scripts on harness builds with different rsactor feature sets: every build against the
    one model (step by step), the builds' raw traces against each other (byte for byte), acyclic multi-actor
    programs with and without deadlock-detection; in metrics builds the metrics oracle runs at every quiescent point"""
    import itertools
    fams, nq, nt, compare = FEATCORR[prop]
    n = nt if tier == "thorough" else nq
    H, B = ctx["HARNESS"], ctx["BUILD"]
    res = {"evidence": {"feature_sets": [], "scripts_per_set": n, "families": fams}, "violations": [], "broken": []}
    if prop == "C20":
        sets = [ALL_FEATURES] if tier != "thorough" else [ALL_FEATURES, ["metrics"]]
    elif tier == "thorough":
        sets = [list(c) for k in range(1, 5) for c in itertools.combinations(ALL_FEATURES, k)]
        sets.sort(key=lambda s: s != ALL_FEATURES)
    else:
        sets = [ALL_FEATURES]
    # reference: default features
    ctx["build_harness"]([])
    ref_bin = os.path.join(H, "target", "release")
    def run(bindir, tag):
        rep = os.path.join(B, f"featcorr_{prop}_{tag}.json")
        tr = os.path.join(B, f"feattraces_{prop}_{tag}.txt")
        rc, out, err = ctx["sh"]([os.path.join(bindir, "corr"), "--driver", ctx["DRIVER"], "--seed", str(seed), "--n", str(n), "--family", ",".join(fams),
                                  "--corpus", os.path.join(ctx["ROOT"], "corpus"), "--report", rep, "--traces", tr], timeout=3000)
        if rc not in (0, 3):
            raise ctx["Infra"](f"corr ({tag}) failed rc={rc}:\n" + err[-2000:])
        nd = os.path.join(B, f"netdump_{prop}_{tag}.txt")
        if compare:
            rc, out, err = ctx["sh"]([os.path.join(bindir, "netdump"), "--seed", str(seed), "--n", str(max(40, n // 4)), "--general", str(max(80, n // 2)), "--out", nd], timeout=3000)
            if rc != 0:
                raise ctx["Infra"](f"netdump ({tag}) failed rc={rc}:\n" + err[-2000:])
        return json.load(open(rep)), tr, nd
    ref = run(ref_bin, "default") if compare else None
    for fs in sets:
        tag = "+".join(fs)
        bindir = build_feat(ctx, tuple(fs))
        r, tr, nd = run(bindir, tag)
        ev = {"features": fs, "scripts": r["scripts"], "macro_steps": r["macro_steps"], "divergences_from_model": len(r["divergences"]),
              "oracle_failed_scripts": r.get("oracle_failed_scripts", 0), "metrics_oracle_active": r.get("metrics_oracle", False)}
        if r["divergences"]:
            d = r["divergences"][0]
            res["broken"].append(f"correspondence (features {tag}): model and implementation diverge on {len(r['divergences'])} script(s); first: {d['script']} at step {d['step']} ({d['op']})")
            if prop == "C18" and ref and not ref[0]["divergences"]:
                pass  # the trace comparison below produces the failing input
        for of in r.get("oracle_failures", [])[:1]:
            if prop == "C20" or True:
                res["violations"].append(("oracle-failure", f"real crate built with features {tag}: {of['what'][0]}",
                                          {"failing_input": of, "features": fs, "seed": seed}))
        if compare:
            d = _first_trace_diff(ref[1], tr)
            ev["traces_equal_to_default_build"] = d is None
            if d is not None:
                res["violations"].append(("feature-trace-difference", f"the build with features {tag} and the default build behave differently on script {d['trace']}",
                                          {"failing_input": d, "features": fs, "seed": seed}))
            d2, nst = _net_compare(ref[2], nd)
            ev["multi_actor_programs_without_ask_cycle_equal"] = d2 is None
            ev["multi_actor_programs"] = nst
            if d2 is not None:
                res["violations"].append(("feature-trace-difference", f"multi-actor program without ask cycle: the build with features {tag} and the default build behave differently on {d2['trace']}",
                                          {"failing_input": d2, "features": fs, "seed": seed}))
        res["evidence"]["feature_sets"].append(ev)
    # leave the shared feature build in its usual flavour for the other engines
    return res


def macrocorpus(prop, tier, seed, ctx):
    """C19: a generated corpus of actor programs compiled against the real macros; what each program must do
    (compile error / logs Err after tell / logs nothing) is asked of the Lean model, program by program"""
    import re
    import macro_gen
    root = os.path.join(ctx["ROOT"], "macrocorpus")
    res = {"evidence": {}, "violations": [], "broken": []}
    text = open(os.path.join(root, "Cargo.toml.in")).read().replace("@REPO@", ctx["REPO"])
    cur = open(os.path.join(root, "Cargo.toml")).read() if os.path.exists(os.path.join(root, "Cargo.toml")) else None
    if cur != text:
        open(os.path.join(root, "Cargo.toml"), "w").write(text)
    lock_src = os.path.join(ctx["REPO"], "Cargo.lock")
    if os.path.exists(lock_src) and not os.path.exists(os.path.join(root, "Cargo.lock")):
        open(os.path.join(root, "Cargo.lock"), "w").write(open(lock_src).read())
    progs = macro_gen.generate(root, seed, tier == "thorough")
    rc, out, err = ctx["sh"]([ctx["DRIVER"]], input_text="".join(p["model_line"] + "\n" for p in progs), timeout=600)
    exp = [l.strip() for l in out.splitlines() if l.strip()]
    if rc != 0 or len(exp) != len(progs) or any(e not in ("error", "log", "nolog") for e in exp):
        raise ctx["Infra"](f"driver macro mode failed rc={rc}: {out[-500:]} {err[-500:]}")
    expect = {p["id"]: e for p, e in zip(progs, exp)}
    pos, neg = macro_gen.write_sources(root, progs, expect)
    env = dict(os.environ, CARGO_NET_OFFLINE="true")
    # library + dependencies first: a failure here is infrastructure (or a macro crate that no longer builds)
    rc, out, err = ctx["sh"](["cargo", "build", "--offline", "--lib"], cwd=root, timeout=3000, env=env)
    if rc != 0:
        raise ctx["Infra"]("cannot build the macro corpus library against the tree under test:\n" + err[-3000:])
    rc, out, err = ctx["sh"](["cargo", "build", "--offline", "--bins", "--keep-going", "--message-format=short"], cwd=root, timeout=6000, env=env)
    failed_bins = set(re.findall(r'could not compile `macrocorpus` \(bin "([a-z0-9_]+)"\)', err))
    def describe(p):
        return {"program": p["id"], "attribute": p["attr_text"], "return_type": p["ret_text"], "actor": p["actor"], "message": p["msg"], "model": expect[p["id"]], "source": p["src"]}
    counts = {"programs": len(progs), "must_compile": len(pos), "must_not_compile": len(neg), "by_expectation": {k: exp.count(k) for k in ("error", "log", "nolog")}}
    # programs that must not compile
    wrongly_ok = [p for p in neg if f"neg_{p['id']}" not in failed_bins]
    for p in wrongly_ok[:1]:
        res["violations"].append(("macro-corpus-failure", f"program {p['id']} ({p['attr_text']} on `-> {p['ret_text']}`) compiles although the decision table makes it a compile error",
                                  {"failing_input": describe(p), "all": [describe(q) for q in wrongly_ok[:10]]}))
    # programs that must compile
    if "pos" in failed_bins:
        culprits = sorted(set(int(x) for x in re.findall(r"src/bin/\.\./gen/p(\d+)\.rs|src/gen/p(\d+)\.rs", err) for x in x if x))
        bad = [p for p in pos if p["id"] in culprits]
        first = bad[0] if bad else None
        msg = [l for l in err.splitlines() if "error" in l][:6]
        res["violations"].append(("macro-corpus-failure", (f"program {first['id']} ({first['attr_text']} on `-> {first['ret_text']}`)" if first else "a program") + " does not compile although the decision table says it must",
                                  {"failing_input": describe(first) if first else None, "all": [describe(q) for q in bad[:10]], "rustc": msg}))
        counts["ran"] = 0
    else:
        rc, out, err2 = ctx["sh"]([os.path.join(root, "target", "debug", "pos")], timeout=1200)
        if rc != 0:
            raise ctx["Infra"](f"macro corpus binary failed rc={rc}: {err2[-1500:]}")
        got = {}
        for l in out.splitlines():
            m = re.match(r"p(\d+) (.*)", l)
            if m:
                got[int(m.group(1))] = m.group(2)
        counts["ran"] = len(got)
        bad = []
        for p in pos:
            e = expect[p["id"]]
            logs = 1 if e == "log" else 0
            want = f"start_ok=true ask_ok={p['ask_ok']} ask_err={p['ask_err']} logs_ask=0 logs_tell_ok=0 logs_tell_err={logs} calls=4 completed=true parked=true killed=true logs_tell_err_kill_pending={logs} logs_ask_zero_timeout=0 calls_after_zero=5"
            g = got.get(p["id"], "<no output>")
            ok = g.startswith(want + " text=")
            if ok and logs == 1 and p["err_text"] and p["err_text"] not in g.split(" text=", 1)[1]:
                ok = False
            if not ok:
                bad.append((p, want, g))
        for (p, want, g) in bad[:1]:
            res["violations"].append(("macro-corpus-failure", f"program {p['id']} ({p['attr_text']} on `-> {p['ret_text']}`, {p['actor']} actor, {p['msg']} message) behaves differently from the decision table: expected `{want}`, observed `{g}`",
                                      {"failing_input": describe(p), "expected": want, "observed": g, "all": [{"program": q["id"], "attribute": q["attr_text"], "return_type": q["ret_text"], "expected": w, "observed": o} for (q, w, o) in bad[:10]]}))
    res["evidence"] = counts
    return res


EXTRA = {"macrocorpus": macrocorpus, "tables": tables, "stress": stress, "netcorr": netcorr, "featcorr": featcorr}
