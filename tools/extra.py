"""Extra per-property engines (tables differential, stress, macro corpus, feature matrix)."""
EXTRA = {}
