//! A small translator from a restricted subset of Rust (syn AST) to Lean 4 source text.
//! Anything outside the subset is an `Err(reason)`; callers turn that into an
//! `unrecognised` marker that makes the dependent Lean theorems fail to elaborate
//! (a broken tie), never a silent default.

use quote::ToTokens;
use std::collections::HashMap;
use syn::{BinOp, Expr, Lit, Pat, Stmt, UnOp};

pub type R<T> = Result<T, String>;

#[derive(Clone, Debug)]
pub struct EnumInfo {
    /// variant name -> field names in declaration order (tuple fields are "0","1",…)
    pub variants: Vec<(String, Vec<String>)>,
    /// translate as a field-less "kind" enum (payloads dropped)
    pub kind_view: bool,
}

#[derive(Default, Clone)]
pub struct Ctx {
    pub enums: HashMap<String, EnumInfo>,
    /// methods of the impl being translated (called as `self.m()`)
    pub self_methods: Vec<String>,
    /// `x.id` is translated as `x` (identities are modelled by their id)
    pub drop_id_field: bool,
    /// a tuple pattern/value `(a, _)` stands for `a` (graph values carrying a token)
    pub tuple_first: bool,
    /// name used for `self`
    pub self_name: String,
    /// atomics: `self.f.load(..)` -> `self.f`
    pub atomic_self_fields: bool,
    /// struct literals: only these fields are kept
    pub struct_fields_kept: Vec<String>,
}

const LEAN_KEYWORDS: &[&str] = &[
    "from", "at", "end", "then", "else", "if", "do", "fun", "match", "with", "in", "have", "show",
    "let", "where", "by", "open", "local", "instance", "class", "structure", "def", "theorem",
    "example", "namespace", "section", "variable", "universe", "import", "mutual", "return",
    "for", "macro", "syntax", "notation", "deriving", "using", "calc", "this", "Type", "Prop",
    "Sort", "set_option", "attribute", "private", "protected", "noncomputable", "partial",
    "unsafe", "abbrev", "inductive", "axiom", "opaque", "extends", "exists", "forall",
];

pub fn ident(s: &str) -> String {
    if LEAN_KEYWORDS.contains(&s) {
        format!("{s}_")
    } else {
        s.to_string()
    }
}

fn path_segs(p: &syn::Path) -> Vec<String> {
    p.segments.iter().map(|s| s.ident.to_string()).collect()
}

pub fn tok<T: ToTokens>(t: &T) -> String {
    t.to_token_stream().to_string()
}

impl Ctx {
    fn variant_fields(&self, segs: &[String]) -> Option<(&EnumInfo, &Vec<String>, String)> {
        if segs.len() < 2 {
            return None;
        }
        let en = &segs[segs.len() - 2];
        let vn = &segs[segs.len() - 1];
        let info = self.enums.get(en)?;
        let (_, fields) = info.variants.iter().find(|(n, _)| n == vn)?;
        Some((info, fields, vn.clone()))
    }

    // ---------------------------------------------------------------- patterns
    /// Returns the flat alternatives of a (possibly nested-or) pattern.
    pub fn pat(&self, p: &Pat) -> R<Vec<String>> {
        match p {
            Pat::Wild(_) => Ok(vec!["_".into()]),
            Pat::Rest(_) => Err("rest pattern outside struct".into()),
            Pat::Paren(pp) => self.pat(&pp.pat),
            Pat::Reference(r) => self.pat(&r.pat),
            Pat::Lit(l) => match &l.lit {
                Lit::Bool(b) => Ok(vec![if b.value { "true".into() } else { "false".into() }]),
                Lit::Int(i) => Ok(vec![i.base10_digits().to_string()]),
                other => Err(format!("literal pattern {}", tok(other))),
            },
            Pat::Ident(pi) => {
                let n = pi.ident.to_string();
                if pi.subpat.is_some() {
                    return Err("@-pattern".into());
                }
                if n == "None" {
                    Ok(vec!["none".into()])
                } else if n.chars().next().map(|c| c.is_uppercase()).unwrap_or(false) {
                    Err(format!("bare constructor pattern {n}"))
                } else {
                    Ok(vec![ident(&n)])
                }
            }
            Pat::Path(pp) => {
                let segs = path_segs(&pp.path);
                if segs == ["None"] {
                    return Ok(vec!["none".into()]);
                }
                match self.variant_fields(&segs) {
                    Some((info, fields, vn)) => {
                        if info.kind_view || fields.is_empty() {
                            Ok(vec![format!(".{vn}")])
                        } else {
                            Err(format!("unit pattern for variant with fields {vn}"))
                        }
                    }
                    None => Err(format!("unknown path pattern {}", segs.join("::"))),
                }
            }
            Pat::TupleStruct(ts) => {
                let segs = path_segs(&ts.path);
                let head = match segs.last().map(|s| s.as_str()) {
                    Some("Some") => "some",
                    Some("Ok") => ".ok",
                    Some("Err") => ".error",
                    _ => return Err(format!("tuple-struct pattern {}", segs.join("::"))),
                };
                if ts.elems.len() != 1 {
                    return Err("tuple-struct arity".into());
                }
                let inner = self.pat(&ts.elems[0])?;
                Ok(inner.into_iter().map(|i| format!("({head} {i})")).collect())
            }
            Pat::Tuple(t) => {
                if self.tuple_first {
                    if t.elems.len() == 2 && matches!(t.elems[1], Pat::Wild(_)) {
                        return self.pat(&t.elems[0]);
                    }
                    return Err("tuple pattern other than (x, _)".into());
                }
                let mut alts: Vec<Vec<String>> = vec![vec![]];
                for e in &t.elems {
                    let sub = self.pat(e)?;
                    let mut next = vec![];
                    for a in &alts {
                        for s in &sub {
                            let mut a2 = a.clone();
                            a2.push(s.clone());
                            next.push(a2);
                        }
                    }
                    alts = next;
                }
                Ok(alts.into_iter().map(|a| format!("({})", a.join(", "))).collect())
            }
            Pat::Or(o) => {
                let mut out = vec![];
                for c in &o.cases {
                    out.extend(self.pat(c)?);
                }
                Ok(out)
            }
            Pat::Struct(ps) => {
                let segs = path_segs(&ps.path);
                let (info, fields, vn) = self
                    .variant_fields(&segs)
                    .ok_or_else(|| format!("unknown struct pattern {}", segs.join("::")))?;
                if info.kind_view {
                    for f in &ps.fields {
                        let sub = self.pat(&f.pat)?;
                        if sub != vec!["_".to_string()] {
                            return Err(format!("field pattern on kind-view enum variant {vn}"));
                        }
                    }
                    return Ok(vec![format!(".{vn}")]);
                }
                let mut per_field: Vec<Vec<String>> = vec![];
                for fname in fields {
                    let mut found = None;
                    for f in &ps.fields {
                        if let syn::Member::Named(n) = &f.member {
                            if &n.to_string() == fname {
                                found = Some(&f.pat);
                            }
                        }
                    }
                    match found {
                        Some(p) => per_field.push(self.pat(p)?),
                        None => {
                            if ps.rest.is_none() {
                                return Err(format!("missing field {fname} without `..`"));
                            }
                            per_field.push(vec!["_".into()])
                        }
                    }
                }
                for f in &ps.fields {
                    if let syn::Member::Named(n) = &f.member {
                        if !fields.contains(&n.to_string()) {
                            return Err(format!("unknown field {n} in pattern"));
                        }
                    }
                }
                let mut alts: Vec<Vec<String>> = vec![vec![]];
                for sub in &per_field {
                    let mut next = vec![];
                    for a in &alts {
                        for s in sub {
                            let mut a2 = a.clone();
                            a2.push(s.clone());
                            next.push(a2);
                        }
                    }
                    alts = next;
                }
                Ok(alts
                    .into_iter()
                    .map(|a| {
                        if a.is_empty() {
                            format!(".{vn}")
                        } else {
                            format!("(.{vn} {})", a.join(" "))
                        }
                    })
                    .collect())
            }
            other => Err(format!("pattern {}", tok(other))),
        }
    }

    // ------------------------------------------------------------- expressions
    pub fn expr(&self, e: &Expr) -> R<String> {
        match e {
            Expr::Paren(p) => self.expr(&p.expr),
            Expr::Group(g) => self.expr(&g.expr),
            Expr::Reference(r) => self.expr(&r.expr),
            Expr::Lit(l) => match &l.lit {
                Lit::Bool(b) => Ok(if b.value { "true".into() } else { "false".into() }),
                Lit::Int(i) => Ok(i.base10_digits().to_string()),
                Lit::Str(s) => Ok(format!("{:?}", s.value())),
                other => Err(format!("literal {}", tok(other))),
            },
            Expr::Path(p) => {
                let segs = path_segs(&p.path);
                if segs.len() == 1 {
                    let n = &segs[0];
                    return Ok(match n.as_str() {
                        "None" => "none".into(),
                        "self" => self.self_name.clone(),
                        _ => ident(n),
                    });
                }
                let joined = segs.join("::");
                match joined.as_str() {
                    "Duration::ZERO" => return Ok("0".into()),
                    "u64::MAX" => return Ok("U64MAX".into()),
                    _ => {}
                }
                match self.variant_fields(&segs) {
                    Some((info, fields, vn)) if info.kind_view || fields.is_empty() => {
                        Ok(format!(".{vn}"))
                    }
                    _ => Err(format!("path {joined}")),
                }
            }
            Expr::Unary(u) => {
                let inner = self.expr(&u.expr)?;
                match u.op {
                    UnOp::Not(_) => Ok(format!("(!{inner})")),
                    UnOp::Deref(_) => Ok(inner),
                    _ => Err("unary op".into()),
                }
            }
            Expr::Cast(c) => self.expr(&c.expr),
            Expr::Binary(b) => {
                let l = self.expr(&b.left)?;
                let r = self.expr(&b.right)?;
                Ok(match b.op {
                    BinOp::Eq(_) => format!("({l} == {r})"),
                    BinOp::Ne(_) => format!("({l} != {r})"),
                    BinOp::Or(_) => format!("({l} || {r})"),
                    BinOp::And(_) => format!("({l} && {r})"),
                    BinOp::Lt(_) => format!("(decide ({l} < {r}))"),
                    BinOp::Le(_) => format!("(decide ({l} ≤ {r}))"),
                    BinOp::Gt(_) => format!("(decide ({l} > {r}))"),
                    BinOp::Ge(_) => format!("(decide ({l} ≥ {r}))"),
                    BinOp::Add(_) => format!("({l} + {r})"),
                    BinOp::Sub(_) => format!("({l} - {r})"),
                    BinOp::Mul(_) => format!("({l} * {r})"),
                    BinOp::Div(_) => format!("({l} / {r})"),
                    BinOp::Rem(_) => format!("({l} % {r})"),
                    _ => return Err(format!("binary op {}", tok(&b.op))),
                })
            }
            Expr::Field(f) => {
                let base = self.expr(&f.base)?;
                match &f.member {
                    syn::Member::Named(n) => {
                        let n = n.to_string();
                        if n == "id" && self.drop_id_field {
                            Ok(base)
                        } else {
                            Ok(format!("{base}.{}", ident(&n)))
                        }
                    }
                    syn::Member::Unnamed(i) => {
                        if self.tuple_first && i.index == 0 {
                            Ok(base)
                        } else {
                            Ok(format!("{base}.{}", i.index + 1))
                        }
                    }
                }
            }
            Expr::Tuple(t) => {
                if t.elems.is_empty() {
                    return Ok("()".into());
                }
                let parts: R<Vec<String>> = t.elems.iter().map(|x| self.expr(x)).collect();
                Ok(format!("({})", parts?.join(", ")))
            }
            Expr::Call(c) => {
                let f = match &*c.func {
                    Expr::Path(p) => path_segs(&p.path).join("::"),
                    other => return Err(format!("call of {}", tok(other))),
                };
                let args: R<Vec<String>> = c.args.iter().map(|a| self.expr(a)).collect();
                let args = args?;
                match (f.as_str(), args.len()) {
                    ("Some", 1) => Ok(format!("(some {})", args[0])),
                    ("Ok", 1) => Ok(format!("(.ok {})", args[0])),
                    ("Err", 1) => Ok(format!("(.error {})", args[0])),
                    ("Duration::from_nanos", 1) => Ok(args[0].clone()),
                    _ => Err(format!("call {f}/{}", args.len())),
                }
            }
            Expr::MethodCall(m) => {
                let name = m.method.to_string();
                // self.method()
                if let Expr::Path(p) = &*m.receiver {
                    if path_segs(&p.path) == ["self"]
                        && m.args.is_empty()
                        && self.self_methods.contains(&name)
                    {
                        return Ok(format!("({}.{})", self.self_name, ident(&name)));
                    }
                }
                let recv = self.expr(&m.receiver)?;
                if name == "load" && self.atomic_self_fields && m.args.len() == 1 {
                    return Ok(recv);
                }
                let args: R<Vec<String>> = m.args.iter().map(|a| self.expr(a)).collect();
                let args = args?;
                match (name.as_str(), args.len()) {
                    ("as_ref", 0) | ("clone", 0) | ("copied", 0) | ("to_string", 0)
                    | ("as_nanos", 0) | ("as_ref", _) if args.is_empty() => Ok(recv),
                    ("is_some", 0) => Ok(format!("({recv}).isSome")),
                    ("is_none", 0) => Ok(format!("({recv}).isNone")),
                    ("len", 0) => Ok(format!("({recv}).length")),
                    ("get", 1) => Ok(format!("(Graph.get? {recv} {})", args[0])),
                    ("unwrap_or", 1) => Ok(format!("(({recv}).getD {})", args[0])),
                    ("saturating_add", 1) => Ok(format!("(satAdd {recv} {})", args[0])),
                    ("saturating_sub", 1) => Ok(format!("({recv} - {})", args[0])),
                    ("wrapping_add", 1) => Ok(format!("(wrapAdd {recv} {})", args[0])),
                    ("min", 1) => Ok(format!("(Nat.min {recv} {})", args[0])),
                    ("max", 1) => Ok(format!("(Nat.max {recv} {})", args[0])),
                    ("join", 1) => Ok(recv),
                    _ => Err(format!("method .{name}/{}", args.len())),
                }
            }
            Expr::If(i) => {
                if let Expr::Let(_) = &*i.cond {
                    return Err("if-let expression".into());
                }
                let c = self.expr(&i.cond)?;
                let t = self.block_expr(&i.then_branch)?;
                let e = match &i.else_branch {
                    Some((_, e)) => self.expr(e)?,
                    None => return Err("if without else in expression position".into()),
                };
                Ok(format!("(if {c} then {t} else {e})"))
            }
            Expr::Block(b) => self.block_expr(&b.block),
            Expr::Match(m) => {
                let scrut = self.expr(&m.expr)?;
                let mut arms = String::new();
                for a in &m.arms {
                    if a.guard.is_some() {
                        return Err("match guard".into());
                    }
                    let pats = self.pat(&a.pat)?;
                    let body = self.expr(&a.body)?;
                    arms.push_str(&format!(" | {} => {}", pats.join(" | "), body));
                }
                Ok(format!("(match {scrut} with{arms})"))
            }
            Expr::Macro(m) => {
                let name = path_segs(&m.mac.path).join("::");
                match name.as_str() {
                    "matches" => {
                        let mm: MatchesArgs = syn::parse2(m.mac.tokens.clone())
                            .map_err(|e| format!("matches! args: {e}"))?;
                        if mm.guard.is_some() {
                            return Err("matches! with guard".into());
                        }
                        let scrut = self.expr(&mm.scrutinee)?;
                        let pats = self.pat(&mm.pat)?;
                        Ok(format!(
                            "(match {scrut} with | {} => true | _ => false)",
                            pats.join(" | ")
                        ))
                    }
                    "vec" => {
                        let args: VecArgs = syn::parse2(m.mac.tokens.clone())
                            .map_err(|e| format!("vec! args: {e}"))?;
                        let parts: R<Vec<String>> = args.0.iter().map(|a| self.expr(a)).collect();
                        Ok(format!("[{}]", parts?.join(", ")))
                    }
                    "format" => {
                        // only "{a} -> {b} -> …" forms: a list of the named variables
                        let lit: syn::LitStr = syn::parse2(m.mac.tokens.clone())
                            .map_err(|_| "format! with arguments".to_string())?;
                        let s = lit.value();
                        let mut out = vec![];
                        for part in s.split(" -> ") {
                            let p = part.trim();
                            if p.starts_with('{') && p.ends_with('}') && p.len() > 2 {
                                out.push(ident(&p[1..p.len() - 1]));
                            } else {
                                return Err(format!("format! string {s:?}"));
                            }
                        }
                        Ok(format!("[{}]", out.join(", ")))
                    }
                    other => Err(format!("macro {other}!")),
                }
            }
            Expr::Struct(s) => {
                let mut fields = vec![];
                for f in &s.fields {
                    if let syn::Member::Named(n) = &f.member {
                        let n = n.to_string();
                        if self.struct_fields_kept.contains(&n) {
                            fields.push(format!("{} := {}", ident(&n), self.expr(&f.expr)?));
                        }
                    }
                }
                if fields.is_empty() {
                    return Err(format!("struct literal {}", tok(&s.path)));
                }
                Ok(format!("{{ {} }}", fields.join(", ")))
            }
            Expr::Return(_) => Err("return in expression position".into()),
            other => Err(format!("expression {}", tok(other))),
        }
    }

    /// A block used as an expression: `let`s followed by a tail expression.
    pub fn block_expr(&self, b: &syn::Block) -> R<String> {
        let mut out = String::new();
        let n = b.stmts.len();
        for (i, st) in b.stmts.iter().enumerate() {
            match st {
                Stmt::Local(l) => {
                    let name = match &l.pat {
                        Pat::Ident(pi) => ident(&pi.ident.to_string()),
                        other => return Err(format!("let pattern {}", tok(other))),
                    };
                    let init = l.init.as_ref().ok_or("let without init")?;
                    if init.diverge.is_some() {
                        return Err("let-else".into());
                    }
                    out.push_str(&format!("let {name} := {}; ", self.expr(&init.expr)?));
                }
                Stmt::Expr(e, None) if i == n - 1 => {
                    out.push_str(&self.expr(e)?);
                    return Ok(if n == 1 { out } else { format!("({out})") });
                }
                other => return Err(format!("statement in expression block: {}", tok(other))),
            }
        }
        Err("block without tail expression".into())
    }
}

pub struct MatchesArgs {
    pub scrutinee: Expr,
    pub pat: Pat,
    pub guard: Option<Expr>,
}
impl syn::parse::Parse for MatchesArgs {
    fn parse(input: syn::parse::ParseStream) -> syn::Result<Self> {
        let scrutinee: Expr = input.parse()?;
        input.parse::<syn::Token![,]>()?;
        let pat = Pat::parse_multi_with_leading_vert(input)?;
        let guard = if input.peek(syn::Token![if]) {
            input.parse::<syn::Token![if]>()?;
            Some(input.parse()?)
        } else {
            None
        };
        let _ = input.parse::<Option<syn::Token![,]>>();
        Ok(MatchesArgs { scrutinee, pat, guard })
    }
}

pub struct VecArgs(pub Vec<Expr>);
impl syn::parse::Parse for VecArgs {
    fn parse(input: syn::parse::ParseStream) -> syn::Result<Self> {
        let p = syn::punctuated::Punctuated::<Expr, syn::Token![,]>::parse_terminated(input)?;
        Ok(VecArgs(p.into_iter().collect()))
    }
}

// ---------------------------------------------------------------------------
// Imperative bodies: `let`, `let mut`, assignment, `push`, `if`, `match`, `return`,
// `break`, one `for _ in 0..n` loop. Translated by continuation passing into a
// fuel-indexed recursion `<name>.loop` plus `<name>.after` for the code after the loop.
// ---------------------------------------------------------------------------

pub struct FnTr<'a> {
    pub ctx: &'a Ctx,
    pub name: String,
    /// (lean name, lean type) of the function parameters
    pub params: Vec<(String, String)>,
    pub ret_ty: String,
    /// lean types for local variables (by lean name); default Nat
    pub var_ty: HashMap<String, String>,
}

#[derive(Clone)]
enum K {
    /// falls off the end of the function body (tail expression required instead)
    End,
    /// end of loop body: recurse with remaining fuel
    LoopNext,
    /// code after the loop
    After,
    /// explicit continuation: remaining statements then another continuation
    Stmts(Vec<Stmt>, Box<K>),
}

impl<'a> FnTr<'a> {
    fn vty(&self, v: &str) -> String {
        self.var_ty.get(v).cloned().unwrap_or_else(|| "Nat".into())
    }

    pub fn translate(&self, body: &syn::Block) -> R<String> {
        // split at the (single, top-level) for loop if any
        let mut pre = vec![];
        let mut the_loop: Option<&syn::ExprForLoop> = None;
        let mut post = vec![];
        for st in &body.stmts {
            if the_loop.is_none() {
                if let Stmt::Expr(Expr::ForLoop(f), _) = st {
                    the_loop = Some(f);
                    continue;
                }
                pre.push(st.clone());
            } else {
                post.push(st.clone());
            }
        }
        let params_sig: String = self
            .params
            .iter()
            .map(|(n, t)| format!(" ({n} : {t})"))
            .collect();
        let params_app: String = self.params.iter().map(|(n, _)| format!(" {n}")).collect();
        match the_loop {
            None => {
                let body = self.stmts(&pre, &K::End, &[], "  ")?;
                Ok(format!(
                    "def {}{} : {} :=\n  {}\n",
                    self.name, params_sig, self.ret_ty, body
                ))
            }
            Some(fl) => {
                // loop header: `for _ in 0..bound`
                if !matches!(&*fl.pat, Pat::Wild(_)) {
                    return Err("for pattern other than `_`".into());
                }
                let bound = match &*fl.expr {
                    Expr::Range(r) => {
                        let lo = r.start.as_ref().ok_or("range without start")?;
                        if tok(&**lo) != "0" {
                            return Err("range not starting at 0".into());
                        }
                        if !matches!(r.limits, syn::RangeLimits::HalfOpen(_)) {
                            return Err("closed range".into());
                        }
                        self.ctx.expr(r.end.as_ref().ok_or("range without end")?)?
                    }
                    other => return Err(format!("for over {}", tok(other))),
                };
                // variables: every local declared in `pre` (mutable ones are threaded)
                let mut locals: Vec<(String, bool)> = vec![];
                for st in &pre {
                    if let Stmt::Local(l) = st {
                        if let Pat::Ident(pi) = &l.pat {
                            locals.push((ident(&pi.ident.to_string()), pi.mutability.is_some()));
                        }
                    }
                }
                let all_sig: String = locals
                    .iter()
                    .map(|(n, _)| format!(" ({n} : {})", self.vty(n)))
                    .collect();
                let all_app: String = locals.iter().map(|(n, _)| format!(" {n}")).collect();
                let after_body = self.stmts(&post, &K::End, &[], "  ")?;
                let after = format!(
                    "def {}.after{}{} : {} :=\n  {}\n",
                    self.name, params_sig, all_sig, self.ret_ty, after_body
                );
                let after_call = format!("({}.after{}{})", self.name, params_app, all_app);
                let next_call = format!("({}.loop{} fuel{})", self.name, params_app, all_app);
                let lb = self.stmts(
                    &fl.body.stmts,
                    &K::LoopNext,
                    &[("after", &after_call), ("next", &next_call)],
                    "    ",
                )?;
                let lp = format!(
                    "def {name}.loop{ps} : Nat →{tys} {ret}\n  | 0,{wild} => {after_call}\n  | fuel+1,{vars} =>\n    {lb}\n",
                    name = self.name,
                    ps = params_sig,
                    tys = locals
                        .iter()
                        .map(|(n, _)| format!(" {} →", self.vty(n)))
                        .collect::<String>(),
                    ret = self.ret_ty,
                    wild = locals
                        .iter()
                        .map(|(n, _)| format!(" {n}"))
                        .collect::<Vec<_>>()
                        .join(","),
                    vars = locals
                        .iter()
                        .map(|(n, _)| format!(" {n}"))
                        .collect::<Vec<_>>()
                        .join(","),
                );
                let main_tail = format!("{}.loop{} ({}){}", self.name, params_app, bound, all_app);
                let main_body = self.stmts(&pre, &K::End, &[("tail", &main_tail)], "  ")?;
                Ok(format!(
                    "{after}\n{lp}\ndef {}{} : {} :=\n  {}\n",
                    self.name, params_sig, self.ret_ty, main_body
                ))
            }
        }
    }

    fn cont(&self, k: &K, calls: &[(&str, &String)], ind: &str) -> R<String> {
        let get = |n: &str| calls.iter().find(|(a, _)| *a == n).map(|(_, b)| (*b).clone());
        match k {
            K::End => get("tail").ok_or_else(|| "falls off the end without a value".to_string()),
            K::LoopNext => get("next").ok_or_else(|| "loop continuation outside loop".to_string()),
            K::After => get("after").ok_or_else(|| "break outside loop".to_string()),
            K::Stmts(s, k2) => self.stmts(s, k2, calls, ind),
        }
    }

    fn stmts(&self, ss: &[Stmt], k: &K, calls: &[(&str, &String)], ind: &str) -> R<String> {
        if ss.is_empty() {
            return self.cont(k, calls, ind);
        }
        let rest = &ss[1..];
        let rest_k = if rest.is_empty() {
            k.clone()
        } else {
            K::Stmts(rest.to_vec(), Box::new(k.clone()))
        };
        let nl = format!("\n{ind}");
        match &ss[0] {
            Stmt::Local(l) => {
                let name = match &l.pat {
                    Pat::Ident(pi) => ident(&pi.ident.to_string()),
                    other => return Err(format!("let pattern {}", tok(other))),
                };
                let init = l.init.as_ref().ok_or("let without init")?;
                if init.diverge.is_some() {
                    return Err("let-else".into());
                }
                let v = self.ctx.expr(&init.expr)?;
                Ok(format!("let {name} := {v}{nl}{}", self.cont(&rest_k, calls, ind)?))
            }
            Stmt::Expr(e, semi) => self.stmt_expr(e, semi.is_some(), &rest_k, rest.is_empty(), calls, ind),
            Stmt::Macro(m) => Err(format!("statement macro {}", tok(&m.mac.path))),
            Stmt::Item(_) => Err("nested item".into()),
        }
    }

    fn block(&self, b: &syn::Block, k: &K, calls: &[(&str, &String)], ind: &str) -> R<String> {
        self.stmts(&b.stmts, k, calls, ind)
    }

    fn stmt_expr(
        &self,
        e: &Expr,
        has_semi: bool,
        k: &K,
        is_last: bool,
        calls: &[(&str, &String)],
        ind: &str,
    ) -> R<String> {
        let ind2 = format!("{ind}  ");
        let nl = format!("\n{ind}");
        match e {
            Expr::Return(r) => {
                let v = r.expr.as_ref().ok_or("return without value")?;
                self.ctx.expr(v)
            }
            Expr::Break(b) => {
                if b.label.is_some() || b.expr.is_some() {
                    return Err("labelled/valued break".into());
                }
                self.cont(&K::After, calls, ind)
            }
            Expr::Assign(a) => {
                let name = match &*a.left {
                    Expr::Path(p) if p.path.segments.len() == 1 => {
                        ident(&p.path.segments[0].ident.to_string())
                    }
                    other => return Err(format!("assignment to {}", tok(other))),
                };
                let v = self.ctx.expr(&a.right)?;
                Ok(format!("let {name} := {v}{nl}{}", self.cont(k, calls, ind)?))
            }
            Expr::MethodCall(m) if m.method == "push" && m.args.len() == 1 => {
                let name = match &*m.receiver {
                    Expr::Path(p) if p.path.segments.len() == 1 => {
                        ident(&p.path.segments[0].ident.to_string())
                    }
                    other => return Err(format!("push on {}", tok(other))),
                };
                let v = self.ctx.expr(&m.args[0])?;
                Ok(format!(
                    "let {name} := {name} ++ [{v}]{nl}{}",
                    self.cont(k, calls, ind)?
                ))
            }
            Expr::If(i) => {
                if let Expr::Let(_) = &*i.cond {
                    return Err("if-let statement".into());
                }
                let c = self.ctx.expr(&i.cond)?;
                let t = self.block(&i.then_branch, k, calls, &ind2)?;
                let el = match &i.else_branch {
                    Some((_, eb)) => match &**eb {
                        Expr::Block(b) => self.block(&b.block, k, calls, &ind2)?,
                        other => self.stmt_expr(other, true, k, is_last, calls, &ind2)?,
                    },
                    None => self.cont(k, calls, &ind2)?,
                };
                Ok(format!("if {c} then{nl}  {t}{nl}else{nl}  {el}"))
            }
            Expr::Match(m) => {
                let scrut = self.ctx.expr(&m.expr)?;
                let mut out = format!("match {scrut} with");
                for a in &m.arms {
                    if a.guard.is_some() {
                        return Err("match guard".into());
                    }
                    let pats = self.ctx.pat(&a.pat)?;
                    let body = match &*a.body {
                        Expr::Block(b) => self.block(&b.block, k, calls, &ind2)?,
                        other => self.stmt_expr(other, true, k, is_last, calls, &ind2)?,
                    };
                    out.push_str(&format!("{nl}| {} =>{nl}  {}", pats.join(" | "), body));
                }
                Ok(out)
            }
            Expr::Block(b) => self.block(&b.block, k, calls, ind),
            other => {
                if !has_semi && is_last && matches!(k, K::End) {
                    // tail expression of the function
                    self.ctx.expr(other)
                } else {
                    Err(format!("statement {}", tok(other)))
                }
            }
        }
    }
}
