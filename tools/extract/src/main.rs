//! Extractor / translator: reads the rsactor sources of the tree under test and writes
//! `Extracted.lean` (Lean definitions, never theorems) plus `extract.json` (what was found where).
//!
//! usage: extract <repo-root> <out.lean> <out.json>

mod features;
mod macros;
mod rs2lean;
mod shapes;

use rs2lean::{Ctx, EnumInfo, FnTr};
use std::collections::HashMap;
use std::fmt::Write as _;

pub struct Out {
    pub lean: String,
    pub json: Vec<(String, String)>, // item -> status / info (already JSON-encoded value)
    pub unrecognised: Vec<String>,
}

impl Out {
    pub fn item(&mut self, name: &str, res: Result<String, String>) {
        match res {
            Ok(text) => {
                let _ = writeln!(self.lean, "-- item {name}\n{text}");
                self.json.push((name.to_string(), "\"ok\"".into()));
            }
            Err(why) => {
                // a definition the dependent theorems cannot use: elaboration of anything that
                // mentions the item fails with an unknown identifier; the marker records why.
                let _ = writeln!(
                    self.lean,
                    "-- item {name} UNRECOGNISED: {}\ndef unrecognised_{} : String := {:?}\n",
                    why.replace('\n', " "),
                    name.replace(['.', '-'], "_"),
                    why
                );
                self.json
                    .push((name.to_string(), format!("{:?}", format!("UNRECOGNISED: {why}"))));
                self.unrecognised.push(format!("{name}: {why}"));
            }
        }
    }
}

pub fn parse_file(path: &std::path::Path) -> Result<syn::File, String> {
    let src = std::fs::read_to_string(path).map_err(|e| format!("{}: {e}", path.display()))?;
    syn::parse_file(&src).map_err(|e| format!("{}: {e}", path.display()))
}

fn find_enum<'a>(f: &'a syn::File, name: &str) -> Option<&'a syn::ItemEnum> {
    f.items.iter().find_map(|i| match i {
        syn::Item::Enum(e) if e.ident == name => Some(e),
        _ => None,
    })
}

fn enum_info(e: &syn::ItemEnum, kind_view: bool) -> EnumInfo {
    EnumInfo {
        variants: e
            .variants
            .iter()
            .map(|v| {
                let fields = match &v.fields {
                    syn::Fields::Named(n) => n
                        .named
                        .iter()
                        .map(|f| f.ident.as_ref().unwrap().to_string())
                        .collect(),
                    syn::Fields::Unnamed(u) => (0..u.unnamed.len()).map(|i| i.to_string()).collect(),
                    syn::Fields::Unit => vec![],
                };
                (v.ident.to_string(), fields)
            })
            .collect(),
        kind_view,
    }
}

pub fn find_fn<'a>(f: &'a syn::File, name: &str) -> Option<&'a syn::ItemFn> {
    f.items.iter().find_map(|i| match i {
        syn::Item::Fn(x) if x.sig.ident == name => Some(x),
        _ => None,
    })
}

/// all inherent impl blocks whose self type's last path segment is `ty`
pub fn inherent_impls<'a>(f: &'a syn::File, ty: &str) -> Vec<&'a syn::ItemImpl> {
    f.items
        .iter()
        .filter_map(|i| match i {
            syn::Item::Impl(im) if im.trait_.is_none() => match &*im.self_ty {
                syn::Type::Path(tp)
                    if tp.path.segments.last().map(|s| s.ident == ty).unwrap_or(false) =>
                {
                    Some(im)
                }
                _ => None,
            },
            _ => None,
        })
        .collect()
}

pub fn impl_fns<'a>(im: &'a syn::ItemImpl) -> Vec<&'a syn::ImplItemFn> {
    im.items
        .iter()
        .filter_map(|i| match i {
            syn::ImplItem::Fn(f) => Some(f),
            _ => None,
        })
        .collect()
}

fn ty_to_lean(t: &syn::Type) -> Result<String, String> {
    let s = rs2lean::tok(t).replace(' ', "");
    Ok(match s.as_str() {
        "bool" => "Bool".into(),
        "T" | "&T" | "Self" => "α".into(),
        "T::Error" | "&T::Error" => "ε".into(),
        "Option<T>" | "Option<&T>" => "Option α".into(),
        "Option<T::Error>" | "Option<&T::Error>" => "Option ε".into(),
        "std::result::Result<T,T::Error>" | "Result<T,T::Error>" => "Except ε α".into(),
        "FailurePhase" => "FailurePhase".into(),
        "(Option<T>,Option<T::Error>)" => "Option α × Option ε".into(),
        other => return Err(format!("type {other}")),
    })
}

// ------------------------------------------------------------------ E6: actor_result.rs / error.rs
fn extract_actor_result(repo: &std::path::Path, out: &mut Out) {
    let file = match parse_file(&repo.join("src/actor_result.rs")) {
        Ok(f) => f,
        Err(e) => {
            out.item("actor_result", Err(e));
            return;
        }
    };
    let mut ctx = Ctx { self_name: "self".into(), ..Default::default() };
    // FailurePhase
    let fp = find_enum(&file, "FailurePhase");
    out.item(
        "FailurePhase",
        fp.ok_or("enum FailurePhase not found".to_string()).and_then(|e| {
            let info = enum_info(e, false);
            if info.variants.iter().any(|(_, f)| !f.is_empty()) {
                return Err("FailurePhase has payloads".into());
            }
            let vs: String = info.variants.iter().map(|(n, _)| format!(" | {n}")).collect();
            ctx.enums.insert("FailurePhase".into(), info);
            Ok(format!(
                "inductive FailurePhase{vs}\n  deriving DecidableEq, Repr, Inhabited\n"
            ))
        }),
    );
    // ActorResult
    let ar = find_enum(&file, "ActorResult");
    out.item(
        "ActorResult",
        ar.ok_or("enum ActorResult not found".to_string()).and_then(|e| {
            let info = enum_info(e, false);
            let mut s = String::from("inductive ActorResult (α ε : Type)\n");
            for v in &e.variants {
                let mut fs = String::new();
                if let syn::Fields::Named(n) = &v.fields {
                    for f in &n.named {
                        let _ = write!(
                            fs,
                            " ({} : {})",
                            rs2lean::ident(&f.ident.as_ref().unwrap().to_string()),
                            ty_to_lean(&f.ty)?
                        );
                    }
                } else {
                    return Err("ActorResult variant without named fields".into());
                }
                let _ = writeln!(s, "  | {}{}", v.ident, fs);
            }
            s.push_str("  deriving DecidableEq, Repr\n");
            ctx.enums.insert("ActorResult".into(), info);
            Ok(s)
        }),
    );
    // methods
    let impls = inherent_impls(&file, "ActorResult");
    let fns: Vec<&syn::ImplItemFn> = impls.iter().flat_map(|im| impl_fns(im)).collect();
    ctx.self_methods = fns.iter().map(|f| f.sig.ident.to_string()).collect();
    let mut names = vec![];
    // emit in dependency order: functions that call other self methods last
    let mut ordered: Vec<&syn::ImplItemFn> = vec![];
    let calls_self = |f: &syn::ImplItemFn| {
        let t = rs2lean::tok(&f.block);
        ctx.self_methods.iter().any(|m| t.contains(&format!("self . {m} (")))
    };
    for f in &fns {
        if !calls_self(f) {
            ordered.push(f);
        }
    }
    for f in &fns {
        if calls_self(f) {
            ordered.push(f);
        }
    }
    for f in ordered {
        let name = f.sig.ident.to_string();
        let res = (|| {
            let ret = match &f.sig.output {
                syn::ReturnType::Type(_, t) => ty_to_lean(t)?,
                syn::ReturnType::Default => return Err("no return type".to_string()),
            };
            let body = ctx.block_expr(&f.block)?;
            Ok(format!(
                "def ActorResult.{} {{α ε : Type}} (self : ActorResult α ε) : {} :=\n  {}\n",
                rs2lean::ident(&name),
                ret,
                body
            ))
        })();
        names.push(name.clone());
        out.item(&format!("ActorResult.{name}"), res);
    }
    // From<ActorResult<T>> for (Option<T>, Option<T::Error>)
    let from_impl = file.items.iter().find_map(|i| match i {
        syn::Item::Impl(im)
            if im
                .trait_
                .as_ref()
                .map(|(_, p, _)| p.segments.last().map(|s| s.ident == "From").unwrap_or(false))
                .unwrap_or(false) =>
        {
            Some(im)
        }
        _ => None,
    });
    out.item(
        "ActorResult.into_tuple",
        from_impl
            .ok_or("From impl not found".to_string())
            .and_then(|im| {
                let f = impl_fns(im)
                    .into_iter()
                    .find(|f| f.sig.ident == "from")
                    .ok_or("fn from not found")?;
                let arg = match f.sig.inputs.first() {
                    Some(syn::FnArg::Typed(pt)) => match &*pt.pat {
                        syn::Pat::Ident(pi) => pi.ident.to_string(),
                        _ => return Err("from arg pattern".into()),
                    },
                    _ => return Err("from arg".into()),
                };
                let body = ctx.block_expr(&f.block)?;
                Ok(format!(
                    "def ActorResult.into_tuple {{α ε : Type}} ({} : ActorResult α ε) : Option α × Option ε :=\n  {}\n",
                    rs2lean::ident(&arg),
                    body
                ))
            }),
    );
    out.json.push((
        "ActorResult.methods".into(),
        format!("{:?}", names.join(",")),
    ));
}

fn extract_error(repo: &std::path::Path, out: &mut Out) {
    let file = match parse_file(&repo.join("src/error.rs")) {
        Ok(f) => f,
        Err(e) => {
            out.item("error", Err(e));
            return;
        }
    };
    let mut ctx = Ctx { self_name: "self".into(), ..Default::default() };
    let en = find_enum(&file, "Error");
    out.item(
        "ErrorKind",
        en.ok_or("enum Error not found".to_string()).map(|e| {
            let info = enum_info(e, true);
            let vs: String = info.variants.iter().map(|(n, _)| format!(" | {n}")).collect();
            ctx.enums.insert("Error".into(), info);
            format!("inductive ErrorKind{vs}\n  deriving DecidableEq, Repr, Inhabited\n")
        }),
    );
    let impls = inherent_impls(&file, "Error");
    let f = impls
        .iter()
        .flat_map(|im| impl_fns(im))
        .find(|f| f.sig.ident == "is_retryable");
    out.item(
        "ErrorKind.is_retryable",
        f.ok_or("fn is_retryable not found".to_string()).and_then(|f| {
            let body = ctx.block_expr(&f.block)?;
            Ok(format!(
                "def ErrorKind.is_retryable (self : ErrorKind) : Bool :=\n  {body}\n"
            ))
        }),
    );
}

// ------------------------------------------------------------------ E8: has_path / format_cycle_path
fn extract_graph_fns(repo: &std::path::Path, out: &mut Out) {
    let file = match parse_file(&repo.join("src/lib.rs")) {
        Ok(f) => f,
        Err(e) => {
            out.item("lib", Err(e));
            return;
        }
    };
    for (name, lean_name, ret) in [
        ("has_path", "has_path", "Bool"),
        ("format_cycle_path", "format_cycle_path", "List Nat"),
    ] {
        let res = (|| {
            let f = find_fn(&file, name).ok_or(format!("fn {name} not found"))?;
            // parameters: the graph (HashMap<u64, V>) and u64 / Identity scalars
            let mut params = vec![];
            let mut tuple_first = false;
            for a in &f.sig.inputs {
                if let syn::FnArg::Typed(pt) = a {
                    let n = match &*pt.pat {
                        syn::Pat::Ident(pi) => rs2lean::ident(&pi.ident.to_string()),
                        _ => return Err("param pattern".to_string()),
                    };
                    let t = rs2lean::tok(&*pt.ty).replace(' ', "");
                    let lt = if t.starts_with("&HashMap<u64,") {
                        if t == "&HashMap<u64,(Identity,u64)>" {
                            tuple_first = true;
                        } else if t != "&HashMap<u64,Identity>" {
                            return Err(format!("graph type {t}"));
                        }
                        "Graph"
                    } else if t == "u64" || t == "Identity" {
                        "Nat"
                    } else {
                        return Err(format!("param type {t}"));
                    };
                    params.push((n, lt.to_string()));
                }
            }
            let ctx = Ctx {
                drop_id_field: true,
                tuple_first,
                self_name: "self".into(),
                ..Default::default()
            };
            let mut var_ty = HashMap::new();
            var_ty.insert("path".to_string(), "List Nat".to_string());
            let tr = FnTr {
                ctx: &ctx,
                name: lean_name.to_string(),
                params,
                ret_ty: ret.to_string(),
                var_ty,
            };
            tr.translate(&f.block)
        })();
        out.item(name, res);
    }
}

fn main() {
    let args: Vec<String> = std::env::args().collect();
    if args.len() != 4 {
        eprintln!("usage: extract <repo-root> <out.lean> <out.json>");
        std::process::exit(2);
    }
    let repo = std::path::PathBuf::from(&args[1]);
    let mut out = Out { lean: String::new(), json: vec![], unrecognised: vec![] };
    out.lean.push_str(
        "-- GENERATED by tools/extract from the rsactor sources of the tree under test. Do not edit.\n\
         import Rsactor.Basic\nset_option linter.unusedVariables false\n\nnamespace Rsactor.Extracted\nopen Rsactor\n\n",
    );
    extract_actor_result(&repo, &mut out);
    extract_error(&repo, &mut out);
    extract_graph_fns(&repo, &mut out);
    shapes::extract_all(&repo, &mut out);
    features::extract_features(&repo, &mut out);
    macros::extract_macros(&repo, &mut out);
    out.lean.push_str("\nend Rsactor.Extracted\n");
    std::fs::write(&args[2], &out.lean).expect("write lean");
    let mut j = String::from("{\n");
    for (i, (k, v)) in out.json.iter().enumerate() {
        let _ = write!(j, "  {:?}: {}{}\n", k, v, if i + 1 < out.json.len() { "," } else { "" });
    }
    j.push_str("}\n");
    std::fs::write(&args[3], j).expect("write json");
    for u in &out.unrecognised {
        eprintln!("UNRECOGNISED {u}");
    }
}
