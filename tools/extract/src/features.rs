//! Inventory of the feature-gated sites of the crate (C18): every `#[cfg(..feature..)]` /
//! `#[cfg_attr(feature.., ..)]` attribute in src/*.rs (macro bodies included, `verif_hooks` and test
//! modules excluded) together with a classification of what it gates.  Anything the classifier does
//! not recognise is reported as `other` and makes the shape lemma fail.
use crate::rs2lean::R;
use crate::Out;
use proc_macro2::{Delimiter, TokenStream, TokenTree};
use std::str::FromStr;

#[derive(Debug, Clone)]
struct Site {
    file: String,
    feat: String,
    kind: String,
    text: String,
}

fn ts(t: &[TokenTree]) -> String {
    let s: TokenStream = t.iter().cloned().collect();
    s.to_string().split_whitespace().collect::<Vec<_>>().join("")
}

/// is `t[i..]` an attribute `# [ ... ]`; returns the bracket group's tokens
fn attr_at(t: &[TokenTree], i: usize) -> Option<Vec<TokenTree>> {
    match (t.get(i), t.get(i + 1)) {
        (Some(TokenTree::Punct(p)), Some(TokenTree::Group(g))) if p.as_char() == '#' && g.delimiter() == Delimiter::Bracket => {
            Some(g.stream().into_iter().collect())
        }
        _ => None,
    }
}

/// the item / statement / field / argument that starts at `t[i]`: tokens up to its end
fn gated_item(t: &[TokenTree], mut i: usize) -> Vec<TokenTree> {
    // further attributes belong to the item
    while attr_at(t, i).is_some() {
        i += 2;
    }
    let start = i;
    let first = t.get(i).map(|x| x.to_string()).unwrap_or_default();
    let second = t.get(i + 1).map(|x| x.to_string()).unwrap_or_default();
    let until_semi = matches!(first.as_str(), "let" | "use" | "static" | "type" | "mod")
        || (first == "pub" && matches!(second.as_str(), "use" | "static" | "type" | "mod"))
        || (first == "pub" && t.get(i + 2).map(|x| matches!(x.to_string().as_str(), "use" | "static" | "type" | "mod" | "struct")).unwrap_or(false) && {
            // pub(crate) struct X(..);  — tuple struct ends with `;`
            t[i..].iter().take(8).any(|x| matches!(x, TokenTree::Group(g) if g.delimiter() == Delimiter::Parenthesis))
                && !t[i..].iter().take(8).any(|x| matches!(x, TokenTree::Group(g) if g.delimiter() == Delimiter::Brace))
                && t[i..].iter().take(8).any(|x| x.to_string() == ";")
        });
    while i < t.len() {
        match &t[i] {
            TokenTree::Punct(p) if p.as_char() == ';' => {
                i += 1;
                break;
            }
            TokenTree::Punct(p) if p.as_char() == ',' && !until_semi => break,
            TokenTree::Group(g) if g.delimiter() == Delimiter::Brace && !until_semi => {
                i += 1;
                break;
            }
            _ => i += 1,
        }
    }
    t[start..i.min(t.len())].to_vec()
}

const LOG_MACROS: &[&str] = &["debug", "info", "warn", "error", "trace"];
/// calls allowed inside the arguments of a feature-gated log line (pure accessors)
const PURE_CALLS: &[&str] = &["identity", "as_millis", "elapsed", "type_name", "name", "len", "to_string"];

fn is_log_macro(item: &[TokenTree]) -> Option<Vec<TokenTree>> {
    // [tracing ::] debug ! ( .. ) [;]
    let mut i = 0;
    if item.first().map(|x| x.to_string()) == Some("tracing".into()) {
        i = 3; // tracing : :
    }
    let name = item.get(i)?.to_string();
    if !LOG_MACROS.contains(&name.as_str()) {
        return None;
    }
    if item.get(i + 1)?.to_string() != "!" {
        return None;
    }
    match item.get(i + 2)? {
        TokenTree::Group(g) => {
            let rest = &item[i + 3..];
            if rest.is_empty() || (rest.len() == 1 && rest[0].to_string() == ";") {
                Some(g.stream().into_iter().collect())
            } else {
                None
            }
        }
        _ => None,
    }
}

fn calls_in(t: &[TokenTree], out: &mut Vec<String>) {
    for (i, x) in t.iter().enumerate() {
        if let TokenTree::Group(g) = x {
            if g.delimiter() == Delimiter::Parenthesis {
                if let Some(TokenTree::Ident(id)) = i.checked_sub(1).and_then(|j| t.get(j)) {
                    out.push(id.to_string());
                } else if let Some(TokenTree::Punct(p)) = i.checked_sub(1).and_then(|j| t.get(j)) {
                    // turbofish call: type_name :: < T > ( )
                    if p.as_char() == '>' {
                        let mut k = i - 1;
                        while k > 0 && t[k].to_string() != "<" {
                            k -= 1;
                        }
                        if k >= 3 {
                            out.push(t[k - 3].to_string());
                        }
                    }
                }
            }
            let inner: Vec<TokenTree> = g.stream().into_iter().collect();
            calls_in(&inner, out);
        }
    }
}

fn log_match(item: &[TokenTree], calls: &mut Vec<String>) -> bool {
    // match & result { Ok ( _ ) => debug ! ( .. ) , Err ( e ) => warn ! ( .. ) , }
    if item.first().map(|x| x.to_string()) != Some("match".into()) {
        return false;
    }
    let Some(TokenTree::Group(body)) = item.last() else { return false };
    if body.delimiter() != Delimiter::Brace {
        return false;
    }
    let scrut = ts(&item[1..item.len() - 1]);
    if scrut != "&result" {
        return false;
    }
    let b: Vec<TokenTree> = body.stream().into_iter().collect();
    // split arms at top-level commas
    let mut arms: Vec<Vec<TokenTree>> = vec![vec![]];
    for x in b {
        if matches!(&x, TokenTree::Punct(p) if p.as_char() == ',') {
            arms.push(vec![]);
        } else {
            arms.last_mut().unwrap().push(x);
        }
    }
    for arm in arms.into_iter().filter(|a| !a.is_empty()) {
        // pattern => body
        let Some(pos) = arm.windows(2).position(|w| w[0].to_string() == "=" && w[1].to_string() == ">") else { return false };
        let body = &arm[pos + 2..];
        match is_log_macro(body) {
            Some(args) => calls_in(&args, calls),
            None => return false,
        }
    }
    true
}

fn classify(file: &str, feat: &str, attr: &[TokenTree], item: &[TokenTree], calls: &mut Vec<String>) -> String {
    let text = ts(item);
    let a = ts(attr);
    let first = item.first().map(|x| x.to_string()).unwrap_or_default();
    if a.starts_with("cfg_attr(") {
        return if feat == "tracing" && a.contains(",tracing::instrument(") { "instrument".into() } else { "other".into() };
    }
    match feat {
        "tracing" | "not-tracing" => {
            if text.starts_with("usetracing::") {
                return "use".into();
            }
            if let Some(args) = is_log_macro(item) {
                if feat == "tracing" {
                    calls_in(&args, calls);
                    return "log".into();
                }
                return "other".into();
            }
            if feat == "tracing" && text.starts_with("let") && text.contains("_span=tracing::debug_span!(") && text.ends_with(");") {
                return "span".into();
            }
            if feat == "not-tracing" && text.starts_with("let") && text.ends_with("_span=tracing::Span::none();") {
                return "spanNone".into();
            }
            if feat == "tracing" && text == "letstart_time=std::time::Instant::now();" {
                return "clock".into();
            }
            if feat == "tracing" && log_match(item, calls) {
                return "logMatch".into();
            }
            "other".into()
        }
        "metrics" => {
            if text == "modmetrics;" {
                return "modDecl".into();
            }
            if first == "use" || text.starts_with("pubuse") {
                return "use".into();
            }
            if text == "pub(crate)metrics:Arc<MetricsCollector>" || text == "metrics:Arc<MetricsCollector>" {
                return "field".into();
            }
            if text == "metrics" || text == "metrics:this.metrics.clone()" || text == "metrics:self.metrics.clone()" {
                return "fieldInit".into();
            }
            if text == "letmetrics=std::sync::Arc::new(metrics::MetricsCollector::new());" {
                return "collectorNew".into();
            }
            if text == "letmetrics_ref=actor_ref.clone();" {
                return "guardRef".into();
            }
            if text == "let_metrics_guard=crate::metrics::collector::MessageProcessingGuard::new(metrics_ref.metrics_collector());" {
                return "guard".into();
            }
            if (first == "pub" || first == "fn") && text.contains("fn") && text.contains("(&self)") {
                // accessor: the body only reads self.metrics
                if let Some(TokenTree::Group(b)) = item.last() {
                    let body = b.stream().to_string().split_whitespace().collect::<Vec<_>>().join("");
                    let reads = body.starts_with("self.metrics.") || body == "&self.metrics" || body.starts_with("letmillis=self.metrics.");
                    if reads && !body.contains("sender") && !body.contains("send(") && !body.contains("record_") && !body.contains("reset") {
                        return "accessor".into();
                    }
                }
            }
            "other".into()
        }
        "deadlock" | "not-deadlock" => {
            if file == "src/actor.rs" {
                if feat == "deadlock" && (text == "{crate::CURRENT_ACTOR.scope($actor_id,$fut).await}" || text == "{crate::CURRENT_ACTOR.scope($actor_id,$fut)}") {
                    return "scope".into();
                }
                if feat == "not-deadlock" && (text == "{$fut.await}" || text == "{$fut}") {
                    return "scopeNone".into();
                }
                return "other".into();
            }
            if file == "src/lib.rs" {
                // whole items of the detector; their content is the subject of C14/C15 (ask_protocol, has_path, ...)
                if feat == "not-deadlock" {
                    return if text == "pub(crate)typeReplySender=oneshot::Sender<Box<dynstd::any::Any+Send>>;" { "replyAlias".into() } else { "other".into() };
                }
                for (pre, k) in [
                    ("use", "use"),
                    ("tokio::task_local!", "item"),
                    ("staticWAIT_FOR", "item"),
                    ("pub(crate)fnwait_for_graph", "item"),
                    ("pub(crate)structWaitForGuard", "item"),
                    ("implDropforWaitForGuard", "item"),
                    ("pub(crate)fnnext_wait_token", "item"),
                    ("pub(crate)fnclear_wait_for", "item"),
                    ("pub(crate)structReplySender", "item"),
                    ("implReplySender", "item"),
                    ("pub(crate)fnhas_path", "item"),
                    ("pub(crate)fnformat_cycle_path", "item"),
                ] {
                    if text.starts_with(pre) {
                        return k.into();
                    }
                }
                return "other".into();
            }
            if file == "src/actor_ref.rs" && feat == "deadlock" {
                if text.starts_with("let_guard={letcaller=crate::CURRENT_ACTOR.try_with(|id|*id).ok();") {
                    return "askGuard".into();
                }
                if text == "letreply_tx=crate::ReplySender{tx:reply_tx,edge:_guard.as_ref().map(|g|(g.0,g.1)),};" || text == "letreply_tx=crate::ReplySender{tx:reply_tx,edge:None,};" {
                    return "replyWrap".into();
                }
            }
            "other".into()
        }
        "test-utils" => {
            if text.starts_with("usestd::sync::atomic::") || text.starts_with("pubusedead_letter::") {
                return "use".into();
            }
            if text == "staticDEAD_LETTER_COUNT:AtomicU64=AtomicU64::new(0);" {
                return "counter".into();
            }
            if text == "DEAD_LETTER_COUNT.fetch_add(1,Ordering::Relaxed);" {
                return "counterBump".into();
            }
            if text.starts_with("pubfndead_letter_count()->u64{") || text.starts_with("pubfnreset_dead_letter_count(){") {
                return "accessor".into();
            }
            "other".into()
        }
        _ => "other".into(),
    }
}

fn feat_of(attr: &[TokenTree]) -> Option<String> {
    let a = ts(attr);
    let inner = if let Some(r) = a.strip_prefix("cfg_attr(") {
        r.split(',').next().unwrap_or("").to_string()
    } else if let Some(r) = a.strip_prefix("cfg(") {
        r.strip_suffix(')').unwrap_or(r).to_string()
    } else {
        return None;
    };
    if !inner.contains("feature=") {
        return None; // #[cfg(test)] and the like
    }
    Some(match inner.as_str() {
        "feature=\"tracing\"" => "tracing".into(),
        "not(feature=\"tracing\")" => "not-tracing".into(),
        "feature=\"metrics\"" => "metrics".into(),
        "feature=\"deadlock-detection\"" => "deadlock".into(),
        "not(feature=\"deadlock-detection\")" => "not-deadlock".into(),
        "any(test,feature=\"test-utils\")" | "feature=\"test-utils\"" => "test-utils".into(),
        "feature=\"verif-hooks\"" => "verif-hooks".into(),
        other => format!("other:{other}"),
    })
}

fn walk(file: &str, t: &[TokenTree], sites: &mut Vec<Site>, calls: &mut Vec<String>) {
    let mut i = 0;
    while i < t.len() {
        if let Some(attr) = attr_at(t, i) {
            if let Some(feat) = feat_of(&attr) {
                let item = if ts(&attr).starts_with("cfg_attr(") { vec![] } else { gated_item(t, i + 2) };
                if feat != "verif-hooks" {
                    let kind = classify(file, &feat, &attr, &item, calls);
                    sites.push(Site { file: file.into(), feat: feat.clone(), kind, text: ts(&item).chars().take(160).collect() });
                }
                // the gated item's own content is covered by its classification, except detector items in
                // lib.rs and macro arms, which contain no nested gates; skip past the attribute only
            }
            i += 2;
            continue;
        }
        if let TokenTree::Group(g) = &t[i] {
            // do not descend into test modules: `mod tests { .. }` preceded by #[cfg(test)]
            let is_test_mod = i >= 2 && t[i - 1].to_string() == "tests" && t[i - 2].to_string() == "mod";
            if !is_test_mod {
                let inner: Vec<TokenTree> = g.stream().into_iter().collect();
                walk(file, &inner, sites, calls);
            }
        }
        i += 1;
    }
}

fn lean_feat(f: &str) -> String {
    match f {
        "tracing" => ".tracing".into(),
        "not-tracing" => ".notTracing".into(),
        "metrics" => ".metrics".into(),
        "deadlock" => ".deadlock".into(),
        "not-deadlock" => ".notDeadlock".into(),
        "test-utils" => ".testUtils".into(),
        _ => ".other".into(),
    }
}

pub fn extract_features(repo: &std::path::Path, out: &mut Out) {
    out.item(
        "feature_sites",
        (|| -> R<String> {
            let files = ["src/lib.rs", "src/actor.rs", "src/actor_ref.rs", "src/actor_result.rs", "src/error.rs", "src/handler.rs", "src/actor_control.rs", "src/dead_letter.rs"];
            let mut sites = vec![];
            let mut calls = vec![];
            for f in files {
                let text = std::fs::read_to_string(repo.join(f)).map_err(|e| format!("{f}: {e}"))?;
                let stream = TokenStream::from_str(&text).map_err(|e| format!("{f}: {e}"))?;
                let t: Vec<TokenTree> = stream.into_iter().collect();
                walk(f, &t, &mut sites, &mut calls);
            }
            calls.sort();
            calls.dedup();
            let impure: Vec<&String> = calls.iter().filter(|c| !PURE_CALLS.contains(&c.as_str())).collect();
            let kinds = ["instrument", "use", "log", "span", "spanNone", "clock", "logMatch", "modDecl", "field", "fieldInit", "collectorNew", "accessor", "guardRef", "guard", "scope", "scopeNone", "item", "replyAlias", "askGuard", "replyWrap", "counter", "counterBump", "other"];
            let mut s = String::new();
            s.push_str("inductive Feat | tracing | notTracing | metrics | deadlock | notDeadlock | testUtils | other\n  deriving DecidableEq, Repr\n");
            s.push_str(&format!("inductive SiteKind | {}\n  deriving DecidableEq, Repr\n", kinds.iter().map(|k| if *k == "use" { "use_".to_string() } else { k.to_string() }).collect::<Vec<_>>().join(" | ")));
            s.push_str("/-- (feature condition, what it gates) for every feature-gated site, in source order, file by file -/\n");
            s.push_str("def feature_sites : List (Feat × SiteKind) := [\n");
            let mut rows = vec![];
            for x in &sites {
                let k = if x.kind == "use" { "use_" } else { x.kind.as_str() };
                rows.push(format!("  ({}, .{})  -- {} {}", lean_feat(&x.feat), k, x.file, x.text.chars().take(70).collect::<String>().replace('\n', " ")));
            }
            // comments after the tuple need the comma before them
            let n = rows.len();
            for (i, r) in rows.into_iter().enumerate() {
                let (tuple, comment) = r.split_once("  -- ").unwrap();
                s.push_str(&format!("{tuple}{}  -- {comment}\n", if i + 1 < n { "," } else { "" }));
            }
            s.push_str("]\n");
            s.push_str(&format!("/-- calls found inside the arguments of feature-gated log lines that are not on the list of pure accessors: {:?} -/\n", impure));
            s.push_str(&format!("def feature_log_args_impure : Nat := {}\n", impure.len()));
            Ok(s)
        })(),
    );
}
