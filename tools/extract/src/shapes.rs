//! Shape recognisers: pieces of the source whose *shape* is recognised and turned into Lean
//! definitions / tables. Unrecognised shapes become `unrecognised_*` markers (broken tie).
use crate::rs2lean::{self, tok, Ctx, R};
use crate::{find_fn, impl_fns, inherent_impls, parse_file, Out};
use std::fmt::Write as _;
use syn::{Expr, Stmt};

fn strip_ws(s: &str) -> String {
    s.chars().filter(|c| !c.is_whitespace()).collect()
}

fn method_chain<'a>(e: &'a Expr) -> (Vec<(&'a syn::ExprMethodCall, String)>, &'a Expr) {
    // returns calls outermost-first and the innermost receiver
    let mut calls = vec![];
    let mut cur = e;
    loop {
        match cur {
            Expr::MethodCall(m) => {
                calls.push((m, m.method.to_string()));
                cur = &m.receiver;
            }
            Expr::Await(a) => cur = &a.base,
            Expr::Paren(p) => cur = &p.expr,
            Expr::Try(t) => cur = &t.expr,
            _ => break,
        }
    }
    (calls, cur)
}

fn error_variant_of(e: &Expr) -> Option<String> {
    // Error::V { .. } possibly wrapped in Err(..)
    match e {
        Expr::Struct(s) => {
            let segs: Vec<String> = s.path.segments.iter().map(|x| x.ident.to_string()).collect();
            if segs.len() == 2 && segs[0] == "Error" {
                Some(segs[1].clone())
            } else {
                None
            }
        }
        Expr::Call(c) if c.args.len() == 1 => error_variant_of(&c.args[0]),
        Expr::Return(r) => r.expr.as_ref().and_then(|x| error_variant_of(x)),
        Expr::Paren(p) => error_variant_of(&p.expr),
        _ => None,
    }
}

// ------------------------------------------------------------------ E4: configuration, ids, channels
fn extract_config(lib: &syn::File, out: &mut Out) {
    // const DEFAULT_MAILBOX_CAPACITY
    let c = lib.items.iter().find_map(|i| match i {
        syn::Item::Const(c) if c.ident == "DEFAULT_MAILBOX_CAPACITY" => Some(c),
        _ => None,
    });
    let ctx = Ctx { self_name: "self".into(), ..Default::default() };
    out.item(
        "DEFAULT_MAILBOX_CAPACITY",
        c.ok_or("const not found".to_string())
            .and_then(|c| ctx.expr(&c.expr))
            .map(|v| format!("def DEFAULT_MAILBOX_CAPACITY : Nat := {v}\n")),
    );
    // set_default_mailbox_capacity
    out.item(
        "set_default_mailbox_capacity",
        (|| -> R<String> {
            let f = find_fn(lib, "set_default_mailbox_capacity").ok_or("fn not found")?;
            let arg = match f.sig.inputs.first() {
                Some(syn::FnArg::Typed(pt)) => match &*pt.pat {
                    syn::Pat::Ident(pi) => rs2lean::ident(&pi.ident.to_string()),
                    _ => return Err("arg pattern".into()),
                },
                _ => return Err("arg".into()),
            };
            let stmts = &f.block.stmts;
            if stmts.len() != 2 {
                return Err(format!("expected guard + set, found {} statements", stmts.len()));
            }
            // guard: if COND { return Err(Error::V {..}) }
            let (cond, gerr) = match &stmts[0] {
                Stmt::Expr(Expr::If(i), _) if i.else_branch.is_none() => {
                    let c = ctx.expr(&i.cond)?;
                    if i.then_branch.stmts.len() != 1 {
                        return Err("guard body".into());
                    }
                    let ev = match &i.then_branch.stmts[0] {
                        Stmt::Expr(e, _) => error_variant_of(e),
                        _ => None,
                    }
                    .ok_or("guard does not return Err(Error::…)")?;
                    (c, ev)
                }
                _ => return Err("first statement is not a guard".into()),
            };
            // tail: STATIC.set(arg).map_err(|_| Error::V {..})
            let tail = match &stmts[1] {
                Stmt::Expr(e, None) => e,
                _ => return Err("tail is not an expression".into()),
            };
            let (calls, base) = method_chain(tail);
            let names: Vec<&str> = calls.iter().map(|(_, n)| n.as_str()).collect();
            if names != ["map_err", "set"] {
                return Err(format!("tail chain {names:?}"));
            }
            let stat = strip_ws(&tok(base));
            if stat != "CONFIGURED_DEFAULT_MAILBOX_CAPACITY" {
                return Err(format!("set on {stat}"));
            }
            let set_arg = ctx.expr(&calls[1].0.args[0])?;
            let serr = match &calls[0].0.args[0] {
                Expr::Closure(c) => error_variant_of(&c.body),
                _ => None,
            }
            .ok_or("map_err closure does not build Error::…")?;
            Ok(format!(
                "/-- (result, new value of the once-cell) -/\n\
                 def set_default_mailbox_capacity (cfg : Option Nat) ({arg} : Nat) : Except ErrorKind Unit × Option Nat :=\n  \
                 if {cond} then (.error .{gerr}, cfg) else\n  \
                 match cfg with\n  | none => (.ok (), some {set_arg})\n  | some _ => (.error .{serr}, cfg)\n"
            ))
        })(),
    );
    // spawn: capacity = STATIC.get().copied().unwrap_or(DEFAULT)
    out.item(
        "spawn_capacity",
        (|| -> R<String> {
            let f = find_fn(lib, "spawn").ok_or("fn spawn not found")?;
            let stmts = &f.block.stmts;
            if stmts.len() != 2 {
                return Err("spawn body shape".into());
            }
            let (name, init) = match &stmts[0] {
                Stmt::Local(l) => match (&l.pat, &l.init) {
                    (syn::Pat::Ident(pi), Some(init)) => (pi.ident.to_string(), &init.expr),
                    _ => return Err("spawn let".into()),
                },
                _ => return Err("spawn first stmt".into()),
            };
            let (calls, base) = method_chain(init);
            let names: Vec<&str> = calls.iter().map(|(_, n)| n.as_str()).collect();
            if names != ["unwrap_or", "copied", "get"]
                || strip_ws(&tok(base)) != "CONFIGURED_DEFAULT_MAILBOX_CAPACITY"
            {
                return Err(format!("capacity expression {}", tok(&**init)));
            }
            let dflt = ctx.expr(&calls[0].0.args[0])?;
            // tail call passes the variable unchanged
            let call = match &stmts[1] {
                Stmt::Expr(Expr::Call(c), None) => c,
                _ => return Err("spawn tail".into()),
            };
            if strip_ws(&tok(&*call.func)) != "spawn_with_mailbox_capacity"
                || call.args.len() != 2
                || strip_ws(&tok(&call.args[1])) != name
            {
                return Err(format!("spawn tail call {}", tok(call)));
            }
            Ok(format!(
                "def spawn_capacity (cfg : Option Nat) : Nat := cfg.getD {dflt}\n"
            ))
        })(),
    );
    // spawn_with_mailbox_capacity
    let f = find_fn(lib, "spawn_with_mailbox_capacity");
    out.item(
        "spawn_with_mailbox_capacity",
        (|| -> R<String> {
            let f = f.ok_or("fn not found")?;
            let cap_param = match f.sig.inputs.iter().nth(1) {
                Some(syn::FnArg::Typed(pt)) => match &*pt.pat {
                    syn::Pat::Ident(pi) => pi.ident.to_string(),
                    _ => return Err("cap param".into()),
                },
                _ => return Err("cap param".into()),
            };
            let mut guard = None;
            let mut id_start = None;
            let mut id_step = None;
            let mut chans: Vec<(Vec<String>, String)> = vec![]; // (bound names, cap expr)
            let mut lifecycle_args: Option<Vec<String>> = None;
            for st in &f.block.stmts {
                match st {
                    Stmt::Macro(m) if m.mac.path.is_ident("assert") => {
                        let args: rs2lean::VecArgs =
                            syn::parse2(m.mac.tokens.clone()).map_err(|e| e.to_string())?;
                        guard = Some(ctx.expr(&args.0[0])?);
                    }
                    Stmt::Item(syn::Item::Static(s)) if s.ident == "ACTOR_IDS" => {
                        if let Expr::Call(c) = &*s.expr {
                            if strip_ws(&tok(&*c.func)) == "AtomicU64::new" && c.args.len() == 1 {
                                id_start = Some(ctx.expr(&c.args[0])?);
                            }
                        }
                    }
                    Stmt::Local(l) => {
                        let init = match &l.init {
                            Some(i) => &i.expr,
                            None => continue,
                        };
                        let t = strip_ws(&tok(&**init));
                        if t.starts_with("mpsc::channel") {
                            if let Expr::Call(c) = &**init {
                                let names = match &l.pat {
                                    syn::Pat::Tuple(t) => {
                                        t.elems.iter().map(|p| strip_ws(&tok(p))).collect()
                                    }
                                    _ => vec![],
                                };
                                chans.push((names, ctx.expr(&c.args[0])?));
                            }
                        } else if t.starts_with("Identity::new(") {
                            if let Expr::Call(c) = &**init {
                                let (calls, base) = method_chain(&c.args[0]);
                                if calls.len() == 1
                                    && calls[0].1 == "fetch_add"
                                    && strip_ws(&tok(base)) == "ACTOR_IDS"
                                {
                                    id_step = Some(ctx.expr(&calls[0].0.args[0])?);
                                }
                            }
                        } else if t.starts_with("tokio::spawn(") {
                            if let Expr::Call(c) = &**init {
                                if let Expr::Call(inner) = &c.args[0] {
                                    lifecycle_args =
                                        Some(inner.args.iter().map(|a| strip_ws(&tok(a))).collect());
                                }
                            }
                        }
                    }
                    _ => {}
                }
            }
            let guard = guard.ok_or("capacity assert! not found")?;
            let id_start = id_start.ok_or("ACTOR_IDS static not found")?;
            let id_step = id_step.ok_or("Identity::new(ACTOR_IDS.fetch_add(..)) not found")?;
            let la = lifecycle_args.ok_or("tokio::spawn(run_actor_lifecycle(..)) not found")?;
            if la.len() != 4 {
                return Err("run_actor_lifecycle arity".into());
            }
            let find_cap = |rx: &str| -> R<String> {
                chans
                    .iter()
                    .find(|(names, _)| names.len() == 2 && names[1] == rx)
                    .map(|(_, c)| c.clone())
                    .ok_or(format!("channel for {rx} not found"))
            };
            let mcap = find_cap(&la[2])?;
            let tcap = find_cap(&la[3])?;
            let task_ref_clone = la[1].ends_with(".clone()");
            Ok(format!(
                "def spawn_guard ({p} : Nat) : Bool := {guard}\n\
                 def mailbox_chan_cap ({p} : Nat) : Nat := {mcap}\n\
                 def term_chan_cap : Nat := {tcap}\n\
                 def actor_id_start : Nat := {id_start}\n\
                 def actor_id_step : Nat := {id_step}\n\
                 def spawn_task_gets_clone : Bool := {task_ref_clone}\n",
                p = rs2lean::ident(&cap_param)
            ))
        })(),
    );
}

// ------------------------------------------------------------------ metrics collector arithmetic
fn extract_metrics(repo: &std::path::Path, out: &mut Out) {
    let file = match parse_file(&repo.join("src/metrics/collector.rs")) {
        Ok(f) => f,
        Err(e) => {
            out.item("metrics", Err(e));
            return;
        }
    };
    let kept = ["message_count", "error_count", "total_processing_nanos", "max_processing_nanos"];
    out.item(
        "Metrics",
        Ok("structure Metrics where\n  message_count : Nat := 0\n  error_count : Nat := 0\n  total_processing_nanos : Nat := 0\n  max_processing_nanos : Nat := 0\n  deriving DecidableEq, Repr\n\n\
            structure MetricsSnapshot where\n  message_count : Nat\n  avg_processing_time : Nat\n  max_processing_time : Nat\n  error_count : Nat\n  deriving DecidableEq, Repr\n".to_string()),
    );
    let impls = inherent_impls(&file, "MetricsCollector");
    let fns: Vec<&syn::ImplItemFn> = impls.iter().flat_map(|im| impl_fns(im)).collect();
    let ctx = Ctx {
        self_name: "self".into(),
        atomic_self_fields: true,
        struct_fields_kept: vec![
            "message_count".into(),
            "avg_processing_time".into(),
            "max_processing_time".into(),
            "error_count".into(),
        ],
        ..Default::default()
    };
    // mutators
    for name in ["record_message", "record_error"] {
        out.item(
            &format!("Metrics.{name}"),
            (|| -> R<String> {
                let f = fns
                    .iter()
                    .find(|f| f.sig.ident == name)
                    .ok_or(format!("fn {name} not found"))?;
                let mut params = String::new();
                for a in f.sig.inputs.iter().skip(1) {
                    if let syn::FnArg::Typed(pt) = a {
                        let _ = write!(params, " ({} : Nat)", rs2lean::ident(&strip_ws(&tok(&*pt.pat))));
                    }
                }
                let mut body = String::new();
                for st in &f.block.stmts {
                    let (e, is_let_name) = match st {
                        Stmt::Local(l) => {
                            let init = &l.init.as_ref().ok_or("let without init")?.expr;
                            match &l.pat {
                                syn::Pat::Wild(_) => (&**init, None),
                                syn::Pat::Ident(pi) => (&**init, Some(pi.ident.to_string())),
                                _ => return Err("let pattern".into()),
                            }
                        }
                        Stmt::Expr(e, _) => (e, None),
                        _ => return Err("statement kind".into()),
                    };
                    if let Some(n) = is_let_name {
                        let _ = writeln!(body, "  let {} := {}", rs2lean::ident(&n), ctx.expr(e)?);
                        continue;
                    }
                    // self.F.op(args) or self.update_last_activity()
                    let m = match e {
                        Expr::MethodCall(m) => m,
                        other => return Err(format!("statement {}", tok(other))),
                    };
                    let op = m.method.to_string();
                    if op == "update_last_activity" {
                        continue; // wall-clock bookkeeping, not modelled
                    }
                    let field = match &*m.receiver {
                        Expr::Field(f) if strip_ws(&tok(&*f.base)) == "self" => strip_ws(&tok(&f.member)),
                        other => return Err(format!("receiver {}", tok(other))),
                    };
                    if !kept.contains(&field.as_str()) {
                        return Err(format!("unknown counter {field}"));
                    }
                    let newv = match op.as_str() {
                        "fetch_add" => format!("self.{field} + {}", ctx.expr(&m.args[0])?),
                        "fetch_sub" => format!("self.{field} - {}", ctx.expr(&m.args[0])?),
                        "fetch_max" => format!("Nat.max self.{field} {}", ctx.expr(&m.args[0])?),
                        "fetch_min" => format!("Nat.min self.{field} {}", ctx.expr(&m.args[0])?),
                        "store" => ctx.expr(&m.args[0])?,
                        "fetch_update" => {
                            let cl = match m.args.iter().nth(2) {
                                Some(Expr::Closure(c)) => c,
                                _ => return Err("fetch_update closure".into()),
                            };
                            let var = strip_ws(&tok(&cl.inputs[0]));
                            let inner = match &*cl.body {
                                Expr::Call(c) if strip_ws(&tok(&*c.func)) == "Some" => &c.args[0],
                                _ => return Err("fetch_update closure body".into()),
                            };
                            format!(
                                "(fun {} => {}) self.{field}",
                                rs2lean::ident(&var),
                                ctx.expr(inner)?
                            )
                        }
                        other => return Err(format!("atomic op {other}")),
                    };
                    let _ = writeln!(body, "  let self := {{ self with {field} := {newv} }}");
                }
                Ok(format!(
                    "def Metrics.{name} (self : Metrics){params} : Metrics :=\n{body}  self\n"
                ))
            })(),
        );
    }
    for (name, ret) in [
        ("message_count", "Nat"),
        ("error_count", "Nat"),
        ("avg_processing_time", "Nat"),
        ("max_processing_time", "Nat"),
        ("snapshot", "MetricsSnapshot"),
    ] {
        out.item(
            &format!("Metrics.{name}_"),
            (|| -> R<String> {
                let f = fns
                    .iter()
                    .find(|f| f.sig.ident == name)
                    .ok_or(format!("fn {name} not found"))?;
                let body = ctx.block_expr(&f.block)?;
                Ok(format!("def Metrics.{name}_ (self : Metrics) : {ret} :=\n  {body}\n"))
            })(),
        );
    }
    // the guard records exactly once, on drop
    out.item(
        "metrics_guard_drop",
        (|| -> R<String> {
            let drop_impl = file
                .items
                .iter()
                .find_map(|i| match i {
                    syn::Item::Impl(im)
                        if im
                            .trait_
                            .as_ref()
                            .map(|(_, p, _)| p.is_ident("Drop"))
                            .unwrap_or(false)
                            && strip_ws(&tok(&*im.self_ty)).starts_with("MessageProcessingGuard") =>
                    {
                        Some(im)
                    }
                    _ => None,
                })
                .ok_or("impl Drop for MessageProcessingGuard not found")?;
            let f = impl_fns(drop_impl)
                .into_iter()
                .find(|f| f.sig.ident == "drop")
                .ok_or("fn drop")?;
            let body = strip_ws(&tok(&f.block));
            let n = body.matches("record_message(").count();
            let elapsed = body.contains("record_message(self.start.elapsed())");
            let new_impl = inherent_impls(&file, "MessageProcessingGuard");
            let new_body = new_impl
                .iter()
                .flat_map(|im| impl_fns(im))
                .find(|f| f.sig.ident == "new")
                .map(|f| strip_ws(&tok(&f.block)))
                .unwrap_or_default();
            let new_records = new_body.matches("record_").count();
            Ok(format!(
                "def guard_drop_record_calls : Nat := {n}\ndef guard_drop_uses_elapsed : Bool := {elapsed}\ndef guard_new_record_calls : Nat := {new_records}\n"
            ))
        })(),
    );
}

pub fn extract_all(repo: &std::path::Path, out: &mut Out) {

    match parse_file(&repo.join("src/lib.rs")) {
        Ok(lib) => extract_config(&lib, out),
        Err(e) => out.item("lib.rs", Err(e)),
    }
    extract_metrics(repo, out);
    extract_more(repo, out);
}

// ------------------------------------------------------------------ E2: actor_ref.rs send paths
fn fn_by_name<'a>(fns: &[&'a syn::ImplItemFn], name: &str) -> Option<&'a syn::ImplItemFn> {
    fns.iter().copied().find(|f| f.sig.ident == name)
}

/// strips `#[cfg(feature = "tracing")]` statements and tracing/log macro statements
fn significant_stmts(b: &syn::Block) -> Vec<&Stmt> {
    b.stmts
        .iter()
        .filter(|st| {
            let attrs: Vec<&syn::Attribute> = match st {
                Stmt::Local(l) => l.attrs.iter().collect(),
                Stmt::Macro(m) => m.attrs.iter().collect(),
                Stmt::Expr(e, _) => expr_attrs(e),
                Stmt::Item(_) => vec![],
            };
            if attrs.iter().any(|a| strip_ws(&tok(*a)).contains("cfg(feature=\"tracing\")")) {
                return false;
            }
            if let Stmt::Macro(m) = st {
                let n = strip_ws(&tok(&m.mac.path));
                if ["debug", "info", "warn", "error", "trace", "tracing::debug", "tracing::info", "tracing::warn", "tracing::error"].contains(&n.as_str()) {
                    return false;
                }
            }
            true
        })
        .collect()
}

fn expr_attrs(e: &Expr) -> Vec<&syn::Attribute> {
    match e {
        Expr::Match(m) => m.attrs.iter().collect(),
        Expr::If(m) => m.attrs.iter().collect(),
        Expr::Block(m) => m.attrs.iter().collect(),
        Expr::Call(m) => m.attrs.iter().collect(),
        Expr::MethodCall(m) => m.attrs.iter().collect(),
        Expr::Macro(m) => m.attrs.iter().collect(),
        Expr::Let(m) => m.attrs.iter().collect(),
        Expr::Assign(m) => m.attrs.iter().collect(),
        _ => vec![],
    }
}

struct RecordSite {
    func: String,
    reason: String,
    label: String,
    errors: Vec<String>,
}

struct RecordVisitor {
    fn_stack: Vec<String>,
    sites: Vec<RecordSite>,
}
struct ErrFinder(Vec<String>);
impl<'ast> syn::visit::Visit<'ast> for ErrFinder {
    fn visit_expr_struct(&mut self, e: &'ast syn::ExprStruct) {
        let p: Vec<String> = e.path.segments.iter().map(|s| s.ident.to_string()).collect();
        if p.len() == 2 && p[0] == "Error" {
            self.0.push(p[1].clone());
        }
        syn::visit::visit_expr_struct(self, e);
    }
}
impl<'ast> syn::visit::Visit<'ast> for RecordVisitor {
    fn visit_impl_item_fn(&mut self, f: &'ast syn::ImplItemFn) {
        self.fn_stack.push(f.sig.ident.to_string());
        syn::visit::visit_impl_item_fn(self, f);
        self.fn_stack.pop();
    }
    fn visit_block(&mut self, b: &'ast syn::Block) {
        for st in &b.stmts {
            if let Stmt::Expr(Expr::Call(c), _) = st {
                if let Expr::Path(p) = &*c.func {
                    let ps = strip_ws(&tok(&p.path));
                    if ps.starts_with("crate::dead_letter::record") || ps.starts_with("dead_letter::record") {
                        let args: Vec<String> = c.args.iter().map(|a| strip_ws(&tok(a))).collect();
                        let mut ef = ErrFinder(vec![]);
                        syn::visit::Visit::visit_block(&mut ef, b);
                        self.sites.push(RecordSite {
                            func: self.fn_stack.last().cloned().unwrap_or_default(),
                            reason: args.get(1).map(|r| r.rsplit("::").next().unwrap_or("").to_string()).unwrap_or_default(),
                            label: args.get(2).map(|l| l.trim_matches('"').to_string()).unwrap_or_default(),
                            errors: ef.0,
                        });
                    }
                }
            }
        }
        syn::visit::visit_block(self, b);
    }
}

/// all `tokio::select!` macro invocations in a block, parsed
pub struct SelectArm {
    pub pat: String,
    pub fut: String,
    pub guard: Option<String>,
    pub body: Expr,
}
pub struct SelectParsed {
    pub biased: bool,
    pub arms: Vec<SelectArm>,
}
impl syn::parse::Parse for SelectParsed {
    fn parse(input: syn::parse::ParseStream) -> syn::Result<Self> {
        let mut biased = false;
        if input.peek(syn::Ident) && input.peek2(syn::Token![;]) {
            let id: syn::Ident = input.parse()?;
            if id == "biased" {
                biased = true;
            }
            input.parse::<syn::Token![;]>()?;
        }
        let mut arms = vec![];
        while !input.is_empty() {
            let pat = syn::Pat::parse_multi_with_leading_vert(input)?;
            input.parse::<syn::Token![=]>()?;
            let fut: Expr = input.parse()?;
            let mut guard = None;
            if input.peek(syn::Token![,]) && input.peek2(syn::Token![if]) {
                input.parse::<syn::Token![,]>()?;
                input.parse::<syn::Token![if]>()?;
                let g: Expr = input.parse()?;
                guard = Some(strip_ws(&tok(&g)));
            }
            input.parse::<syn::Token![=>]>()?;
            let body: Expr = input.parse()?;
            let _ = input.parse::<Option<syn::Token![,]>>();
            arms.push(SelectArm { pat: strip_ws(&tok(&pat)), fut: strip_ws(&tok(&fut)), guard, body });
        }
        Ok(SelectParsed { biased, arms })
    }
}

struct SelectFinder(Vec<SelectParsed>, Vec<String>);
impl<'ast> syn::visit::Visit<'ast> for SelectFinder {
    fn visit_macro(&mut self, m: &'ast syn::Macro) {
        let n = strip_ws(&tok(&m.path));
        if n == "tokio::select" || n == "select" {
            match syn::parse2::<SelectParsed>(m.tokens.clone()) {
                Ok(p) => self.0.push(p),
                Err(e) => self.1.push(e.to_string()),
            }
        }
        syn::visit::visit_macro(self, m);
    }
}

fn find_selects(b: &syn::Block) -> (Vec<SelectParsed>, Vec<String>) {
    let mut f = SelectFinder(vec![], vec![]);
    syn::visit::Visit::visit_block(&mut f, b);
    (f.0, f.1)
}

struct MatchFinder<'a>(Vec<&'a syn::ExprMatch>);
impl<'ast> syn::visit::Visit<'ast> for MatchFinder<'ast> {
    fn visit_expr_match(&mut self, m: &'ast syn::ExprMatch) {
        self.0.push(m);
        syn::visit::visit_expr_match(self, m);
    }
}

fn extract_actor_ref(repo: &std::path::Path, out: &mut Out) {
    let file = match parse_file(&repo.join("src/actor_ref.rs")) {
        Ok(f) => f,
        Err(e) => {
            out.item("actor_ref.rs", Err(e));
            return;
        }
    };
    let impls = inherent_impls(&file, "ActorRef");
    let fns: Vec<&syn::ImplItemFn> = impls.iter().flat_map(|im| impl_fns(im)).collect();

    // (a) the reply wait of ask / blocking_ask_no_timeout
    let wait_reply_ok = fn_by_name(&fns, "wait_reply")
        .map(|f| {
            let (sels, _) = find_selects(&f.block);
            sels.len() == 1
                && sels[0].biased
                && sels[0].arms.len() == 2
                && sels[0].arms[0].fut == "&mutreply_rx"
                && sels[0].arms[1].fut == "self.sender.closed()"
                && strip_ws(&tok(&sels[0].arms[0].body)) == "reply.ok()"
                && strip_ws(&tok(&sels[0].arms[1].body)) == "reply_rx.try_recv().ok()"
        })
        .unwrap_or(false);
    for (fname, item) in [("ask", "ask_wait_watches_closed"), ("blocking_ask_no_timeout", "blocking_ask_wait_watches_closed")] {
        out.item(
            item,
            (|| -> R<String> {
                let f = fn_by_name(&fns, fname).ok_or(format!("fn {fname} not found"))?;
                let mut mf = MatchFinder(vec![]);
                syn::visit::Visit::visit_block(&mut mf, &f.block);
                // the match whose arms downcast the reply
                let m = mf
                    .0
                    .iter()
                    .find(|m| {
                        let t = strip_ws(&tok(&m.arms[0].body));
                        t.contains("downcast::<T::Reply>()")
                    })
                    .ok_or("reply match not found")?;
                let scrut = strip_ws(&tok(&*m.expr));
                let v = match scrut.as_str() {
                    "reply_rx.await" | "reply_rx.blocking_recv()" => false,
                    "self.wait_reply(reply_rx).await.ok_or(())" | "futures::executor::block_on(self.wait_reply(reply_rx)).ok_or(())" => {
                        if !wait_reply_ok {
                            return Err("wait_reply helper has an unrecognised shape".into());
                        }
                        true
                    }
                    other => return Err(format!("reply wait `{other}`")),
                };
                Ok(format!("def {item} : Bool := {v}\n"))
            })(),
        );
    }

    // (b) envelope construction and channel call of the five push sites
    out.item(
        "send_paths",
        (|| -> R<String> {
            let mut rows = vec![];
            for (fname, kind) in [("tell", "tell"), ("ask", "ask"), ("stop", "stop"), ("blocking_tell_no_timeout", "tell"), ("blocking_ask_no_timeout", "ask")] {
                let f = fn_by_name(&fns, fname).ok_or(format!("fn {fname} not found"))?;
                let body = strip_ws(&tok(&f.block));
                let call = if body.contains("self.sender.send(") && body.contains(").await") {
                    "send"
                } else if body.contains("self.sender.blocking_send(") {
                    "blockingSend"
                } else {
                    return Err(format!("{fname}: mailbox send call not found"));
                };
                if body.contains("try_send(") || body.contains("tokio::spawn(") || body.contains("spawn(") && fname != "blocking_tell_no_timeout" && fname != "blocking_ask_no_timeout" && body.contains("thread::spawn") {
                    return Err(format!("{fname}: unexpected try_send/spawn"));
                }
                let (reply, embeds) = if kind == "stop" {
                    ("none", body.contains("MailboxMessage::StopGracefully(self.clone())"))
                } else {
                    let r = if body.contains("reply_channel:None") {
                        "none"
                    } else if body.contains("reply_channel:Some(reply_tx)") {
                        "some"
                    } else {
                        return Err(format!("{fname}: reply_channel field"));
                    };
                    (r, body.contains("actor_ref:self.clone()") && body.contains("payload:Box::new(msg)"))
                };
                if (kind == "ask") != (reply == "some") {
                    return Err(format!("{fname}: reply channel does not match the operation kind"));
                }
                let fresh_oneshot = kind != "ask" || body.contains("let(reply_tx,reply_rx)=oneshot::channel();");
                rows.push(format!(
                    "  ⟨\"{fname}\", .{kind}, .{call}, {}, {embeds}, {fresh_oneshot}⟩",
                    reply == "some"
                ));
            }
            Ok(format!(
                "inductive ChanCall | send | blockingSend\n  deriving DecidableEq, Repr\n\
                 inductive PathKind | tell | ask | stop\n  deriving DecidableEq, Repr\n\
                 structure SendPath where\n  method : String\n  kind : PathKind\n  call : ChanCall\n  replyChannel : Bool\n  embedsStrongRef : Bool\n  freshOneshot : Bool\n  deriving DecidableEq, Repr\n\
                 def send_paths : List SendPath := [\n{}\n]\n",
                rows.join(",\n")
            ))
        })(),
    );

    // (c) timeout wrappers: tokio::time::timeout(<the parameter>, self.<inner>(msg)) … map_err → Timeout
    out.item(
        "timeout_wrappers",
        (|| -> R<String> {
            let mut rows = vec![];
            for (fname, inner, recv) in [
                ("tell_with_timeout", "tell", "self"),
                ("ask_with_timeout", "ask", "self"),
                ("blocking_tell_with_timeout_impl", "tell", "self_clone"),
                ("blocking_ask_with_timeout_impl", "ask", "self_clone"),
            ] {
                let f = fn_by_name(&fns, fname).ok_or(format!("fn {fname} not found"))?;
                let body = strip_ws(&tok(&f.block));
                let want = format!("tokio::time::timeout(timeout,{recv}.{inner}(msg)).await.map_err(");
                let direct = body.contains(&want);
                // the duration parameter is used as is
                let dur_param = f.sig.inputs.iter().any(|a| strip_ws(&tok(a)) == "timeout:Duration");
                let maps_to_timeout = body.contains("Error::Timeout{");
                let question = body.contains("})?");
                let helper_rt = if recv == "self_clone" {
                    body.contains("std::thread::spawn(move||") && body.contains("new_current_thread().enable_time().build()") && body.contains("rx.recv()")
                } else {
                    true
                };
                rows.push(format!("  (\"{fname}\", \"{inner}\", {direct}, {dur_param}, {maps_to_timeout}, {question}, {helper_rt})"));
            }
            Ok(format!(
                "/-- (wrapper, inner method, wraps the inner future directly, duration = the parameter, elapsed ↦ Timeout, inner errors pass through `?`, helper thread has a timer runtime) -/\n\
                 def timeout_wrappers : List (String × String × Bool × Bool × Bool × Bool × Bool) := [\n{}\n]\n",
                rows.join(",\n")
            ))
        })(),
    );

    // ask_join = ask, then await the returned JoinHandle, mapping only a JoinError
    out.item(
        "ask_join_shape",
        (|| -> R<String> {
            let f = fn_by_name(&fns, "ask_join").ok_or("fn ask_join not found")?;
            let sig: Vec<String> = significant_stmts(&f.block).iter().map(|s| strip_ws(&tok(*s))).collect();
            let ok = sig
                == vec![
                    "letjoin_handle=self.ask(msg).await?;".to_string(),
                    "letresult=join_handle.await.map_err(|join_error|crate::Error::Join{identity:self.identity(),source:join_error,})?;".to_string(),
                    "Ok(result)".to_string(),
                ];
            Ok(format!("def ask_join_is_ask_then_join : Bool := {ok}\n"))
        })(),
    );
    // the async timeout wrappers consist of nothing but the wrapped call
    out.item(
        "timeout_wrappers_exact",
        (|| -> R<String> {
            let mut oks = vec![];
            for (fname, inner, label) in [("tell_with_timeout", "tell", "tell"), ("ask_with_timeout", "ask", "ask")] {
                let f = fn_by_name(&fns, fname).ok_or(format!("fn {fname} not found"))?;
                let sig: Vec<String> = significant_stmts(&f.block).iter().map(|s| strip_ws(&tok(*s))).collect();
                let want0 = format!("letresult=tokio::time::timeout(timeout,self.{inner}(msg)).await.map_err(|_|{{crate::dead_letter::record::<M>(self.identity(),crate::dead_letter::DeadLetterReason::Timeout,\"{label}\",);Error::Timeout{{identity:self.identity(),timeout,operation:\"{label}\".to_string(),}}}})?;");
                oks.push(sig == vec![want0, "result".to_string()]);
            }
            Ok(format!("def timeout_wrappers_exact : List Bool := [{}, {}]\n", oks[0], oks[1]))
        })(),
    );

    // (d) kill / stop result arms
    out.item(
        "kill_stop_arms",
        (|| -> R<String> {
            let k = fn_by_name(&fns, "kill").ok_or("fn kill not found")?;
            let mut mf = MatchFinder(vec![]);
            syn::visit::Visit::visit_block(&mut mf, &k.block);
            let m = mf.0.first().ok_or("kill: match not found")?;
            if strip_ws(&tok(&*m.expr)) != "self.terminate_sender.try_send(ControlSignal::Terminate)" {
                return Err(format!("kill scrutinee {}", tok(&*m.expr)));
            }
            let mut arms = vec![];
            for a in &m.arms {
                let p = strip_ws(&tok(&a.pat));
                let name = if p == "Ok(_)" {
                    "sent"
                } else if p.contains("TrySendError::Full") {
                    "full"
                } else if p.contains("TrySendError::Closed") {
                    "closed"
                } else {
                    return Err(format!("kill arm {p}"));
                };
                let sig = match &*a.body {
                    Expr::Block(b) => significant_stmts(&b.block).last().map(|s| strip_ws(&tok(*s))),
                    e => Some(strip_ws(&tok(e))),
                };
                let ok = sig.as_deref() == Some("Ok(())");
                arms.push(format!("(\"{name}\", {ok})"));
            }
            let s = fn_by_name(&fns, "stop").ok_or("fn stop not found")?;
            let mut mf = MatchFinder(vec![]);
            syn::visit::Visit::visit_block(&mut mf, &s.block);
            let m = mf.0.first().ok_or("stop: match not found")?;
            let mut sarms = vec![];
            for a in &m.arms {
                let p = strip_ws(&tok(&a.pat));
                let name = if p == "Ok(_)" { "sent" } else if p == "Err(_)" { "closed" } else { return Err(format!("stop arm {p}")) };
                let sig = match &*a.body {
                    Expr::Block(b) => significant_stmts(&b.block).last().map(|s| strip_ws(&tok(*s))),
                    e => Some(strip_ws(&tok(e))),
                };
                sarms.push(format!("(\"{name}\", {})", sig.as_deref() == Some("Ok(())")));
            }
            Ok(format!(
                "/-- arm of kill()'s try_send ↦ returns Ok(()) -/\ndef kill_arms : List (String × Bool) := [{}]\n\
                 /-- arm of stop()'s send ↦ returns Ok(()) -/\ndef stop_arms : List (String × Bool) := [{}]\n",
                arms.join(", "),
                sarms.join(", ")
            ))
        })(),
    );

    // (f) dead-letter census
    out.item(
        "dead_letter_census",
        (|| -> R<String> {
            let mut v = RecordVisitor { fn_stack: vec![], sites: vec![] };
            syn::visit::Visit::visit_file(&mut v, &file);
            let rows: Vec<String> = v
                .sites
                .iter()
                .map(|s| {
                    let fam = |x: &str| if x.contains("tell") { "tell" } else if x.contains("ask") { "ask" } else { "?" };
                    format!("  (\"{}\", \"{}\", \"{}\", [{}], {})", s.func, s.reason, s.label, s.errors.iter().map(|e| format!("\"{e}\"")).collect::<Vec<_>>().join(", "), fam(&s.func) == fam(&s.label) && fam(&s.func) != "?")
                })
                .collect();
            let record_plain = {
                let dl = parse_file(&repo.join("src/dead_letter.rs"))?;
                match find_fn(&dl, "record") {
                    Some(f) => {
                        let b = strip_ws(&tok(&f.block));
                        b.starts_with("{#[cfg(any(test,feature=\"test-utils\"))]DEAD_LETTER_COUNT.fetch_add(1,Ordering::Relaxed);tracing::warn!(")
                            && b.ends_with("\"Deadletter:messagecouldnotbedelivered\");}")
                            && b.matches(';').count() == 2
                            && !b.contains("return") && !b.contains("if")
                    }
                    None => false,
                }
            };
            // record calls anywhere else in the crate (the actor loop, the reply path, the trait objects):
            // a dead letter is recorded only by the operation that fails
            let mut elsewhere = 0usize;
            for other in ["src/lib.rs", "src/actor.rs", "src/handler.rs", "src/actor_control.rs", "src/actor_result.rs", "src/error.rs"] {
                if let Ok(t) = std::fs::read_to_string(repo.join(other)) {
                    let t = strip_ws(&t);
                    elsewhere += t.matches("dead_letter::record").count() + t.matches("dead_letter::{self").count() + t.matches("dead_letter::{record").count();
                }
            }
            Ok(format!(
                "/-- every `dead_letter::record` call: (enclosing fn, reason, operation label, Error variants built in the same block, label is of the method's family) -/\n\
                 def dead_letter_sites : List (String × String × String × List String × Bool) := [\n{}\n]\n\
                 /-- record calls (or imports of the recorder) outside src/actor_ref.rs -/\ndef dead_letter_sites_elsewhere : Nat := {elsewhere}\n\
                 /-- `dead_letter::record` is: bump the (test-utils) counter, emit the warn! event - unconditionally, nothing else -/\ndef dead_letter_record_unconditional : Bool := {record_plain}\n",
                rows.join(",\n")
            ))
        })(),
    );

    // (g) deprecated aliases and the dispatchers
    out.item(
        "blocking_dispatch",
        (|| -> R<String> {
            let mut rows = vec![];
            for (fname, want) in [
                ("tell_blocking", "self.blocking_tell(msg,None)"),
                ("ask_blocking", "self.blocking_ask(msg,None)"),
            ] {
                let f = fn_by_name(&fns, fname).ok_or(format!("fn {fname} not found"))?;
                let sig = significant_stmts(&f.block);
                let last = sig.last().map(|s| strip_ws(&tok(*s))).unwrap_or_default();
                let others_ok = sig[..sig.len().saturating_sub(1)].iter().all(|s| strip_ws(&tok(*s)) == "let_=timeout;");
                rows.push(format!("  (\"{fname}\", {})", last == want && others_ok));
            }
            for (fname, some_t, none_t) in [
                ("blocking_tell", "self.blocking_tell_with_timeout_impl(msg,timeout_duration)", "self.blocking_tell_no_timeout(msg)"),
                ("blocking_ask", "self.blocking_ask_with_timeout_impl(msg,timeout_duration)", "self.blocking_ask_no_timeout(msg)"),
            ] {
                let f = fn_by_name(&fns, fname).ok_or(format!("fn {fname} not found"))?;
                let body = strip_ws(&tok(&f.block));
                let ok = body == format!("{{matchtimeout{{Some(timeout_duration)=>{some_t},None=>{none_t},}}}}");
                rows.push(format!("  (\"{fname}\", {ok})"));
            }
            Ok(format!(
                "/-- deprecated aliases delegate with the timeout ignored; the dispatchers pick the timeout / no-timeout path -/\n\
                 def blocking_dispatch : List (String × Bool) := [\n{}\n]\n",
                rows.join(",\n")
            ))
        })(),
    );

    // (h,i) liveness predicates and identity copying
    out.item(
        "handle_algebra",
        (|| -> R<String> {
            let is_alive = fn_by_name(&fns, "is_alive").ok_or("ActorRef::is_alive not found")?;
            let strong_alive = strip_ws(&tok(&is_alive.block)).replace("//", "");
            let strong_alive_ok = strong_alive.contains("!self.sender.is_closed()&&!self.terminate_sender.is_closed()");
            let wimpls = inherent_impls(&file, "ActorWeak");
            let wfns: Vec<&syn::ImplItemFn> = wimpls.iter().flat_map(|im| impl_fns(im)).collect();
            let w_alive = fn_by_name(&wfns, "is_alive").ok_or("ActorWeak::is_alive not found")?;
            let weak_alive_ok = strip_ws(&tok(&w_alive.block)).contains("self.sender.strong_count()>0&&self.terminate_sender.strong_count()>0");
            let up = fn_by_name(&wfns, "upgrade").ok_or("ActorWeak::upgrade not found")?;
            let upb = strip_ws(&tok(&up.block));
            let upgrade_ok = upb.contains("letsender=self.sender.upgrade()?;")
                && upb.contains("letterminate_sender=self.terminate_sender.upgrade()?;")
                && upb.contains("Some(ActorRef{id:self.id,sender,terminate_sender,");
            let dg = fn_by_name(&fns, "downgrade").ok_or("ActorRef::downgrade not found")?;
            let dgb = strip_ws(&tok(&dg.block));
            let downgrade_ok = dgb.contains("id:this.id,") && dgb.contains("sender:this.sender.downgrade(),") && dgb.contains("terminate_sender:this.terminate_sender.downgrade(),");
            // Clone impls copy the id and clone both senders
            let mut clone_ok = vec![];
            for ty in ["ActorRef", "ActorWeak"] {
                let ok = file.items.iter().any(|i| match i {
                    syn::Item::Impl(im) if im.trait_.as_ref().map(|(_, p, _)| p.is_ident("Clone")).unwrap_or(false) && strip_ws(&tok(&*im.self_ty)).starts_with(ty) => {
                        let b = strip_ws(&tok(im));
                        // the impl defines `clone` and nothing else (a hand-written clone_from would be a second copy routine)
                        let only_clone = impl_fns(im).len() == 1 && impl_fns(im)[0].sig.ident == "clone";
                        only_clone && b.contains("id:self.id,") && b.contains("sender:self.sender.clone(),") && b.contains("terminate_sender:self.terminate_sender.clone(),")
                    }
                    _ => false,
                });
                clone_ok.push(ok);
            }
            let identity_ok = fn_by_name(&fns, "identity").map(|f| strip_ws(&tok(&f.block)) == "{self.id}").unwrap_or(false)
                && fn_by_name(&wfns, "identity").map(|f| strip_ws(&tok(&f.block)) == "{self.id}").unwrap_or(false);
            Ok(format!(
                "def strong_is_alive_both_open : Bool := {strong_alive_ok}\ndef weak_is_alive_both_counts : Bool := {weak_alive_ok}\n\
                 def upgrade_needs_both_senders : Bool := {upgrade_ok}\ndef downgrade_copies_id_and_weakens_both : Bool := {downgrade_ok}\n\
                 def clone_copies_id_strong : Bool := {}\ndef clone_copies_id_weak : Bool := {}\ndef identity_returns_id : Bool := {identity_ok}\n",
                clone_ok[0], clone_ok[1]
            ))
        })(),
    );
}

// ------------------------------------------------------------------ E3: forwarders of the erased traits
fn extract_forwarders(repo: &std::path::Path, out: &mut Out) {
    out.item(
        "forwarders",
        (|| -> R<String> {
            let mut rows = vec![];
            let mut conv_rows = vec![];
            for fname in ["src/handler.rs", "src/actor_control.rs"] {
                let file = parse_file(&repo.join(fname))?;
                for item in &file.items {
                    let im = match item {
                        syn::Item::Impl(im) => im,
                        _ => continue,
                    };
                    let (tr, self_ty) = match &im.trait_ {
                        Some((_, p, _)) => (p.segments.last().unwrap().ident.to_string(), strip_ws(&tok(&*im.self_ty))),
                        None => continue,
                    };
                    let target = if self_ty.starts_with("ActorRef<") { "ActorRef" } else if self_ty.starts_with("ActorWeak<") { "ActorWeak" } else { "" };
                    if tr == "From" {
                        // From<X> for Box<dyn Trait>
                        let arg = match &im.trait_.as_ref().unwrap().1.segments.last().unwrap().arguments {
                            syn::PathArguments::AngleBracketed(a) => strip_ws(&tok(&a.args)),
                            _ => String::new(),
                        };
                        let f = impl_fns(im).into_iter().find(|f| f.sig.ident == "from").ok_or("From without from")?;
                        let body = strip_ws(&tok(&f.block));
                        let param = match f.sig.inputs.first() {
                            Some(syn::FnArg::Typed(pt)) => strip_ws(&tok(&*pt.pat)),
                            _ => String::new(),
                        };
                        let by_ref = arg.starts_with('&');
                        let expect = if by_ref { format!("{{Box::new({param}.clone())}}") } else { format!("{{Box::new({param})}}") };
                        let dest = self_ty.replace("Box<dyn", "").replace('>', "");
                        let dest_tr = dest.split('<').next().unwrap_or("").to_string();
                        let src_weak = arg.contains("ActorWeak<");
                        let dst_weak = dest_tr.starts_with("Weak");
                        conv_rows.push(format!("  (\"{dest_tr}\", {by_ref}, {src_weak}, {dst_weak}, {})", body == expect));
                        continue;
                    }
                    if target.is_empty() || !["TellHandler", "AskHandler", "WeakTellHandler", "WeakAskHandler", "ActorControl", "WeakActorControl"].contains(&tr.as_str()) {
                        continue;
                    }
                    for f in impl_fns(im) {
                        let m = f.sig.ident.to_string();
                        if m == "debug_fmt" {
                            continue;
                        }
                        let params: Vec<String> = f
                            .sig
                            .inputs
                            .iter()
                            .filter_map(|a| match a {
                                syn::FnArg::Typed(pt) => Some(strip_ws(&tok(&*pt.pat))),
                                _ => None,
                            })
                            .collect();
                        let body = strip_ws(&tok(&f.block));
                        let body = &body[1..body.len() - 1];
                        let args = std::iter::once("self".to_string()).chain(params.iter().cloned()).collect::<Vec<_>>().join(",");
                        let verbatim = match m.as_str() {
                            "tell" | "tell_with_timeout" | "ask" | "ask_with_timeout" | "stop" => body == format!("{target}::{m}({args}).boxed()"),
                            "blocking_tell" | "blocking_ask" | "kill" | "identity" | "is_alive" => body == format!("{target}::{m}({args})"),
                            "clone_boxed" => body == "Box::new(self.clone())",
                            "downgrade" => body == "Box::new(ActorRef::downgrade(self))",
                            "as_control" | "as_weak_control" => body == "self",
                            "upgrade" => body.starts_with("ActorWeak::upgrade(self).map(|r|Box::new(r)asBox<dyn") && !body.contains("downgrade"),
                            _ => false,
                        };
                        rows.push(format!("  (\"{tr}\", \"{target}\", \"{m}\", {verbatim}, {}, {})", tr.starts_with("Weak"), target == "ActorWeak"));
                    }
                }
            }
            Ok(format!(
                "/-- (trait, implementing type, method, forwards verbatim to the inherent method with the same arguments, weak trait, weak type) -/\n\
                 def forwarders : List (String × String × String × Bool × Bool × Bool) := [\n{}\n]\n\
                 /-- From conversions: (target trait, from a reference, source is weak, target is weak, boxes the (cloned) value itself) -/\n\
                 def conversions : List (String × Bool × Bool × Bool × Bool) := [\n{}\n]\n",
                rows.join(",\n"),
                conv_rows.join(",\n")
            ))
        })(),
    );
}

// ------------------------------------------------------------------ E1: the lifecycle select loop
fn extract_lifecycle(repo: &std::path::Path, out: &mut Out) {
    out.item(
        "lifecycle",
        (|| -> R<String> {
            let file = parse_file(&repo.join("src/actor.rs"))?;
            let f = find_fn(&file, "run_actor_lifecycle").ok_or("fn run_actor_lifecycle not found")?;
            let (sels, errs) = find_selects(&f.block);
            if !errs.is_empty() {
                return Err(format!("select! parse: {}", errs.join("; ")));
            }
            if sels.len() != 1 {
                return Err(format!("{} select! blocks", sels.len()));
            }
            let sel = &sels[0];
            let kind = |a: &SelectArm| -> &'static str {
                if a.fut == "terminate_receiver.recv()" {
                    "term"
                } else if a.fut == "receiver.recv()" {
                    "mail"
                } else if a.fut.contains("actor.on_run(&actor_weak)") {
                    "run"
                } else {
                    "unknown"
                }
            };
            let order: Vec<String> = sel.arms.iter().map(|a| format!(".{}", kind(a))).collect();
            if order.iter().any(|o| o == ".unknown") {
                return Err(format!("unknown select arm among {:?}", sel.arms.iter().map(|a| a.fut.clone()).collect::<Vec<_>>()));
            }
            let guards: Vec<String> = sel.arms.iter().map(|a| format!("{:?}", a.guard.clone().unwrap_or_default())).collect();
            let body_of = |k: &str| sel.arms.iter().find(|a| kind(a) == k).map(|a| strip_ws(&tok(&a.body))).unwrap_or_default();
            let term = body_of("term");
            let mail = body_of("mail");
            let run = body_of("run");
            let term_killed_some = term.contains("Some(_)=>{") && term.split("Some(_)=>{").nth(1).map(|r| r.split('}').next().unwrap_or("").contains("killed=true;")).unwrap_or(false);
            let term_killed_none = term.contains("None=>{") && term.split("None=>{").nth(1).map(|r| r.split('}').next().unwrap_or("").contains("killed=false;")).unwrap_or(false);
            let term_on_stop_killed = term.matches("actor.on_stop(&actor_weak,killed)").count() == 1 && term.matches("on_stop(").count() == 1;
            let term_fail = term.contains("returnActorResult::Failed{actor:Some(actor),error:e,phase:FailurePhase::OnStop,killed,};");
            let term_break = term.ends_with("break;}");
            let mail_inline = mail.matches("payload.handle_message(&mutactor,actor_ref,reply_channel)").count() == 1 && !mail.contains("spawn(");
            let mail_stop_pat = mail.contains("Some(MailboxMessage::StopGracefully(_))|None=>");
            // the stop-marker / closed-mailbox arm first looks at the control channel once more (a kill() that arrived after
            // this pass polled it wins), then runs on_stop with the flag
            let mail_rechecks_kill = mail.contains("Some(MailboxMessage::StopGracefully(_))|None=>{ifterminate_receiver.try_recv().is_ok(){killed=true;}")
                && mail.matches("try_recv(").count() == 1
                && mail.matches("killed=").count() == 1;
            let mail_on_stop_false = mail.matches("actor.on_stop(&actor_weak,killed)").count() == 1 && mail.matches("on_stop(").count() == 1;
            let mail_fail = mail.contains("returnActorResult::Failed{actor:Some(actor),error:e,phase:FailurePhase::OnStop,killed,};");
            let mail_break = mail.contains("break;}");
            let run_true = run.contains("Ok(true)=>{}");
            let run_false = run.contains("Ok(false)=>{idle_enabled=false;}");
            let run_on_stop_false = run.matches("actor.on_stop(&actor_weak,false)").count() == 1 && run.matches("on_stop(").count() == 1;
            let run_phases = run.contains("FailurePhase::OnRunThenOnStop}else{FailurePhase::OnRun}");
            let run_fail = run.contains("returnActorResult::Failed{actor:Some(actor),error:e,phase,killed,};");
            let whole = strip_ws(&tok(&f.block));
            let start_fail = whole.contains("returnActorResult::Failed{actor:None,error:e,phase:FailurePhase::OnStart,killed:false,};");
            let drops_ref = whole.contains("letactor_weak=ActorRef::downgrade(&actor_ref);drop(actor_ref);");
            let closes = whole.contains("receiver.close();terminate_receiver.close();");
            let completed = whole.ends_with("ActorResult::Completed{actor,killed}}");
            let init_flags = whole.contains("letmutkilled=false;letmutidle_enabled=true;");
            let on_stop_total = whole.matches("on_stop(").count();
            Ok(format!(
                "inductive Branch | term | mail | run\n  deriving DecidableEq, Repr\n\
                 structure Lifecycle where\n  biased : Bool\n  order : List Branch\n  guards : List String\n  termKilledOnSignal : Bool\n  termNotKilledOnClosed : Bool\n  termOnStopWithFlag : Bool\n  termFailShape : Bool\n  termBreaks : Bool\n  mailHandlesInline : Bool\n  mailStopOrClosedArm : Bool\n  mailRechecksKill : Bool\n  mailOnStopWithFlag : Bool\n  mailFailShape : Bool\n  mailBreaks : Bool\n  runTrueContinues : Bool\n  runFalseDisables : Bool\n  runErrOnStopFalse : Bool\n  runErrPhases : Bool\n  runErrFailShape : Bool\n  startFailShape : Bool\n  dropsOwnRefAfterStart : Bool\n  closesBothAfterLoop : Bool\n  completedShape : Bool\n  initFlags : Bool\n  onStopCallSites : Nat\n  deriving DecidableEq, Repr\n\
                 def lifecycle : Lifecycle := {{ biased := {}, order := [{}], guards := [{}], termKilledOnSignal := {term_killed_some}, termNotKilledOnClosed := {term_killed_none}, termOnStopWithFlag := {term_on_stop_killed}, termFailShape := {term_fail}, termBreaks := {term_break}, mailHandlesInline := {mail_inline}, mailStopOrClosedArm := {mail_stop_pat}, mailRechecksKill := {mail_rechecks_kill}, mailOnStopWithFlag := {mail_on_stop_false}, mailFailShape := {mail_fail}, mailBreaks := {mail_break}, runTrueContinues := {run_true}, runFalseDisables := {run_false}, runErrOnStopFalse := {run_on_stop_false}, runErrPhases := {run_phases}, runErrFailShape := {run_fail}, startFailShape := {start_fail}, dropsOwnRefAfterStart := {drops_ref}, closesBothAfterLoop := {closes}, completedShape := {completed}, initFlags := {init_flags}, onStopCallSites := {on_stop_total} }}\n",
                sel.biased,
                order.join(", "),
                guards.join(", ")
            ))
        })(),
    );
    // where the metrics guard lives in the actor loop (C20)
    out.item(
        "metrics_placement",
        (|| -> R<String> {
            let file = parse_file(&repo.join("src/actor.rs"))?;
            let f = find_fn(&file, "run_actor_lifecycle").ok_or("fn run_actor_lifecycle not found")?;
            let (sels, _) = find_selects(&f.block);
            let sel = sels.first().ok_or("no select!")?;
            let mail = sel.arms.iter().find(|a| a.fut == "receiver.recv()").map(|a| strip_ws(&tok(&a.body))).ok_or("no mailbox arm")?;
            let whole = strip_ws(&tok(&f.block));
            let mut elsewhere = 0usize;
            for other in ["src/lib.rs", "src/actor_ref.rs", "src/handler.rs", "src/actor_control.rs"] {
                if let Ok(t) = std::fs::read_to_string(repo.join(other)) {
                    elsewhere += strip_ws(&t).matches("MessageProcessingGuard::new(").count();
                }
            }
            let sites = whole.matches("MessageProcessingGuard::new(").count() + elsewhere;
            let env_start = mail.find("Some(MailboxMessage::Envelope{").ok_or("no envelope arm")?;
            let env_end = mail.find("Some(MailboxMessage::StopGracefully").unwrap_or(mail.len());
            let env = if env_start < env_end { &mail[env_start..env_end] } else { "" };
            let guard_txt = "#[cfg(feature=\"metrics\")]letmetrics_ref=actor_ref.clone();#[cfg(feature=\"metrics\")]let_metrics_guard=crate::metrics::collector::MessageProcessingGuard::new(metrics_ref.metrics_collector());";
            let g = env.find(guard_txt);
            let h = env.find("payload.handle_message(&mutactor,actor_ref,reply_channel)");
            let before = matches!((g, h), (Some(g), Some(h)) if g < h);
            let kept = !env.contains("drop(_metrics_guard") && !env.contains("forget(_metrics_guard") && !env.contains("drop(metrics_ref");
            // nothing that can leave the arm early between the guard and the handler
            let straight = match (g, h) {
                (Some(g), Some(h)) if g < h => {
                    let between = &env[g + guard_txt.len()..h];
                    !between.contains("continue") && !between.contains("break") && !between.contains("return") && !between.contains(".await")
                }
                _ => false,
            };
            Ok(format!(
                "def metrics_guard_sites : Nat := {sites}
def metrics_guard_before_handler_in_envelope_arm : Bool := {before}
def metrics_guard_lives_to_arm_end : Bool := {kept}
def metrics_guard_straight_to_handler : Bool := {straight}
"
            ))
        })(),
    );
    // handle_message: on_tell_result only on the no-reply-channel branch
    out.item(
        "handle_message",
        (|| -> R<String> {
            let file = parse_file(&repo.join("src/lib.rs"))?;
            let whole = strip_ws(&tok(&file));
            let i = whole.find("fnhandle_message(self:Box<Self>").ok_or("handle_message not found")?;
            let j = whole[i..].rfind(".boxed()").map(|x| x + i).unwrap_or(whole.len());
            // take the impl body: from the second occurrence (the blanket impl)
            let k = whole[i + 10..].find("fnhandle_message(self:Box<Self>").map(|x| x + i + 10).ok_or("blanket impl of handle_message not found")?;
            let body = &whole[k..j.max(k)];
            let calls_handle = body.contains("letresult=Message::handle(actor,*self,&actor_ref).await;");
            let reply_branch = body.contains("ifletSome(channel)=reply_channel{matchchannel.send(Box::new(result))");
            let tell_branch = body.contains("}else{<AasMessage<T>>::on_tell_result(&result,&actor_ref);}");
            let once = body.matches("on_tell_result(").count() == 1;
            Ok(format!(
                "def handle_calls_handler_once : Bool := {calls_handle}\ndef reply_sent_on_own_channel : Bool := {reply_branch}\ndef on_tell_result_only_without_reply_channel : Bool := {}\n",
                tell_branch && once
            ))
        })(),
    );
}

pub fn extract_more(repo: &std::path::Path, out: &mut Out) {
    extract_actor_ref(repo, out);
    extract_forwarders(repo, out);
    extract_lifecycle(repo, out);
    extract_deadlock_protocol(repo, out);
}

// ------------------------------------------------------------------ E8 (second half): the ask-side wait-for protocol
fn extract_deadlock_protocol(repo: &std::path::Path, out: &mut Out) {
    out.item(
        "ask_protocol",
        (|| -> R<String> {
            let aref = strip_ws(&std::fs::read_to_string(repo.join("src/actor_ref.rs")).map_err(|e| e.to_string())?);
            let lib = strip_ws(&std::fs::read_to_string(repo.join("src/lib.rs")).map_err(|e| e.to_string())?);
            let actor = strip_ws(&std::fs::read_to_string(repo.join("src/actor.rs")).map_err(|e| e.to_string())?);
            // the ask block
            let i = aref.find("let_guard={").ok_or("ask: `let _guard = {` not found")?;
            let j = aref[i..].find("let(reply_tx,reply_rx)=oneshot::channel();").map(|x| x + i).ok_or("ask: end of guard block not found")?;
            let blk = &aref[i..j];
            let reads_ctx = blk.contains("letcaller=crate::CURRENT_ACTOR.try_with(|id|*id).ok();");
            let untracked = blk.contains("ifletSome(caller)=caller{") && blk.contains("}else{None}");
            let one_lock = blk.matches("wait_for_graph().lock()").count() == 1;
            let check = blk.contains("ifcaller.id==callee.id||crate::has_path(&graph,callee.id,caller.id){");
            let fmt_then_unlock_then_panic = {
                let a = blk.find("letcycle=crate::format_cycle_path(&graph,caller,callee);");
                let b = blk.find("drop(graph);");
                let c = blk.find("panic!(");
                matches!((a, b, c), (Some(a), Some(b), Some(c)) if a < b && b < c)
            };
            let tokened = blk.contains("lettoken=crate::next_wait_token();graph.insert(caller.id,(callee,token));Some(crate::WaitForGuard(caller.id,token))");
            let untokened = blk.contains("graph.insert(caller.id,callee);Some(crate::WaitForGuard(caller.id))");
            let insert_after_check = match (blk.find("panic!("), blk.find("graph.insert(")) {
                (Some(p), Some(q)) => p < q,
                _ => false,
            };
            // reply sender carries the edge
            let reply_carries_edge = aref.contains("letreply_tx=crate::ReplySender{tx:reply_tx,edge:_guard.as_ref().map(|g|(g.0,g.1)),};");
            let reply_send_clears = lib.contains("ifletSome((caller,token))=self.edge{clear_wait_for(caller,token);}self.tx.send(value)");
            let clear_token_matched = lib.contains("ifletOk(mutgraph)=wait_for_graph().lock(){ifgraph.get(&caller).map(|(_,t)|*t)==Some(token){graph.remove(&caller);}}");
            let guard_drop_clears_tok = lib.contains("implDropforWaitForGuard{fndrop(&mutself){clear_wait_for(self.0,self.1);}}");
            let guard_drop_clears_plain = lib.contains("implDropforWaitForGuard{fndrop(&mutself){ifletOk(mutgraph)=wait_for_graph().lock(){graph.remove(&self.0);}}}");
            let at_reply = tokened && reply_carries_edge && reply_send_clears && clear_token_matched && guard_drop_clears_tok;
            let at_resume_only = untokened && guard_drop_clears_plain && !reply_send_clears;
            if !at_reply && !at_resume_only {
                return Err("edge removal protocol not recognised (neither token-matched removal at reply + guard, nor guard only)".into());
            }
            // scopes around the four hooks
            let scopes = actor.matches("run_with_actor_scope!(actor_id,").count();
            let on_run_scope = actor.matches("with_actor_scope!(actor_id,actor.on_run(&actor_weak)").count();
            Ok(format!(
                "def ask_reads_task_local : Bool := {reads_ctx}\ndef ask_untracked_without_context : Bool := {untracked}\n\
                 def ask_check_and_insert_under_one_lock : Bool := {}\ndef ask_checks_self_or_path_callee_to_caller : Bool := {check}\n\
                 def ask_unlocks_before_panic : Bool := {fmt_then_unlock_then_panic}\n\
                 /-- the reply sender clears the asker's edge (token-matched) before it sends; the asker-side guard covers the rest -/\n\
                 def edge_removed_at_reply : Bool := {at_reply}\ndef guard_removes_on_drop : Bool := {}\n\
                 def hook_scopes_awaited : Nat := {scopes}\ndef on_run_scoped : Nat := {on_run_scope}\n",
                one_lock && insert_after_check,
                guard_drop_clears_tok || guard_drop_clears_plain
            ))
        })(),
    );
}
