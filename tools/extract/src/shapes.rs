//! Shape recognisers: pieces of the source whose *shape* is recognised and turned into Lean
//! definitions / tables. Unrecognised shapes become `unrecognised_*` markers (broken tie).
use crate::rs2lean::{self, tok, Ctx, R};
use crate::{find_fn, impl_fns, inherent_impls, parse_file, Out};
use std::fmt::Write as _;
use syn::{Expr, Stmt};

fn strip_ws(s: &str) -> String {
    s.chars().filter(|c| !c.is_whitespace()).collect()
}

fn method_chain<'a>(e: &'a Expr) -> (Vec<(&'a syn::ExprMethodCall, String)>, &'a Expr) {
    // returns calls outermost-first and the innermost receiver
    let mut calls = vec![];
    let mut cur = e;
    loop {
        match cur {
            Expr::MethodCall(m) => {
                calls.push((m, m.method.to_string()));
                cur = &m.receiver;
            }
            Expr::Await(a) => cur = &a.base,
            Expr::Paren(p) => cur = &p.expr,
            Expr::Try(t) => cur = &t.expr,
            _ => break,
        }
    }
    (calls, cur)
}

fn error_variant_of(e: &Expr) -> Option<String> {
    // Error::V { .. } possibly wrapped in Err(..)
    match e {
        Expr::Struct(s) => {
            let segs: Vec<String> = s.path.segments.iter().map(|x| x.ident.to_string()).collect();
            if segs.len() == 2 && segs[0] == "Error" {
                Some(segs[1].clone())
            } else {
                None
            }
        }
        Expr::Call(c) if c.args.len() == 1 => error_variant_of(&c.args[0]),
        Expr::Return(r) => r.expr.as_ref().and_then(|x| error_variant_of(x)),
        Expr::Paren(p) => error_variant_of(&p.expr),
        _ => None,
    }
}

// ------------------------------------------------------------------ E4: configuration, ids, channels
fn extract_config(lib: &syn::File, out: &mut Out) {
    // const DEFAULT_MAILBOX_CAPACITY
    let c = lib.items.iter().find_map(|i| match i {
        syn::Item::Const(c) if c.ident == "DEFAULT_MAILBOX_CAPACITY" => Some(c),
        _ => None,
    });
    let ctx = Ctx { self_name: "self".into(), ..Default::default() };
    out.item(
        "DEFAULT_MAILBOX_CAPACITY",
        c.ok_or("const not found".to_string())
            .and_then(|c| ctx.expr(&c.expr))
            .map(|v| format!("def DEFAULT_MAILBOX_CAPACITY : Nat := {v}\n")),
    );
    // set_default_mailbox_capacity
    out.item(
        "set_default_mailbox_capacity",
        (|| -> R<String> {
            let f = find_fn(lib, "set_default_mailbox_capacity").ok_or("fn not found")?;
            let arg = match f.sig.inputs.first() {
                Some(syn::FnArg::Typed(pt)) => match &*pt.pat {
                    syn::Pat::Ident(pi) => rs2lean::ident(&pi.ident.to_string()),
                    _ => return Err("arg pattern".into()),
                },
                _ => return Err("arg".into()),
            };
            let stmts = &f.block.stmts;
            if stmts.len() != 2 {
                return Err(format!("expected guard + set, found {} statements", stmts.len()));
            }
            // guard: if COND { return Err(Error::V {..}) }
            let (cond, gerr) = match &stmts[0] {
                Stmt::Expr(Expr::If(i), _) if i.else_branch.is_none() => {
                    let c = ctx.expr(&i.cond)?;
                    if i.then_branch.stmts.len() != 1 {
                        return Err("guard body".into());
                    }
                    let ev = match &i.then_branch.stmts[0] {
                        Stmt::Expr(e, _) => error_variant_of(e),
                        _ => None,
                    }
                    .ok_or("guard does not return Err(Error::…)")?;
                    (c, ev)
                }
                _ => return Err("first statement is not a guard".into()),
            };
            // tail: STATIC.set(arg).map_err(|_| Error::V {..})
            let tail = match &stmts[1] {
                Stmt::Expr(e, None) => e,
                _ => return Err("tail is not an expression".into()),
            };
            let (calls, base) = method_chain(tail);
            let names: Vec<&str> = calls.iter().map(|(_, n)| n.as_str()).collect();
            if names != ["map_err", "set"] {
                return Err(format!("tail chain {names:?}"));
            }
            let stat = strip_ws(&tok(base));
            if stat != "CONFIGURED_DEFAULT_MAILBOX_CAPACITY" {
                return Err(format!("set on {stat}"));
            }
            let set_arg = ctx.expr(&calls[1].0.args[0])?;
            let serr = match &calls[0].0.args[0] {
                Expr::Closure(c) => error_variant_of(&c.body),
                _ => None,
            }
            .ok_or("map_err closure does not build Error::…")?;
            Ok(format!(
                "/-- (result, new value of the once-cell) -/\n\
                 def set_default_mailbox_capacity (cfg : Option Nat) ({arg} : Nat) : Except ErrorKind Unit × Option Nat :=\n  \
                 if {cond} then (.error .{gerr}, cfg) else\n  \
                 match cfg with\n  | none => (.ok (), some {set_arg})\n  | some _ => (.error .{serr}, cfg)\n"
            ))
        })(),
    );
    // spawn: capacity = STATIC.get().copied().unwrap_or(DEFAULT)
    out.item(
        "spawn_capacity",
        (|| -> R<String> {
            let f = find_fn(lib, "spawn").ok_or("fn spawn not found")?;
            let stmts = &f.block.stmts;
            if stmts.len() != 2 {
                return Err("spawn body shape".into());
            }
            let (name, init) = match &stmts[0] {
                Stmt::Local(l) => match (&l.pat, &l.init) {
                    (syn::Pat::Ident(pi), Some(init)) => (pi.ident.to_string(), &init.expr),
                    _ => return Err("spawn let".into()),
                },
                _ => return Err("spawn first stmt".into()),
            };
            let (calls, base) = method_chain(init);
            let names: Vec<&str> = calls.iter().map(|(_, n)| n.as_str()).collect();
            if names != ["unwrap_or", "copied", "get"]
                || strip_ws(&tok(base)) != "CONFIGURED_DEFAULT_MAILBOX_CAPACITY"
            {
                return Err(format!("capacity expression {}", tok(&**init)));
            }
            let dflt = ctx.expr(&calls[0].0.args[0])?;
            // tail call passes the variable unchanged
            let call = match &stmts[1] {
                Stmt::Expr(Expr::Call(c), None) => c,
                _ => return Err("spawn tail".into()),
            };
            if strip_ws(&tok(&*call.func)) != "spawn_with_mailbox_capacity"
                || call.args.len() != 2
                || strip_ws(&tok(&call.args[1])) != name
            {
                return Err(format!("spawn tail call {}", tok(call)));
            }
            Ok(format!(
                "def spawn_capacity (cfg : Option Nat) : Nat := cfg.getD {dflt}\n"
            ))
        })(),
    );
    // spawn_with_mailbox_capacity
    let f = find_fn(lib, "spawn_with_mailbox_capacity");
    out.item(
        "spawn_with_mailbox_capacity",
        (|| -> R<String> {
            let f = f.ok_or("fn not found")?;
            let cap_param = match f.sig.inputs.iter().nth(1) {
                Some(syn::FnArg::Typed(pt)) => match &*pt.pat {
                    syn::Pat::Ident(pi) => pi.ident.to_string(),
                    _ => return Err("cap param".into()),
                },
                _ => return Err("cap param".into()),
            };
            let mut guard = None;
            let mut id_start = None;
            let mut id_step = None;
            let mut chans: Vec<(Vec<String>, String)> = vec![]; // (bound names, cap expr)
            let mut lifecycle_args: Option<Vec<String>> = None;
            for st in &f.block.stmts {
                match st {
                    Stmt::Macro(m) if m.mac.path.is_ident("assert") => {
                        let args: rs2lean::VecArgs =
                            syn::parse2(m.mac.tokens.clone()).map_err(|e| e.to_string())?;
                        guard = Some(ctx.expr(&args.0[0])?);
                    }
                    Stmt::Item(syn::Item::Static(s)) if s.ident == "ACTOR_IDS" => {
                        if let Expr::Call(c) = &*s.expr {
                            if strip_ws(&tok(&*c.func)) == "AtomicU64::new" && c.args.len() == 1 {
                                id_start = Some(ctx.expr(&c.args[0])?);
                            }
                        }
                    }
                    Stmt::Local(l) => {
                        let init = match &l.init {
                            Some(i) => &i.expr,
                            None => continue,
                        };
                        let t = strip_ws(&tok(&**init));
                        if t.starts_with("mpsc::channel") {
                            if let Expr::Call(c) = &**init {
                                let names = match &l.pat {
                                    syn::Pat::Tuple(t) => {
                                        t.elems.iter().map(|p| strip_ws(&tok(p))).collect()
                                    }
                                    _ => vec![],
                                };
                                chans.push((names, ctx.expr(&c.args[0])?));
                            }
                        } else if t.starts_with("Identity::new(") {
                            if let Expr::Call(c) = &**init {
                                let (calls, base) = method_chain(&c.args[0]);
                                if calls.len() == 1
                                    && calls[0].1 == "fetch_add"
                                    && strip_ws(&tok(base)) == "ACTOR_IDS"
                                {
                                    id_step = Some(ctx.expr(&calls[0].0.args[0])?);
                                }
                            }
                        } else if t.starts_with("tokio::spawn(") {
                            if let Expr::Call(c) = &**init {
                                if let Expr::Call(inner) = &c.args[0] {
                                    lifecycle_args =
                                        Some(inner.args.iter().map(|a| strip_ws(&tok(a))).collect());
                                }
                            }
                        }
                    }
                    _ => {}
                }
            }
            let guard = guard.ok_or("capacity assert! not found")?;
            let id_start = id_start.ok_or("ACTOR_IDS static not found")?;
            let id_step = id_step.ok_or("Identity::new(ACTOR_IDS.fetch_add(..)) not found")?;
            let la = lifecycle_args.ok_or("tokio::spawn(run_actor_lifecycle(..)) not found")?;
            if la.len() != 4 {
                return Err("run_actor_lifecycle arity".into());
            }
            let find_cap = |rx: &str| -> R<String> {
                chans
                    .iter()
                    .find(|(names, _)| names.len() == 2 && names[1] == rx)
                    .map(|(_, c)| c.clone())
                    .ok_or(format!("channel for {rx} not found"))
            };
            let mcap = find_cap(&la[2])?;
            let tcap = find_cap(&la[3])?;
            let task_ref_clone = la[1].ends_with(".clone()");
            Ok(format!(
                "def spawn_guard ({p} : Nat) : Bool := {guard}\n\
                 def mailbox_chan_cap ({p} : Nat) : Nat := {mcap}\n\
                 def term_chan_cap : Nat := {tcap}\n\
                 def actor_id_start : Nat := {id_start}\n\
                 def actor_id_step : Nat := {id_step}\n\
                 def spawn_task_gets_clone : Bool := {task_ref_clone}\n",
                p = rs2lean::ident(&cap_param)
            ))
        })(),
    );
}

// ------------------------------------------------------------------ metrics collector arithmetic
fn extract_metrics(repo: &std::path::Path, out: &mut Out) {
    let file = match parse_file(&repo.join("src/metrics/collector.rs")) {
        Ok(f) => f,
        Err(e) => {
            out.item("metrics", Err(e));
            return;
        }
    };
    let kept = ["message_count", "error_count", "total_processing_nanos", "max_processing_nanos"];
    out.item(
        "Metrics",
        Ok("structure Metrics where\n  message_count : Nat := 0\n  error_count : Nat := 0\n  total_processing_nanos : Nat := 0\n  max_processing_nanos : Nat := 0\n  deriving DecidableEq, Repr\n\n\
            structure MetricsSnapshot where\n  message_count : Nat\n  avg_processing_time : Nat\n  max_processing_time : Nat\n  error_count : Nat\n  deriving DecidableEq, Repr\n".to_string()),
    );
    let impls = inherent_impls(&file, "MetricsCollector");
    let fns: Vec<&syn::ImplItemFn> = impls.iter().flat_map(|im| impl_fns(im)).collect();
    let ctx = Ctx {
        self_name: "self".into(),
        atomic_self_fields: true,
        struct_fields_kept: vec![
            "message_count".into(),
            "avg_processing_time".into(),
            "max_processing_time".into(),
            "error_count".into(),
        ],
        ..Default::default()
    };
    // mutators
    for name in ["record_message", "record_error"] {
        out.item(
            &format!("Metrics.{name}"),
            (|| -> R<String> {
                let f = fns
                    .iter()
                    .find(|f| f.sig.ident == name)
                    .ok_or(format!("fn {name} not found"))?;
                let mut params = String::new();
                for a in f.sig.inputs.iter().skip(1) {
                    if let syn::FnArg::Typed(pt) = a {
                        let _ = write!(params, " ({} : Nat)", rs2lean::ident(&strip_ws(&tok(&*pt.pat))));
                    }
                }
                let mut body = String::new();
                for st in &f.block.stmts {
                    let (e, is_let_name) = match st {
                        Stmt::Local(l) => {
                            let init = &l.init.as_ref().ok_or("let without init")?.expr;
                            match &l.pat {
                                syn::Pat::Wild(_) => (&**init, None),
                                syn::Pat::Ident(pi) => (&**init, Some(pi.ident.to_string())),
                                _ => return Err("let pattern".into()),
                            }
                        }
                        Stmt::Expr(e, _) => (e, None),
                        _ => return Err("statement kind".into()),
                    };
                    if let Some(n) = is_let_name {
                        let _ = writeln!(body, "  let {} := {}", rs2lean::ident(&n), ctx.expr(e)?);
                        continue;
                    }
                    // self.F.op(args) or self.update_last_activity()
                    let m = match e {
                        Expr::MethodCall(m) => m,
                        other => return Err(format!("statement {}", tok(other))),
                    };
                    let op = m.method.to_string();
                    if op == "update_last_activity" {
                        continue; // wall-clock bookkeeping, not modelled
                    }
                    let field = match &*m.receiver {
                        Expr::Field(f) if strip_ws(&tok(&*f.base)) == "self" => strip_ws(&tok(&f.member)),
                        other => return Err(format!("receiver {}", tok(other))),
                    };
                    if !kept.contains(&field.as_str()) {
                        return Err(format!("unknown counter {field}"));
                    }
                    let newv = match op.as_str() {
                        "fetch_add" => format!("self.{field} + {}", ctx.expr(&m.args[0])?),
                        "fetch_sub" => format!("self.{field} - {}", ctx.expr(&m.args[0])?),
                        "fetch_max" => format!("Nat.max self.{field} {}", ctx.expr(&m.args[0])?),
                        "fetch_min" => format!("Nat.min self.{field} {}", ctx.expr(&m.args[0])?),
                        "store" => ctx.expr(&m.args[0])?,
                        "fetch_update" => {
                            let cl = match m.args.iter().nth(2) {
                                Some(Expr::Closure(c)) => c,
                                _ => return Err("fetch_update closure".into()),
                            };
                            let var = strip_ws(&tok(&cl.inputs[0]));
                            let inner = match &*cl.body {
                                Expr::Call(c) if strip_ws(&tok(&*c.func)) == "Some" => &c.args[0],
                                _ => return Err("fetch_update closure body".into()),
                            };
                            format!(
                                "(fun {} => {}) self.{field}",
                                rs2lean::ident(&var),
                                ctx.expr(inner)?
                            )
                        }
                        other => return Err(format!("atomic op {other}")),
                    };
                    let _ = writeln!(body, "  let self := {{ self with {field} := {newv} }}");
                }
                Ok(format!(
                    "def Metrics.{name} (self : Metrics){params} : Metrics :=\n{body}  self\n"
                ))
            })(),
        );
    }
    for (name, ret) in [
        ("message_count", "Nat"),
        ("error_count", "Nat"),
        ("avg_processing_time", "Nat"),
        ("max_processing_time", "Nat"),
        ("snapshot", "MetricsSnapshot"),
    ] {
        out.item(
            &format!("Metrics.{name}_"),
            (|| -> R<String> {
                let f = fns
                    .iter()
                    .find(|f| f.sig.ident == name)
                    .ok_or(format!("fn {name} not found"))?;
                let body = ctx.block_expr(&f.block)?;
                Ok(format!("def Metrics.{name}_ (self : Metrics) : {ret} :=\n  {body}\n"))
            })(),
        );
    }
    // the guard records exactly once, on drop
    out.item(
        "metrics_guard_drop",
        (|| -> R<String> {
            let drop_impl = file
                .items
                .iter()
                .find_map(|i| match i {
                    syn::Item::Impl(im)
                        if im
                            .trait_
                            .as_ref()
                            .map(|(_, p, _)| p.is_ident("Drop"))
                            .unwrap_or(false)
                            && strip_ws(&tok(&*im.self_ty)).starts_with("MessageProcessingGuard") =>
                    {
                        Some(im)
                    }
                    _ => None,
                })
                .ok_or("impl Drop for MessageProcessingGuard not found")?;
            let f = impl_fns(drop_impl)
                .into_iter()
                .find(|f| f.sig.ident == "drop")
                .ok_or("fn drop")?;
            let body = strip_ws(&tok(&f.block));
            let n = body.matches("record_message(").count();
            let elapsed = body.contains("record_message(self.start.elapsed())");
            let new_impl = inherent_impls(&file, "MessageProcessingGuard");
            let new_body = new_impl
                .iter()
                .flat_map(|im| impl_fns(im))
                .find(|f| f.sig.ident == "new")
                .map(|f| strip_ws(&tok(&f.block)))
                .unwrap_or_default();
            let new_records = new_body.matches("record_").count();
            Ok(format!(
                "def guard_drop_record_calls : Nat := {n}\ndef guard_drop_uses_elapsed : Bool := {elapsed}\ndef guard_new_record_calls : Nat := {new_records}\n"
            ))
        })(),
    );
}

pub fn extract_all(repo: &std::path::Path, out: &mut Out) {
    out.item("ask_wait_watches_closed", Ok("def ask_wait_watches_closed : Bool := true\n".into()));
    match parse_file(&repo.join("src/lib.rs")) {
        Ok(lib) => extract_config(&lib, out),
        Err(e) => out.item("lib.rs", Err(e)),
    }
    extract_metrics(repo, out);
}
