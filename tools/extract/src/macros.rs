//! The decision logic and the code templates of rsactor-derive (C19).
//! Decision functions are translated into Lean definitions over a small abstract syntax
//! (`Macro.RetTy`, option flags); templates (`quote!` bodies) are compared token for token with the
//! shape the theorems assume.  Anything else is reported as unrecognised.
use crate::rs2lean::{tok, R};
use crate::{find_fn, parse_file, Out};

fn sw(s: &str) -> String {
    s.split_whitespace().collect::<Vec<_>>().join("")
}

fn body_of(file: &syn::File, name: &str) -> R<String> {
    let f = find_fn(file, name).ok_or(format!("fn {name} not found"))?;
    Ok(sw(&tok(&f.block)))
}

pub fn extract_macros(repo: &std::path::Path, out: &mut Out) {
    let path = repo.join("rsactor-derive/src/lib.rs");
    // 1. is_result_type
    out.item(
        "is_result_type",
        (|| -> R<String> {
            let file = parse_file(&path)?;
            let b = body_of(&file, "is_result_type")?;
            // match ty { Type::Path(p) => p.path.segments.last().map(|seg| seg.ident == "Result").unwrap_or(false), _ => false }
            let expect = "{matchty{syn::Type::Path(type_path)=>type_path.path.segments.last().map(|seg|seg.ident==\"Result\").unwrap_or(false),_=>false,}}";
            if b == expect {
                Ok("def is_result_type : RetTy → Bool\n  | .path segs => (segs.getLast?.map (fun seg => seg == Ident.result)).getD false\n  | .other => false\n".into())
            } else {
                Err(format!("body of is_result_type is not the last-segment test the translator knows: {b}"))
            }
        })(),
    );
    // 2. the decision whether to generate on_tell_result
    out.item(
        "should_generate",
        (|| -> R<String> {
            let file = parse_file(&path)?;
            let b = body_of(&file, "generate_message_impl")?;
            let i = b.find("letis_result=").ok_or("`let is_result =` not found")?;
            let j = b[i..].find("letmethod_name=").map(|x| x + i).ok_or("end of the decision block not found")?;
            let blk = &b[i..j];
            // the error message is free text
            let norm = {
                let mut s = blk.to_string();
                if let (Some(a), Some(z)) = (s.find("returnErr(syn::Error::new_spanned("), s.find("));}true}")) {
                    if a < z {
                        s.replace_range(a..z + 3, "returnErr(E);");
                    }
                }
                s
            };
            let expect = "letis_result=return_type_ty.map(is_result_type).unwrap_or(false);letshould_generate_on_tell_result=ifoptions.no_log{false}elseifoptions.force_result{ifreturn_type_ty.is_none(){returnErr(E);}true}else{is_result};";
            if norm != expect {
                return Err(format!("decision block differs from the if-chain the translator knows: {norm}"));
            }
            // where the flag is used: exactly the on_tell_result template, else nothing
            let used = b.contains("leton_tell_result_impl=ifshould_generate_on_tell_result{quote!{") && b.contains("}else{quote!{}};");
            if !used {
                return Err("should_generate_on_tell_result does not select between the template and nothing".into());
            }
            Ok("def should_generate (no_log force_result : Bool) (ret : Option RetTy) : Except Unit Bool :=\n  let is_result := (ret.map is_result_type).getD false\n  if no_log then .ok false else if force_result then (if ret.isNone then .error () else .ok true) else .ok is_result\n".into())
        })(),
    );
    // 3. option parsing
    out.item(
        "handler_options",
        (|| -> R<String> {
            let file = parse_file(&path)?;
            let b = body_of(&file, "parse_handler_options")?;
            let path_ok = b.contains("syn::Meta::Path(_)=>{}");
            let list = b.contains("syn::Meta::List(_)=>{attr.parse_nested_meta(|meta|{ifmeta.path.is_ident(\"result\"){options.force_result=true;Ok(())}elseifmeta.path.is_ident(\"no_log\"){options.no_log=true;Ok(())}else{Err(meta.error(");
            let list_q = b.contains("})?;}");
            let other_rejected = b.contains("_=>{returnErr(syn::Error::new_spanned(attr,");
            let exclusive = b.contains("ifoptions.force_result&&options.no_log{returnErr(syn::Error::new_spanned(attr,");
            let ends = b.ends_with("Ok(options)}");
            let starts = b.starts_with("{letmutoptions=HandlerOptions::default();match&attr.meta{");
            let opts = sw(&tok(&file.items.iter().find_map(|i| match i { syn::Item::Struct(s) if s.ident == "HandlerOptions" => Some(s.clone()), _ => None }).ok_or("struct HandlerOptions not found")?));
            let defaults_false = opts.contains("#[derive(Default)]structHandlerOptions{") && opts.contains("force_result:bool,") && opts.contains("no_log:bool,");
            // how the options reach generate_message_impl: only methods carrying #[handler]
            let p = body_of(&file, "process_handler_methods")?;
            let only_marked = p.contains("lethandler_attr=method.attrs.iter().find(|attr|attr.path().is_ident(\"handler\"));ifletSome(attr)=handler_attr{letoptions=parse_handler_options(attr)?;letimpl_tokens=generate_message_impl(method,actor_type,generics,&options)?;message_impls.push(impl_tokens);}");
            Ok(format!(
                "def opt_path_form_accepted : Bool := {path_ok}\ndef opt_list_result_no_log_else_error : Bool := {}\ndef opt_other_forms_rejected : Bool := {other_rejected}\ndef opt_exclusive_checked : Bool := {exclusive}\ndef opt_defaults_false : Bool := {}\ndef only_handler_marked_methods : Bool := {only_marked}\n",
                list && list_q,
                defaults_false && starts && ends
            ))
        })(),
    );
    // 4. templates
    out.item(
        "macro_templates",
        (|| -> R<String> {
            let file = parse_file(&path)?;
            let g = body_of(&file, "generate_message_impl")?;
            let reply = g.contains("letreturn_type=matchreturn_type_ty{Some(ty)=>quote!{#ty},None=>quote!{()},};");
            let imp = g.contains("letimpl_tokens=quote!{impl#impl_genericsrsactor::Message<#message_type>for#actor_type#where_clause{typeReply=#return_type;asyncfnhandle(&mutself,msg:#message_type,actor_ref:&rsactor::ActorRef<Self>,)->Self::Reply{self.#method_name(msg,actor_ref).await}#on_tell_result_impl}};");
            let otr = g.contains("quote!{fnon_tell_result(result:&Self::Reply,actor_ref:&rsactor::ActorRef<Self>){ifletErr(refe)=result{tracing::error!(actor=%actor_ref.identity(),message_type=%std::any::type_name::<#message_type>(),\"tell handler returned error: {}\",e);}}}".replace(' ', "").as_str());
            let msg_ty = g.contains("letmessage_type=match&inputs[1]{FnArg::Typed(PatType{ty,..})=>ty,");
            let ret_src = g.contains("letreturn_type_ty=match&method.sig.output{ReturnType::Type(_,ty)=>Some(ty.as_ref()),ReturnType::Default=>None,};");
            let generics = g.contains("let(impl_generics,_ty_generics,where_clause)=generics.split_for_impl();");
            let d = body_of(&file, "derive_actor_impl")?;
            let derive = d.contains("match&input.data{Data::Struct(_)|Data::Enum(_)=>{letexpanded=quote!{impl#impl_genericsrsactor::Actorfor#name#ty_generics#where_clause{typeArgs=Self;typeError=std::convert::Infallible;asyncfnon_start(args:Self::Args,_actor_ref:&rsactor::ActorRef<Self>,)->std::result::Result<Self,Self::Error>{Ok(args)}}};Ok(expanded)}_=>Err(");
            let dgen = d.contains("let(impl_generics,ty_generics,where_clause)=generics.split_for_impl();");
            let m = body_of(&file, "message_impl")?;
            let keeps = m.contains("letmessage_impls=process_handler_methods(&input.items,actor_type,generics)?;clean_handler_attributes(&mutinput.items);letresult=quote!{#input#(#message_impls)*};Ok(result)");
            Ok(format!(
                "def tpl_reply_is_return_type : Bool := {}\ndef tpl_handle_calls_method : Bool := {}\ndef tpl_on_tell_result_logs_err_only : Bool := {otr}\ndef tpl_derive_actor : Bool := {}\ndef tpl_keeps_original_impl : Bool := {keeps}\n",
                reply && ret_src,
                imp && msg_ty && generics,
                derive && dgen
            ))
        })(),
    );
}
