#!/usr/bin/env python3
"""Regenerates MANIFEST.json from tools/props.py (claimed checks) and properties.jsonl."""
import json, os, sys
ROOT = os.path.dirname(os.path.dirname(os.path.abspath(__file__)))
sys.path.insert(0, os.path.join(ROOT, "tools"))
from props import PROPS, NOT_APPLICABLE, HOOK_COMMITS

ids = [json.loads(l)["id"] for l in open(os.path.join(ROOT, "properties.jsonl"))]
checks = []
for pid in ids:
    if pid not in PROPS:
        continue
    c = PROPS[pid]
    assert c["level"] in ("exploration", "fault_enumeration", "model_checking", "proof", "translation_validation", "other"), (pid, c["level"])
    checks.append({
        "property_id": pid,
        "quick_cmd": f"./run.sh quick {pid}",
        "thorough_cmd": f"./run.sh thorough {pid}",
        "evidence_file": f"/verif/evidence/{pid}.json",
        "replay_cmd_template": "./run.sh replay {path}",
        "engine": "lean-model+extractor+correspondence",
        "level_claimed": {"category": c["level"], "text": c["text"], "design_ref": c.get("design_ref", "DESIGN.md §7/" + pid)},
        "level_note": c["note"],
        "technique": c["technique"],
    })
na = [{"property_id": p, "reason": NOT_APPLICABLE[p]} for p in ids if p not in PROPS]
m = {
    "version": 1,
    "setup_cmd": "./run.sh setup",
    "hooks": {
        "guard": "verif-hooks",
        "enable": "cargo feature `verif-hooks` on the rsactor path dependency of /verif/harness (harness/Cargo.toml.in)",
        "baseline_off_cmd": "cd /repo && cargo nextest run --workspace --no-fail-fast --tool-config-file pb:/w/lib/nextest.toml --profile pb --test-threads 8 --offline",
        "source_commits": HOOK_COMMITS,
        "add_only": True,
    },
    "engines": [
        {"name": "lean-model", "path": "lean/", "serves_properties": sorted(PROPS), "kind_free_text": "Lean 4 labelled transition system of rsactor + property theorems (Rsactor/Props), kernel-checked; line-protocol driver"},
        {"name": "extractor", "path": "tools/extract/", "serves_properties": sorted(PROPS), "kind_free_text": "syn-based translator: regenerates lean/Rsactor/Extracted.lean from /repo on every run"},
        {"name": "correspondence", "path": "harness/", "serves_properties": sorted(PROPS), "kind_free_text": "runs seeded operation scripts on the real crate (paused Tokio runtime) and on the Lean model, diffs canonical event streams; Lean monitors on real traces"},
    ],
    "checks": checks,
    "not_applicable": na,
    "notes": "See DESIGN.md. Every check: extract -> lake build of the property's theorems + axiom audit -> correspondence -> monitors on real traces -> verdict. Genuine defects of rsactor repaired in /repo by unguarded fix: commits 19f65c2 (C03), 2f53652 (C15), 34034cc (C06); known_findings.txt lists them as fixed: lines (they suppress nothing).",
}
json.dump(m, open(os.path.join(ROOT, "MANIFEST.json"), "w"), indent=1)
print("checks:", [c["property_id"] for c in checks], "not_applicable:", len(na))

# validate against the published schema when a validator is available
try:
    import subprocess
    r = subprocess.run(["python3-vt", "-c", "import json,jsonschema,sys; jsonschema.validate(json.load(open(sys.argv[1])), json.load(open(sys.argv[2])))",
                        os.path.join(ROOT, "MANIFEST.json"), "/root/.vp/MANIFEST.schema.json"], capture_output=True, text=True)
    if r.returncode != 0:
        print("MANIFEST.json does NOT validate:", r.stderr[-800:])
        sys.exit(1)
    print("MANIFEST.json validates against the schema")
except FileNotFoundError:
    pass
