//! Correspondence harness: runs operation scripts against the real rsactor crate on a paused,
//! single-threaded Tokio runtime and renders what happened in the same canonical text the Lean
//! driver prints for the model.

pub mod gen;
pub mod log;
pub mod net;
pub mod rng;
pub mod world;

/// Runs `f` with the panic message output silenced (scripted panics are expected).
pub fn quiet_panics() {
    std::panic::set_hook(Box::new(|_| {}));
}
