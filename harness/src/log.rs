//! Global event log + the hooks that feed it (acceptance probe, dead-letter subscriber).
use std::cell::Cell;
use std::sync::atomic::{AtomicU64, Ordering};
use std::sync::Mutex;

/// (task key, text): key 0 = actor, 1 = handles/probes, oid + 2 = client operation.
static LOG: Mutex<Vec<(u64, String)>> = Mutex::new(Vec::new());
/// per-process counter of accepted items of the actor under test
static ACCEPTED: AtomicU64 = AtomicU64::new(0);

thread_local! {
    /// the client operation whose future is being polled on this thread
    pub static CURRENT_OP: Cell<Option<u64>> = const { Cell::new(None) };
}

pub fn reset() {
    LOG.lock().unwrap_or_else(|e| e.into_inner()).clear();
    ACCEPTED.store(0, Ordering::SeqCst);
}

pub fn push(key: u64, text: String) {
    LOG.lock().unwrap_or_else(|e| e.into_inner()).push((key, text));
}

pub fn actor(text: String) {
    push(0, format!("A {text}"));
}
pub fn handle(text: String) {
    push(1, format!("H {text}"));
}
pub fn client(oid: u64, text: String) {
    push(oid + 2, format!("C{oid} {text}"));
}

/// Takes the events logged so far: (in log order, stably sorted by task key = the canonical form).
pub fn take_both() -> (Vec<String>, Vec<String>) {
    let mut v: Vec<(u64, String)> = std::mem::take(&mut *LOG.lock().unwrap_or_else(|e| e.into_inner()));
    let raw = v.iter().map(|(_, t)| t.clone()).collect();
    v.sort_by_key(|(k, _)| *k);
    (raw, v.into_iter().map(|(_, t)| t).collect())
}

fn accept_probe(_id: rsactor::Identity) {
    let idx = ACCEPTED.fetch_add(1, Ordering::SeqCst);
    match CURRENT_OP.with(|c| c.get()) {
        Some(oid) => client(oid, format!("accepted idx={idx}")),
        None => push(1, format!("H accepted-by-unknown idx={idx}")),
    }
}

/// Wraps a client operation so that hooks firing during its polls know which operation it is.
pub struct WithOp<F> {
    pub oid: u64,
    pub fut: F,
}
impl<F: std::future::Future> std::future::Future for WithOp<F> {
    type Output = F::Output;
    fn poll(self: std::pin::Pin<&mut Self>, cx: &mut std::task::Context<'_>) -> std::task::Poll<F::Output> {
        // SAFETY: structural pinning of `fut`; `oid` is Copy and never moved out.
        let this = unsafe { self.get_unchecked_mut() };
        let prev = CURRENT_OP.with(|c| c.replace(Some(this.oid)));
        let r = unsafe { std::pin::Pin::new_unchecked(&mut this.fut) }.poll(cx);
        CURRENT_OP.with(|c| c.set(prev));
        r
    }
}

// ---------------------------------------------------------------- dead letters via `tracing`
struct DlVisitor {
    reason: Option<String>,
    operation: Option<String>,
    is_dl: bool,
    tell_err: bool,
}
impl tracing::field::Visit for DlVisitor {
    fn record_debug(&mut self, field: &tracing::field::Field, value: &dyn std::fmt::Debug) {
        let v = format!("{value:?}");
        match field.name() {
            "dead_letter.reason" => self.reason = Some(v),
            "dead_letter.operation" => self.operation = Some(v.trim_matches('"').to_string()),
            "message" => {
                if v.starts_with("Dead letter") {
                    self.is_dl = true;
                }
                if v.starts_with("tell handler returned error") {
                    self.tell_err = true;
                }
            }
            _ => {}
        }
    }
    fn record_str(&mut self, field: &tracing::field::Field, value: &str) {
        if field.name() == "dead_letter.operation" {
            self.operation = Some(value.to_string());
        } else {
            self.record_debug(field, &value);
        }
    }
}

pub static TELL_ERR_EVENTS: AtomicU64 = AtomicU64::new(0);
pub static DEAD_LETTER_EVENTS: AtomicU64 = AtomicU64::new(0);

/// "Slow subscriber" mode (0 = off): while it is set, every event of the crate under test - at any level - is enabled, and
/// delivering it takes this thread, now and then, up to that many milliseconds (a subscriber doing blocking I/O). It only
/// ever delays the thread that logs.
pub static SLOW_LOG_MS: AtomicU64 = AtomicU64::new(0);
pub static SLOW_LOG_STALLS: AtomicU64 = AtomicU64::new(0);
pub static SLOW_LOG_SEED: AtomicU64 = AtomicU64::new(1);
/// with the slow mode on: stall on every event of the crate, not on a random quarter of them
pub static SLOW_LOG_ALWAYS: std::sync::atomic::AtomicBool = std::sync::atomic::AtomicBool::new(false);
static SLOW_LOG_THREADS: AtomicU64 = AtomicU64::new(0);
thread_local! {
    static SLOW_RNG: Cell<u64> = Cell::new(0);
}
fn slow_stall(max_ms: u64) {
    let r = SLOW_RNG.with(|c| {
        let mut x = c.get();
        if x == 0 {
            x = (SLOW_LOG_THREADS.fetch_add(1, Ordering::SeqCst) + 1 + SLOW_LOG_SEED.load(Ordering::SeqCst).wrapping_mul(1_000_003)).wrapping_mul(0x9E37_79B9_7F4A_7C15) | 1;
        }
        x ^= x << 13;
        x ^= x >> 7;
        x ^= x << 17;
        c.set(x);
        x
    });
    if (r >> 8) % 4 == 0 || SLOW_LOG_ALWAYS.load(Ordering::Relaxed) {
        SLOW_LOG_STALLS.fetch_add(1, Ordering::SeqCst);
        std::thread::sleep(std::time::Duration::from_millis(max_ms / 5 + (r >> 16) % (max_ms - max_ms / 5 + 1)));
    }
}

struct Sub;
impl tracing::Subscriber for Sub {
    fn register_callsite(&self, _: &'static tracing::Metadata<'static>) -> tracing::subscriber::Interest {
        // decided per event (`enabled`), because the slow-subscriber mode is switched at run time
        tracing::subscriber::Interest::sometimes()
    }
    fn enabled(&self, m: &tracing::Metadata<'_>) -> bool {
        *m.level() <= tracing::Level::WARN || (SLOW_LOG_MS.load(Ordering::Relaxed) > 0 && m.target().starts_with("rsactor"))
    }
    fn new_span(&self, _: &tracing::span::Attributes<'_>) -> tracing::span::Id {
        tracing::span::Id::from_u64(1)
    }
    fn record(&self, _: &tracing::span::Id, _: &tracing::span::Record<'_>) {}
    fn record_follows_from(&self, _: &tracing::span::Id, _: &tracing::span::Id) {}
    fn event(&self, event: &tracing::Event<'_>) {
        let slow = SLOW_LOG_MS.load(Ordering::Relaxed);
        if slow > 0 && event.metadata().target().starts_with("rsactor") {
            slow_stall(slow);
        }
        let mut v = DlVisitor { reason: None, operation: None, is_dl: false, tell_err: false };
        event.record(&mut v);
        if v.tell_err {
            TELL_ERR_EVENTS.fetch_add(1, Ordering::SeqCst);
        }
        if v.is_dl {
            DEAD_LETTER_EVENTS.fetch_add(1, Ordering::SeqCst);
            let reason = match v.reason.as_deref() {
                Some("actor stopped") => "actor_stopped",
                Some("timeout") => "timeout",
                Some("reply dropped") => "reply_dropped",
                _ => "unknown",
            };
            let op = v.operation.unwrap_or_default();
            match CURRENT_OP.with(|c| c.get()) {
                Some(oid) => push(oid + 2, format!("C{oid} dead {reason} op={op}")),
                None => push(1, format!("H dead-by-unknown {reason} op={op}")),
            }
        }
    }
    fn enter(&self, _: &tracing::span::Id) {}
    fn exit(&self, _: &tracing::span::Id) {}
}

/// Installs the process-wide hooks (idempotent).
pub fn install() {
    static ONCE: std::sync::Once = std::sync::Once::new();
    ONCE.call_once(|| {
        rsactor::verif_hooks::set_accept_probe(accept_probe);
        let _ = tracing::subscriber::set_global_default(Sub);
    });
}
