//! Multi-actor scenarios for the wait-for protocol (C12, C14, C15): peers whose handlers run scripted
//! plans (ask another peer — optionally with a timeout —, wait for a gate, panic).  The run is
//! recorded as a history of protocol events plus a snapshot of the real wait-for graph after every
//! macro-step; the Lean driver replays the history on the protocol model (`Rsactor.Net`) and reports
//! where the two differ.

use crate::rng::Rng;
use rsactor::{Actor, ActorRef, ActorWeak, Message};
use std::sync::atomic::{AtomicBool, AtomicU64, Ordering::SeqCst};
use std::sync::{Arc, Mutex};
use std::time::Duration;
use tokio::sync::Semaphore;

#[derive(Clone, Debug)]
pub enum Step {
    Gate,
    Panic,
    Ask { target: usize, timeout: Option<u64>, plan: Vec<Step> },
    /// `j(a2(..),t3:15(..))`: the asks inside are awaited concurrently (join_all) by one hook
    Join(Vec<Step>),
    /// `J2(..)`: ask_join - peer 2's handler runs the plan, then returns the JoinHandle of a task that takes
    /// 25 ms (virtual); the asking hook awaits that task
    AskJoin { target: usize, plan: Vec<Step> },
    /// `s15`: the hook tells its own actor (empty plan) with a 15 ms timeout - on a full mailbox that is a wait
    /// that ends in Err(Timeout), never a self-deadlock and never an Ok for a message that was not accepted
    SelfTell(u64),
    /// `S`: the hook calls stop() on its own actor (a graceful stop requested from inside)
    SelfStop,
}

pub fn parse_plan(s: &str) -> Option<Vec<Step>> {
    fn go(cs: &[char], i: &mut usize) -> Option<Vec<Step>> {
        let mut out = vec![];
        while *i < cs.len() && cs[*i] != ')' {
            match cs[*i] {
                'g' => {
                    out.push(Step::Gate);
                    *i += 1
                }
                'p' => {
                    out.push(Step::Panic);
                    *i += 1
                }
                ',' | '-' => *i += 1,
                'S' => {
                    out.push(Step::SelfStop);
                    *i += 1
                }
                's' => {
                    *i += 1;
                    let mut num = String::new();
                    while *i < cs.len() && cs[*i].is_ascii_digit() {
                        num.push(cs[*i]);
                        *i += 1;
                    }
                    out.push(Step::SelfTell(num.parse().ok()?));
                }
                'J' => {
                    *i += 1;
                    let mut num = String::new();
                    while *i < cs.len() && cs[*i].is_ascii_digit() {
                        num.push(cs[*i]);
                        *i += 1;
                    }
                    let target: usize = num.parse().ok()?;
                    if cs.get(*i) != Some(&'(') {
                        return None;
                    }
                    *i += 1;
                    let plan = go(cs, i)?;
                    if cs.get(*i) != Some(&')') {
                        return None;
                    }
                    *i += 1;
                    out.push(Step::AskJoin { target, plan });
                }
                'j' => {
                    *i += 1;
                    if cs.get(*i) != Some(&'(') {
                        return None;
                    }
                    *i += 1;
                    let inner = go(cs, i)?;
                    if cs.get(*i) != Some(&')') {
                        return None;
                    }
                    *i += 1;
                    out.push(Step::Join(inner));
                }
                'a' | 't' => {
                    let timed = cs[*i] == 't';
                    *i += 1;
                    let mut num = String::new();
                    while *i < cs.len() && cs[*i].is_ascii_digit() {
                        num.push(cs[*i]);
                        *i += 1;
                    }
                    let target: usize = num.parse().ok()?;
                    let mut timeout = None;
                    if timed {
                        if cs.get(*i) != Some(&':') {
                            return None;
                        }
                        *i += 1;
                        let mut d = String::new();
                        while *i < cs.len() && cs[*i].is_ascii_digit() {
                            d.push(cs[*i]);
                            *i += 1;
                        }
                        timeout = Some(d.parse().ok()?);
                    }
                    if cs.get(*i) != Some(&'(') {
                        return None;
                    }
                    *i += 1;
                    let plan = go(cs, i)?;
                    if cs.get(*i) != Some(&')') {
                        return None;
                    }
                    *i += 1;
                    out.push(Step::Ask { target, timeout, plan });
                }
                _ => return None,
            }
        }
        Some(out)
    }
    let cs: Vec<char> = s.chars().collect();
    let mut i = 0;
    let r = go(&cs, &mut i)?;
    if i == cs.len() {
        Some(r)
    } else {
        None
    }
}

pub struct Shared {
    pub log: Mutex<Vec<String>>,
    pub next_mid: AtomicU64,
    pub peers: Mutex<Vec<Option<ActorRef<Peer>>>>, // index = peer number - 1
    pub ids: Mutex<Vec<u64>>,                       // real actor id of each peer
    pub gates: Vec<Semaphore>,
    pub waiting: Vec<AtomicBool>,
    /// what each peer's on_stop does (asks made from on_stop take part in cycles like any other)
    pub stop_plans: Vec<Vec<Step>>,
    /// the same for on_start and for the first on_run pass
    pub start_plans: Vec<Vec<Step>>,
    pub run_plans: Vec<Vec<Step>>,
    /// peers whose first on_run pass fails (after its plan): the actor runs on_stop(killed=false) and ends as failed
    pub run_err: Vec<bool>,
}

impl Shared {
    fn log(&self, s: String) {
        self.log.lock().unwrap().push(s);
    }
}

pub struct Peer {
    me: usize,
    sh: Arc<Shared>,
    ran: bool,
    /// passes of the on_run plan begun so far (a pass cancelled by an arriving message is begun again, at most
    /// three times: a plan whose ask makes its callee ask back would otherwise restart forever where nothing
    /// detects the cycle)
    passes: u32,
}

impl Actor for Peer {
    type Args = (usize, Arc<Shared>);
    type Error = String;
    async fn on_start(a: Self::Args, _: &ActorRef<Self>) -> Result<Self, String> {
        let plan = a.1.start_plans.get(a.0 - 1).cloned().unwrap_or_default();
        if !plan.is_empty() {
            a.1.log(format!("N startBegin {}", a.0));
            run_plan(&a.1, a.0, plan, 0).await;
            a.1.log(format!("N startDone {}", a.0));
        }
        Ok(Peer { me: a.0, sh: a.1, ran: false, passes: 0 })
    }
    async fn on_run(&mut self, _: &ActorWeak<Self>) -> Result<bool, String> {
        // one pass; a pass that loses the select to an arriving message is started again later
        let plan = self.sh.run_plans.get(self.me - 1).cloned().unwrap_or_default();
        if !plan.is_empty() && !self.ran && self.passes < 3 {
            self.passes += 1;
            self.sh.log(format!("N runBegin {}", self.me));
            run_plan(&self.sh, self.me, plan, 0).await;
            self.ran = true;
            self.sh.log(format!("N runDone {}", self.me));
        }
        if self.sh.run_err.get(self.me - 1).copied().unwrap_or(false) {
            return Err("scripted on_run error".into());
        }
        Ok(false)
    }
    async fn on_stop(&mut self, _: &ActorWeak<Self>, killed: bool) -> Result<(), String> {
        self.sh.log(format!("N stop {} {killed}", self.me));
        let plan = self.sh.stop_plans.get(self.me - 1).cloned().unwrap_or_default();
        if !plan.is_empty() {
            run_plan(&self.sh, self.me, plan, 0).await;
            self.sh.log(format!("N stopDone {}", self.me));
        }
        Ok(())
    }
}

pub struct Run {
    pub mid: u64,
    pub plan: Vec<Step>,
}

struct WaitFlag<'a>(&'a AtomicBool);
impl Drop for WaitFlag<'_> {
    fn drop(&mut self) {
        self.0.store(false, SeqCst);
    }
}

/// an ask future that is dropped before it completes (an on_run pass that loses the select to an arriving
/// message or to a kill; unwinding) is a cancellation: logged, so that the history says when the asker stopped waiting
struct AskDrop<'a> {
    sh: &'a Arc<Shared>,
    me: usize,
    mid: u64,
    done: bool,
}
impl Drop for AskDrop<'_> {
    fn drop(&mut self) {
        if !self.done {
            self.sh.log(format!("N askRet {} {} dropped", self.me, self.mid));
        }
    }
}

async fn do_ask(sh: &Arc<Shared>, me: usize, target: usize, timeout: Option<u64>, plan: Vec<Step>) {
    let mid = sh.next_mid.fetch_add(1, SeqCst);
    let r = sh.peers.lock().unwrap().get(target - 1).cloned().flatten();
    let Some(r) = r else { return };
    sh.log(format!("N askStart {me} {target} {mid}"));
    let mut guard = AskDrop { sh, me, mid, done: false };
    let t0 = tokio::time::Instant::now();
    let res = match timeout {
        None => r.ask(Run { mid, plan }).await,
        Some(d) => r.ask_with_timeout(Run { mid, plan }, Duration::from_millis(d)).await,
    };
    if let (Some(d), Err(rsactor::Error::Timeout { .. })) = (timeout, &res) {
        // virtual clock of the paused runtime: a Timeout before the deadline is wrong in every build
        let el = t0.elapsed().as_millis() as u64;
        if el < d {
            sh.log(format!("N earlyTimeout {me} {mid} {el} {d}"));
        }
    }
    let txt = match &res {
        Ok(v) => {
            if *v != mid {
                "wrongreply"
            } else {
                "ok"
            }
        }
        Err(rsactor::Error::Receive { .. }) => "receive",
        Err(rsactor::Error::Timeout { .. }) => "timeout",
        Err(rsactor::Error::Send { .. }) => "send",
        Err(_) => "other",
    };
    guard.done = true;
    sh.log(format!("N askRet {me} {mid} {txt}"));
}

/// runs a plan inside a hook of peer `me`; returns false when the plan panics (after logging)
fn run_plan<'a>(sh: &'a Arc<Shared>, me: usize, plan: Vec<Step>, mid: u64) -> futures::future::BoxFuture<'a, ()> {
    Box::pin(async move {
        for st in plan {
            match st {
                Step::Gate => {
                    sh.waiting[me - 1].store(true, SeqCst);
                    let _f = WaitFlag(&sh.waiting[me - 1]);
                    let p = sh.gates[me - 1].acquire().await.unwrap();
                    p.forget();
                }
                Step::Panic => {
                    sh.log(format!("N hEnd {me} {mid} panic"));
                    panic!("scripted panic in peer hook");
                }
                Step::Ask { target, timeout, plan } => do_ask(sh, me, target, timeout, plan).await,
                Step::SelfTell(d) => {
                    let mid2 = sh.next_mid.fetch_add(1, SeqCst);
                    let r = sh.peers.lock().unwrap().get(me - 1).cloned().flatten();
                    let Some(r) = r else { continue };
                    sh.log(format!("N tellStart {me} {me} {mid2}"));
                    let res = r.tell_with_timeout(Run { mid: mid2, plan: vec![] }, Duration::from_millis(d)).await;
                    let txt = match &res {
                        Ok(()) => "ok",
                        Err(rsactor::Error::Timeout { .. }) => "timeout",
                        Err(rsactor::Error::Send { .. }) => "send",
                        Err(_) => "other",
                    };
                    sh.log(format!("N tellRet {me} {mid2} {txt}"));
                }
                Step::SelfStop => {
                    let r = sh.peers.lock().unwrap().get(me - 1).cloned().flatten();
                    let Some(r) = r else { continue };
                    sh.log(format!("N selfStop {me}"));
                    // bounded: on a full mailbox a stop() from inside a handler could never be accepted
                    let _ = tokio::time::timeout(Duration::from_millis(15), r.stop()).await;
                }
                Step::AskJoin { target, plan } => {
                    let mid2 = sh.next_mid.fetch_add(1, SeqCst);
                    let r = sh.peers.lock().unwrap().get(target - 1).cloned().flatten();
                    let Some(r) = r else { continue };
                    sh.log(format!("N askStart {me} {target} {mid2}"));
                    let mut guard = AskDrop { sh, me, mid: mid2, done: false };
                    let res = r.ask_join(RunJ { mid: mid2, plan }).await;
                    let txt = match &res {
                        Ok(v) if *v == mid2 => "ok",
                        Ok(_) => "wrongreply",
                        Err(rsactor::Error::Receive { .. }) => "receive",
                        Err(rsactor::Error::Send { .. }) => "send",
                        Err(rsactor::Error::Join { .. }) => "join",
                        Err(_) => "other",
                    };
                    guard.done = true;
                    sh.log(format!("N askRet {me} {mid2} {txt}"));
                }
                Step::Join(items) => {
                    let futs: Vec<_> = items
                        .into_iter()
                        .filter_map(|it| match it {
                            Step::Ask { target, timeout, plan } => Some(do_ask(sh, me, target, timeout, plan)),
                            _ => None,
                        })
                        .collect();
                    futures::future::join_all(futs).await;
                }
            }
        }
    })
}

impl Message<Run> for Peer {
    type Reply = u64;
    async fn handle(&mut self, m: Run, _: &ActorRef<Self>) -> u64 {
        let sh = self.sh.clone();
        let me = self.me;
        sh.log(format!("N hStart {me} {}", m.mid));
        run_plan(&sh, me, m.plan, m.mid).await;
        sh.log(format!("N hEnd {me} {} ok", m.mid));
        m.mid
    }
}

/// like `Run`, but the reply is the JoinHandle of a task that finishes 25 ms (virtual) later
pub struct RunJ {
    pub mid: u64,
    pub plan: Vec<Step>,
}

impl Message<RunJ> for Peer {
    type Reply = tokio::task::JoinHandle<u64>;
    async fn handle(&mut self, m: RunJ, _: &ActorRef<Self>) -> tokio::task::JoinHandle<u64> {
        let sh = self.sh.clone();
        let me = self.me;
        sh.log(format!("N hStart {me} {}", m.mid));
        run_plan(&sh, me, m.plan, m.mid).await;
        sh.log(format!("N hEnd {me} {} ok", m.mid));
        let mid = m.mid;
        tokio::spawn(async move {
            tokio::time::sleep(Duration::from_millis(25)).await;
            mid
        })
    }
}

pub struct NetOut {
    pub script: Vec<String>,
    pub trace: Vec<String>,
}

#[cfg(feature = "deadlock")]
fn poisoned() -> bool {
    rsactor::verif_hooks::wait_for_poisoned()
}
#[cfg(not(feature = "deadlock"))]
fn poisoned() -> bool {
    false
}

fn snapshot(sh: &Shared) -> String {
    let ids = sh.ids.lock().unwrap().clone();
    let idx = |id: u64| ids.iter().position(|x| *x == id).map(|p| (p + 1).to_string()).unwrap_or_else(|| format!("?{id}"));
    #[cfg(feature = "deadlock")]
    let e = rsactor::verif_hooks::wait_for_edges();
    #[cfg(not(feature = "deadlock"))]
    let e: Vec<(u64, u64)> = vec![];
    // only edges whose caller belongs to this world (the graph is process-global)
    let mine: Vec<String> = e.iter().filter(|(a, _)| ids.contains(a)).map(|(a, b)| format!("{}>{}", idx(*a), idx(*b))).collect();
    if mine.is_empty() {
        "-".into()
    } else {
        mine.join(",")
    }
}

/// Runs a script; `next_line` may look at how many peers exist.
pub fn run_with<F: FnMut(usize, &[bool]) -> Option<String>>(mut next_line: F) -> NetOut {
    let mut script = vec![];
    let mut trace = vec![];
    let rt = tokio::runtime::Builder::new_current_thread().enable_time().start_paused(true).build().unwrap();
    rt.block_on(async {
        let mut shared: Option<Arc<Shared>> = None;
        let mut next_oid = 0u64;
        loop {
            let (n, waiting): (usize, Vec<bool>) = match &shared {
                Some(sh) => (sh.gates.len(), sh.waiting.iter().map(|w| w.load(SeqCst)).collect()),
                None => (0, vec![]),
            };
            let Some(line) = next_line(n, &waiting) else { break };
            let ws: Vec<&str> = line.split_whitespace().collect();
            if ws.is_empty() {
                continue;
            }
            script.push(line.trim().to_string());
            trace.push(format!("> {}", line.trim()));
            match (ws[0], &shared) {
                ("spawn", None) => {
                    let n: usize = ws.get(1).and_then(|x| x.parse().ok()).unwrap_or(2).clamp(1, 16);
                    let sh = Arc::new(Shared {
                        log: Mutex::new(vec![]),
                        next_mid: AtomicU64::new(1),
                        peers: Mutex::new(vec![]),
                        ids: Mutex::new(vec![]),
                        gates: (0..n).map(|_| Semaphore::new(0)).collect(),
                        waiting: (0..n).map(|_| AtomicBool::new(false)).collect(),
                        stop_plans: (1..=n)
                            .map(|k| ws.iter().find_map(|w| w.strip_prefix(&format!("stop{k}="))).and_then(parse_plan).unwrap_or_default())
                            .collect(),
                        start_plans: (1..=n)
                            .map(|k| ws.iter().find_map(|w| w.strip_prefix(&format!("start{k}="))).and_then(parse_plan).unwrap_or_default())
                            .collect(),
                        run_plans: (1..=n)
                            .map(|k| ws.iter().find_map(|w| w.strip_prefix(&format!("run{k}="))).and_then(parse_plan).unwrap_or_default())
                            .collect(),
                        run_err: (1..=n).map(|k| ws.iter().any(|w| *w == format!("runerr{k}"))).collect(),
                    });
                    let cap: Option<usize> = ws.iter().find_map(|w| w.strip_prefix("cap=")).and_then(|x| x.parse().ok()).filter(|c| *c > 0);
                    for i in 1..=n {
                        let (r, jh) = match cap {
                            Some(c) => rsactor::spawn_with_mailbox_capacity::<Peer>((i, sh.clone()), c),
                            None => rsactor::spawn::<Peer>((i, sh.clone())),
                        };
                        sh.ids.lock().unwrap().push(r.identity().id);
                        sh.peers.lock().unwrap().push(Some(r));
                        let sh2 = sh.clone();
                        tokio::spawn(async move {
                            let res = jh.await;
                            let txt = match res {
                                Ok(_) => "ok".to_string(),
                                Err(e) if e.is_panic() => {
                                    let p = e.into_panic();
                                    let msg = p.downcast_ref::<String>().cloned().or_else(|| p.downcast_ref::<&str>().map(|s| s.to_string())).unwrap_or_default();
                                    if let Some(rest) = msg.strip_prefix("Deadlock detected: ask cycle ") {
                                        let cyc = rest.lines().next().unwrap_or("");
                                        let ids = sh2.ids.lock().unwrap().clone();
                                        let path: Vec<String> = cyc
                                            .split(" -> ")
                                            .map(|p| {
                                                let id: u64 = p.rsplit("(#").next().unwrap_or("").trim_end_matches(')').parse().unwrap_or(0);
                                                ids.iter().position(|x| *x == id).map(|q| (q + 1).to_string()).unwrap_or_else(|| "?".into())
                                            })
                                            .collect();
                                        format!("deadlock path={}", path.join(","))
                                    } else {
                                        "panic".to_string()
                                    }
                                }
                                Err(_) => "cancelled".to_string(),
                            };
                            sh2.log(format!("N joined {i} {txt}"));
                        });
                    }
                    shared = Some(sh);
                }
                (op @ ("ask" | "tell" | "askt"), Some(sh)) => {
                    let target: usize = ws.get(1).and_then(|x| x.parse().ok()).unwrap_or(0);
                    let (tmo, plan_s) = if op == "askt" { (ws.get(2).and_then(|x| x.parse::<u64>().ok()), ws.get(3)) } else { (None, ws.get(2)) };
                    let plan = plan_s.and_then(|p| parse_plan(if *p == "-" { "" } else { p }));
                    let r = sh.peers.lock().unwrap().get(target.wrapping_sub(1)).cloned().flatten();
                    match (plan, r) {
                        (Some(plan), Some(r)) if op != "askt" || tmo.is_some() => {
                            let oid = next_oid;
                            next_oid += 1;
                            let mid = sh.next_mid.fetch_add(1, SeqCst);
                            sh.log(format!("N cissue {oid} {op} {target} {mid}"));
                            let sh2 = sh.clone();
                            let op = op.to_string();
                            tokio::spawn(async move {
                                let res = match op.as_str() {
                                    "tell" => r.tell(Run { mid, plan }).await.map(|_| mid),
                                    "ask" => r.ask(Run { mid, plan }).await,
                                    _ => r.ask_with_timeout(Run { mid, plan }, Duration::from_millis(tmo.unwrap())).await,
                                };
                                let txt = match &res {
                                    Ok(v) if *v == mid => "ok",
                                    Ok(_) => "wrongreply",
                                    Err(rsactor::Error::Receive { .. }) => "receive",
                                    Err(rsactor::Error::Timeout { .. }) => "timeout",
                                    Err(rsactor::Error::Send { .. }) => "send",
                                    Err(_) => "other",
                                };
                                sh2.log(format!("N cret {oid} {txt}"));
                            });
                        }
                        _ => trace.push("! disabled".into()),
                    }
                }
                ("gate", Some(sh)) => {
                    let a: usize = ws.get(1).and_then(|x| x.parse().ok()).unwrap_or(0);
                    if a >= 1 && a <= sh.gates.len() && sh.waiting[a - 1].load(SeqCst) {
                        sh.gates[a - 1].add_permits(1);
                    }
                }
                ("kill", Some(sh)) => {
                    let a: usize = ws.get(1).and_then(|x| x.parse().ok()).unwrap_or(0);
                    if let Some(Some(r)) = sh.peers.lock().unwrap().get(a.wrapping_sub(1)) {
                        let _ = r.kill();
                    }
                }
                ("tick", Some(_)) => {}
                _ => trace.push("! disabled".into()),
            }
            tokio::time::sleep(Duration::from_millis(10)).await;
            if let Some(sh) = &shared {
                trace.extend(std::mem::take(&mut *sh.log.lock().unwrap()));
                trace.push(format!("N graph {}", snapshot(sh)));
                trace.push(format!("N poisoned {}", poisoned()));
            }
            trace.push("--".into());
        }
        // end of script: kill everybody so that nothing of this world stays in the global graph
        if let Some(sh) = &shared {
            for r in sh.peers.lock().unwrap().iter().flatten() {
                let _ = r.kill();
            }
            for g in &sh.gates {
                g.add_permits(1000);
            }
            sh.peers.lock().unwrap().clear();
            tokio::time::sleep(Duration::from_millis(50)).await;
            trace.push("> end".into());
            trace.extend(std::mem::take(&mut *sh.log.lock().unwrap()));
            trace.push(format!("N graph {}", snapshot(sh)));
            trace.push(format!("N poisoned {}", poisoned()));
            trace.push("--".into());
        }
    });
    drop(rt);
    NetOut { script, trace }
}

// ------------------------------------------------------------------------------------------ generator
pub struct NetGen {
    pub rng: Rng,
    pub len: usize,
    pub emitted: usize,
    closing: u32,
    /// only ask "upwards" (a handler of peer i asks peers j > i): no ask cycle can ever form
    pub acyclic: bool,
    /// hooks may await several asks concurrently (`j(..)` steps)
    pub joins: bool,
    /// when > 0: hooks ask upwards except once in `back` times (few programs then contain a real cycle,
    /// many contain "A asks B now, B asks A later")
    pub back: u64,
}

impl NetGen {
    pub fn new(seed: u64) -> Self {
        let mut rng = Rng::new(seed);
        let len = 8 + rng.below(30) as usize;
        NetGen { rng, len, emitted: 0, closing: 0, acyclic: false, joins: false, back: 0 }
    }

    pub fn new_acyclic(seed: u64) -> Self {
        let mut g = Self::new(seed);
        g.acyclic = true;
        g
    }

    fn target(&mut self, n: usize, me: usize) -> Option<usize> {
        let up = self.acyclic || (self.back > 0 && !self.rng.chance(1, self.back));
        if up {
            if me >= n {
                return None;
            }
            Some(me + 1 + self.rng.below((n - me) as u64) as usize)
        } else {
            Some(1 + self.rng.below(n as u64) as usize)
        }
    }

    fn plan_in(&mut self, n: usize, me: usize) -> String {
        self.plan_at(n, 0, me)
    }

    fn plan_at(&mut self, n: usize, depth: u32, me: usize) -> String {
        let mut parts: Vec<String> = vec![];
        let k = self.rng.below(3);
        for _ in 0..k {
            if self.joins && depth < 3 && self.rng.chance(1, 4) {
                let mut items = vec![];
                for _ in 0..(2 + self.rng.below(2)) {
                    if let Some(t) = self.target(n, me) {
                        let inner = self.plan_at(n, depth + 1, t);
                        if self.rng.chance(1, 4) {
                            items.push(format!("t{t}:{}({inner})", self.rng.pick(&[5u64, 15, 25])));
                        } else {
                            items.push(format!("a{t}({inner})"));
                        }
                    }
                }
                if !items.is_empty() {
                    parts.push(format!("j({})", items.join(",")));
                    continue;
                }
            }
            if self.rng.chance(1, 12) {
                parts.push(format!("s{}", self.rng.pick(&[5u64, 15])));
                continue;
            }
            match self.rng.weighted(&[4, if depth < 4 { 5 } else { 0 }, if depth < 4 { 2 } else { 0 }, 1]) {
                0 => parts.push("g".into()),
                1 => match self.target(n, me) {
                    Some(t) => {
                        let inner = self.plan_at(n, depth + 1, t);
                        parts.push(format!("a{t}({inner})"));
                    }
                    None => parts.push("g".into()),
                },
                2 => match self.target(n, me) {
                    Some(t) => {
                        // an empty budget is a budget too: the request is still made (and checked for a cycle) before the timer is looked at
                        let d = *self.rng.pick(&[5u64, 15, 25, 0]);
                        let inner = self.plan_at(n, depth + 1, t);
                        parts.push(format!("t{t}:{d}({inner})"));
                    }
                    None => parts.push("g".into()),
                },
                _ => {
                    if self.rng.chance(1, 4) {
                        parts.push("p".into())
                    } else {
                        parts.push("g".into())
                    }
                }
            }
        }
        if parts.is_empty() {
            "-".into()
        } else {
            parts.join(",")
        }
    }

    pub fn next(&mut self, n: usize, waiting: &[bool]) -> Option<String> {
        if n == 0 {
            if self.emitted == 0 {
                self.emitted = 1;
                let n = 2 + self.rng.below(4);
                // a third of the worlds have tiny mailboxes: asks park in the send
                let mut line = match self.rng.below(3) {
                    0 => format!("spawn {n} cap={}", 1 + self.rng.below(2)),
                    _ => format!("spawn {n}"),
                };
                // a third of the worlds have a peer whose on_stop asks somebody
                if !self.acyclic && self.rng.chance(1, 3) {
                    let k = 1 + self.rng.below(n);
                    let mut t = 1 + self.rng.below(n);
                    if t == k {
                        t = if k == n { 1 } else { k + 1 };
                    }
                    // ... some of them reach on_stop through a failing on_run pass rather than stop()/kill()
                    let inner = if self.rng.chance(1, 2) { format!("a{k}(-)") } else { "-".to_string() };
                    match self.rng.below(4) {
                        0 => line.push_str(&format!(" stop{k}=a{t}({inner}) runerr{k}")),
                        1 => line.push_str(&format!(" stop{k}=a{k}(-) runerr{k}")),
                        _ => line.push_str(&format!(" stop{k}=a{t}(-)")),
                    }
                }
                // ... or whose on_start / first on_run pass does
                if !self.acyclic && self.rng.chance(1, 4) {
                    let k = 1 + self.rng.below(n);
                    let mut t = 1 + self.rng.below(n);
                    if t == k {
                        t = if k == n { 1 } else { k + 1 };
                    }
                    let hook = if self.rng.chance(1, 2) { "start" } else { "run" };
                    let inner = if self.rng.chance(1, 2) { format!("a{k}(-)") } else { "-".to_string() };
                    line.push_str(&format!(" {hook}{k}=a{t}({inner})"));
                }
                return Some(line);
            }
            return None;
        }
        self.emitted += 1;
        if self.emitted > self.len {
            // drain: release every waiting gate, then let timers fire
            if let Some(i) = waiting.iter().position(|w| *w) {
                if self.closing < 200 {
                    self.closing += 1;
                    return Some(format!("gate {}", i + 1));
                }
            }
            if self.closing < 203 {
                self.closing += 1;
                return Some("tick".into());
            }
            return None;
        }
        let waiting_ids: Vec<usize> = waiting.iter().enumerate().filter(|(_, w)| **w).map(|(i, _)| i + 1).collect();
        // the callee dies while an ask to it is queued, and its on_stop asks back: `ask A g` keeps A busy, `ask B aA(-)`
        // queues B's ask behind it, then A is killed and released
        if n >= 2 && !self.acyclic && self.rng.chance(1, 14) {
            let a = 1 + self.rng.below(n as u64) as usize;
            return Some(match self.rng.below(3) {
                0 => format!("ask {a} g"),
                1 => format!("kill {a}"),
                _ => format!("ask {} a{a}(-)", if a == n { 1 } else { a + 1 }),
            });
        }
        // ask_join: the asking hook waits for a task of the callee after the reply; the callee is free meanwhile
        if n >= 2 && self.rng.chance(1, 12) {
            let a = 1 + self.rng.below(n as u64) as usize;
            if let Some(b) = self.target(n, a) {
                if b != a {
                    return Some(format!("ask {a} J{b}(-)"));
                }
            }
        }
        // retry after a timeout: a hook's timed ask to a gated peer is abandoned, the same hook asks the same
        // peer again, and that peer's later messages may ask back (stale replies meet newer edges)
        if n >= 2 && !self.acyclic && self.rng.chance(1, 10) {
            let a = 1 + self.rng.below(n as u64) as usize;
            let mut b = 1 + self.rng.below(n as u64) as usize;
            if b == a {
                b = if a == n { 1 } else { a + 1 };
            }
            let d = *self.rng.pick(&[5u64, 15]);
            let inner = if self.rng.chance(1, 2) { format!("a{a}(-)") } else { self.plan_in(n, b) };
            return Some(format!("ask {a} t{b}:{d}(g),a{b}({inner})"));
        }
        Some(match self.rng.weighted(&[8, 3, 3, if waiting_ids.is_empty() { 0 } else { 10 }, 2, 1]) {
            0 => {
                let t = 1 + self.rng.below(n as u64) as usize;
                format!("ask {t} {}", self.plan_in(n, t))
            }
            1 => {
                let t = 1 + self.rng.below(n as u64) as usize;
                format!("tell {t} {}", self.plan_in(n, t))
            }
            2 => {
                let t = 1 + self.rng.below(n as u64) as usize;
                let d = *self.rng.pick(&[15u64, 25, 45]);
                format!("askt {t} {d} {}", self.plan_in(n, t))
            }
            3 => format!("gate {}", self.rng.pick(&waiting_ids)),
            4 => "tick".into(),
            _ => format!("kill {}", 1 + self.rng.below(n as u64)),
        })
    }
}

// ------------------------------------------------------------------------------------------ oracles
/// C02 on one real history, with no model: a tell (from a hook to its own actor, or from a client) that returned Ok
/// before another send to the same actor began is handled before it
pub fn order_oracles(trace: &[String]) -> Vec<String> {
    let mut out = vec![];
    let num = |s: &str| s.parse::<u64>().unwrap_or(0);
    // tells (self-tells from hooks, client tells) that returned Ok: (target, mid, position of the Ok)
    let mut told: Vec<(usize, u64, usize)> = vec![];
    let mut tell_target: std::collections::BTreeMap<u64, usize> = Default::default();
    let mut client_mid: std::collections::BTreeMap<u64, (usize, u64, bool)> = Default::default(); // oid -> (target, mid, is tell)
    let mut issued_at: std::collections::BTreeMap<u64, usize> = Default::default(); // mid -> position of its issue
    let mut started_at: std::collections::BTreeMap<u64, usize> = Default::default(); // mid -> position of hStart
    for (pos, l) in trace.iter().enumerate() {
        let ws: Vec<&str> = l.split_whitespace().collect();
        match ws.as_slice() {
            ["N", "tellStart", _a, b, mid] => {
                tell_target.insert(num(mid), num(b) as usize);
                issued_at.insert(num(mid), pos);
            }
            ["N", "tellRet", _a, mid, "ok"] => {
                if let Some(t) = tell_target.get(&num(mid)) {
                    told.push((*t, num(mid), pos));
                }
            }
            ["N", "cissue", oid, op, target, mid] => {
                client_mid.insert(num(oid), (num(target) as usize, num(mid), *op == "tell"));
                issued_at.insert(num(mid), pos);
            }
            ["N", "cret", oid, "ok"] => {
                if let Some((t, mid, true)) = client_mid.get(&num(oid)) {
                    told.push((*t, *mid, pos));
                }
            }
            ["N", "askStart", _a, _b, mid] => {
                issued_at.insert(num(mid), pos);
            }
            ["N", "hStart", _b, mid] => {
                started_at.entry(num(mid)).or_insert(pos);
            }
            _ => {}
        }
    }
    // C01: a tell that returned Ok before the actor's graceful on_stop began is handled before it (peers whose on_run is
    // scripted to fail are left out: an on_run error ends the actor like a crash)
    let spawn_line = trace.iter().find(|l| l.starts_with("> spawn")).cloned().unwrap_or_default();
    for (t, m1, ok_pos) in &told {
        if spawn_line.split_whitespace().any(|w| w == format!("runerr{t}")) {
            continue;
        }
        let stop_at = trace.iter().enumerate().position(|(q, l)| q > *ok_pos && *l == format!("N stop {t} false"));
        if let Some(q) = stop_at {
            if started_at.get(m1).map_or(true, |p| *p > q) {
                out.push(format!("message {m1} was told to actor {t} and the tell returned Ok before the actor's graceful on_stop began, yet it was not handled before on_stop (never was, or only afterwards)"));
                break;
            }
        }
    }
    // C02: a send that completed before another send to the same actor began is handled first
    'fifo: for (t, m1, ok_pos) in &told {
        for (m2, iss) in &issued_at {
            if m2 == m1 || iss < ok_pos {
                continue;
            }
            // m2 was issued after m1's tell had returned Ok: if m2 (same target) was handled, m1 was handled before it
            let same_target = trace.iter().any(|l| {
                let ws: Vec<&str> = l.split_whitespace().collect();
                matches!(ws.as_slice(), ["N", "hStart", b, mid] if num(mid) == *m2 && num(b) as usize == *t)
            });
            if !same_target {
                continue;
            }
            match (started_at.get(m1), started_at.get(m2)) {
                (Some(p1), Some(p2)) if p1 > p2 => {
                    out.push(format!("message {m1} was told to actor {t} and the tell returned Ok before message {m2} was sent, yet {m2} was handled first (handling order = acceptance order)"));
                    break 'fifo;
                }
                (None, Some(_)) => {
                    out.push(format!("message {m1} was told to actor {t} and the tell returned Ok before message {m2} was sent; {m2} was handled and {m1} never was"));
                    break 'fifo;
                }
                _ => {}
            }
        }
    }
    // C09: a tell into a full mailbox waits (and, timed, gives up with Err(Timeout)); it does not end its sender
    let mut open_tells: std::collections::BTreeMap<usize, u64> = Default::default(); // sender -> mid of its self-tell in progress
    for l in trace {
        let ws: Vec<&str> = l.split_whitespace().collect();
        match ws.as_slice() {
            ["N", "tellStart", a, _b, mid] => {
                open_tells.insert(num(a) as usize, num(mid));
            }
            ["N", "tellRet", a, _mid, _] => {
                open_tells.remove(&(num(a) as usize));
            }
            ["N", "joined", a, how, ..] if *how == "deadlock" || *how == "panic" => {
                if let Some(mid) = open_tells.get(&(num(a) as usize)) {
                    out.push(format!("actor {a} was ended by a panic ({how}) in the middle of a tell to its own actor (message {mid}): a tell into a full mailbox waits for a slot or times out, it does not fail with a panic"));
                    break;
                }
            }
            _ => {}
        }
    }
    out
}

/// The statement of C15 (and the no-one-stuck part of C14) evaluated on one real history, with no model:
/// (1) a deadlock panic of actor a on its ask to b is justified only if a = b or, at that moment, a chain of
///     unanswered in-flight asks leads from b to a;  (2) in a program whose hooks only ask higher-numbered
///     peers no deadlock panic is ever justified;  (3) whenever no ask is in flight the wait-for map is empty.
pub fn history_oracles(trace: &[String], acyclic: bool) -> Vec<String> {
    let mut out = vec![];
    // in-flight, unanswered: (caller, callee, mid)
    let mut open: Vec<(usize, usize, u64)> = vec![];
    // started and not yet returned to the caller (answered or not)
    let mut pending: Vec<(usize, u64)> = vec![];
    let mut last_ask: std::collections::BTreeMap<usize, (usize, u64, Vec<(usize, usize, u64)>)> = Default::default();
    let num = |s: &str| s.parse::<u64>().unwrap_or(0);
    out.extend(order_oracles(trace));
    for l in trace {
        let ws: Vec<&str> = l.split_whitespace().collect();
        match ws.as_slice() {
            ["N", "askStart", a, b, mid] => {
                let (a, b, mid) = (num(a) as usize, num(b) as usize, num(mid));
                last_ask.insert(a, (b, mid, open.clone()));
                open.push((a, b, mid));
                pending.push((a, mid));
            }
            ["N", "hEnd", _b, mid, _out] => {
                let mid = num(mid);
                // ok: the reply is sent; panic: the callee dies and the ask is lost - either way the caller no longer waits for it
                open.retain(|e| e.2 != mid);
            }
            ["N", "askRet", _a, mid, _] => {
                let mid = num(mid);
                open.retain(|e| e.2 != mid);
                pending.retain(|e| e.1 != mid);
            }
            ["N", "joined", a, rest @ ..] => {
                let a = num(a) as usize;
                if rest.first() == Some(&"deadlock") {
                    if let Some((b, mid, before)) = last_ask.get(&a) {
                        let mut reach = vec![*b];
                        let mut changed = true;
                        while changed {
                            changed = false;
                            for e in before {
                                if reach.contains(&e.0) && !reach.contains(&e.1) {
                                    reach.push(e.1);
                                    changed = true;
                                }
                            }
                        }
                        let justified = a == *b || before.iter().any(|e| reach.contains(&e.0) && e.1 == a);
                        if acyclic {
                            out.push(format!("actor {a} panicked with a deadlock report on its ask {mid} to {b} although no chain of in-flight asks can exist: hooks of this program only ask higher-numbered peers"));
                        } else if !justified {
                            out.push(format!("actor {a} panicked with a deadlock report on its ask {mid} to {b} although no chain of unanswered in-flight asks led from {b} to {a} (open asks then: {before:?})"));
                        }
                    }
                }
                // a dead actor's asks are over; asks to it are lost
                open.retain(|e| e.0 != a && e.1 != a);
                pending.retain(|e| e.0 != a);
            }
            ["N", "graph", g] => {
                if pending.is_empty() && *g != "-" {
                    out.push(format!("wait-for graph: {g} although every ask has finished (no ask is in flight)"));
                }
            }
            ["N", "poisoned", "true"] => out.push("the wait-for lock is poisoned".into()),
            ["N", "earlyTimeout", a, mid, el, d] => out.push(format!("ask {mid} of actor {a} returned Err(Timeout) after {el} ms, before its {d} ms deadline")),
            _ => {}
        }
    }
    out.truncate(3);
    out
}

