//! Seeded script generators. Every random choice comes from the one `Rng`, and the generator
//! looks at the *real* world's handle table so that most operations are valid.
use crate::rng::Rng;
use crate::world::{World, H};

#[derive(Clone, Copy, Debug, PartialEq)]
pub enum Family {
    /// uniform mix of everything
    Mixed,
    /// fill the mailbox past capacity while a handler is gated, land a cause, release gates
    Burst,
    /// clone / drop / downgrade / upgrade walks with traffic in between
    Handles,
    /// on_run scripts with arrivals around its await points
    Idle,
    /// timeouts against free / full / closed mailboxes
    Timeouts,
    /// like mixed, with permits handed out before anybody waits: hooks that run to their end without suspending
    Eager,
    /// many identical failures in a row: the actor is stopped early, then dozens of the same operation
    Flood,
    /// asks (and tells) given up by their callers while still queued, then an idle actor is stopped, killed or left alone
    Abandon,
    /// a long streak of handlers that finish at once (a permit is waiting at their gate), then one that is held for milliseconds
    Streak,
    /// the shutdown window: a backlog, then stop() (also on a full mailbox), then traffic, kill, drops
    /// and ticks while the marker travels and while on_stop is suspended
    Shutdown,
}

pub fn family_of(name: &str) -> Option<Family> {
    Some(match name {
        "mixed" => Family::Mixed,
        "burst" => Family::Burst,
        "handles" => Family::Handles,
        "idle" => Family::Idle,
        "timeouts" => Family::Timeouts,
        "shutdown" => Family::Shutdown,
        "eager" => Family::Eager,
        "flood" => Family::Flood,
        "abandon" => Family::Abandon,
        "streak" => Family::Streak,
        _ => return None,
    })
}

pub struct Gen {
    pub rng: Rng,
    pub family: Family,
    pub len: usize,
    pub emitted: usize,
    phase: u32,
    closing_gates: u32,
    closing_ticks: u32,
}

const CAPS: &[usize] = &[1, 1, 2, 3, 4, 8, 32, 33];

impl Gen {
    pub fn new(seed: u64, family: Family) -> Self {
        let mut rng = Rng::new(seed);
        let len = match family {
            Family::Flood => 50 + rng.below(30) as usize,
            Family::Abandon => 14 + rng.below(6) as usize,
            Family::Streak => 2 + 2 * (129 + rng.below(60) as usize) + 8,
            _ => 20 + rng.below(70) as usize,
        };
        Gen { rng, family, len, emitted: 0, phase: 0, closing_gates: 0, closing_ticks: 0 }
    }

    fn spawn_line(&mut self) -> String {
        if self.family == Family::Streak {
            return "spawn cap=32 start=ok stop=ok run=d".to_string();
        }
        let r = &mut self.rng;
        let cap = match self.family {
            Family::Burst | Family::Timeouts | Family::Shutdown | Family::Eager => *r.pick(&[1usize, 1, 2, 2, 3]),
            Family::Abandon => *r.pick(&[4usize, 8, 32]),
            Family::Streak => 32,
            _ => *r.pick(CAPS),
        };
        let so = |r: &mut Rng, okw: u64| match r.weighted(&[okw, 1, 1]) {
            0 => "ok",
            1 => "err",
            _ => "panic",
        };
        let start = so(r, if self.family == Family::Mixed { 10 } else { 40 });
        let stop = so(r, 8);
        let nrun = match self.family {
            Family::Idle | Family::Eager => 1 + r.below(5),
            _ => r.below(3),
        };
        let mut run = vec![];
        for _ in 0..nrun {
            run.push(match r.weighted(&[6, 3, 1, 1]) {
                0 => "c",
                1 => "d",
                2 => "e",
                _ => "p",
            });
        }
        // without an explicit entry an on_run future continues; end most scripts' lists with a
        // disable so that idle polling does not dominate
        if r.chance(1, 2) && self.family != Family::Idle {
            run.push("d");
        }
        format!("spawn cap={cap} start={start} stop={stop} run={}", run.join(","))
    }

    fn pick_handle(&mut self, w: &World, strong: bool) -> String {
        let live: Vec<usize> = w
            .handles
            .iter()
            .enumerate()
            .filter(|(_, h)| match h {
                Some(H::Strong(_)) => strong,
                Some(H::Weak(_)) => !strong,
                None => false,
            })
            .map(|(i, _)| i)
            .collect();
        if live.is_empty() || self.rng.chance(1, 25) {
            // the malformed stream: dropped / wrong-strength / never-created handles
            return format!("{}", self.rng.below(w.handles.len() as u64 + 2));
        }
        format!("{}", self.rng.pick(&live))
    }

    fn send_line(&mut self, w: &World) -> String {
        let h = self.pick_handle(w, true);
        let out = if self.rng.chance(1, 40) { "panic" } else { "ok" };
        let tw = if self.family == Family::Timeouts { 6 } else { 2 };
        match self.rng.weighted(&[5, 5, tw, tw]) {
            0 => format!("tell {h} {out}"),
            1 => format!("ask {h} {out}"),
            2 => format!("tellt {h} {} {out}", self.rng.pick(&[5u64, 15, 25, 45])),
            _ => format!("askt {h} {} {out}", self.rng.pick(&[5u64, 15, 25, 45])),
        }
    }

    pub fn next(&mut self, world: Option<&World>) -> Option<String> {
        let Some(w) = world else {
            if self.emitted == 0 {
                self.emitted += 1;
                return Some(self.spawn_line());
            }
            return None;
        };
        self.emitted += 1;
        // closing sequence: release every gate, let every timer fire, release what that unblocked
        if self.emitted > self.len {
            use std::sync::atomic::Ordering;
            let waiting = w.sh.waiting.load(Ordering::SeqCst);
            if waiting && self.closing_gates < 400 {
                self.closing_gates += 1;
                return Some("gate".into());
            }
            if self.closing_ticks < 6 {
                self.closing_ticks += 1;
                return Some("tick".into());
            }
            return None;
        }
        let fam = self.family;
        let line = match fam {
            Family::Burst => {
                // phases: 0 start-up, 1 burst of sends, 2 cause, 3 drain
                let third = self.len / 3;
                if self.emitted <= 2 {
                    "gate".to_string()
                } else if self.emitted < third + 2 {
                    if self.rng.chance(1, 8) { "gate".into() } else { self.send_line(w) }
                } else if self.phase == 0 {
                    self.phase = 1;
                    let h = self.pick_handle(w, true);
                    match self.rng.below(5) {
                        0 => format!("stop {h}"),
                        1 => format!("kill {h}"),
                        2 => format!("drop {h}"),
                        3 => {
                            self.phase = 0; // a second cause follows
                            format!("stop {h}")
                        }
                        _ => format!("kill {h}"),
                    }
                } else {
                    match self.rng.weighted(&[10, 4, 1, 1, 1]) {
                        0 => "gate".to_string(),
                        1 => self.send_line(w),
                        2 => format!("kill {}", self.pick_handle(w, true)),
                        3 => format!("drop {}", self.pick_handle(w, true)),
                        _ => "tick".to_string(),
                    }
                }
            }
            Family::Shutdown => {
                use std::sync::atomic::Ordering;
                let in_stop = w.sh.in_stop.load(Ordering::SeqCst);
                let backlog = 2 + (self.len % 7);
                if self.emitted <= 2 {
                    "gate".to_string()
                } else if self.emitted < backlog + 2 {
                    self.send_line(w)
                } else if self.phase == 0 {
                    self.phase = 1;
                    let h = self.pick_handle(w, true);
                    if self.rng.chance(1, 6) { format!("drop {h}") } else { format!("stop {h}") }
                } else if in_stop {
                    // on_stop is suspended: this is the window
                    match self.rng.weighted(&[6, 4, 4, 2, 1, 1, 1]) {
                        0 => "gate".to_string(),
                        1 => format!("kill {}", self.pick_handle(w, true)),
                        2 => self.send_line(w),
                        3 => "tick".to_string(),
                        4 => format!("stop {}", self.pick_handle(w, true)),
                        5 => format!("drop {}", self.pick_handle(w, true)),
                        _ => format!("alive {}", self.pick_handle(w, true)),
                    }
                } else {
                    match self.rng.weighted(&[12, 5, 1, 1, 1, 1]) {
                        0 => "gate".to_string(),
                        1 => self.send_line(w),
                        2 => format!("kill {}", self.pick_handle(w, true)),
                        3 => "tick".to_string(),
                        4 => format!("stop {}", self.pick_handle(w, true)),
                        _ => format!("clone {}", self.pick_handle(w, true)),
                    }
                }
            }
            Family::Handles => match self.rng.weighted(&[6, 5, 6, 4, 4, 6, 10, 1, 1, 1]) {
                0 => format!("clone {}", {
                    let s = self.rng.chance(3, 4);
                    self.pick_handle(w, s)
                }),
                1 => format!("drop {}", {
                    let s = self.rng.chance(3, 4);
                    self.pick_handle(w, s)
                }),
                2 => format!("downgrade {}", self.pick_handle(w, true)),
                3 => format!("upgrade {}", self.pick_handle(w, false)),
                4 => format!("alive {}", {
                    let s = self.rng.chance(1, 2);
                    self.pick_handle(w, s)
                }),
                5 => self.send_line(w),
                6 => "gate".to_string(),
                7 => format!("stop {}", self.pick_handle(w, true)),
                8 => format!("kill {}", self.pick_handle(w, true)),
                _ => "tick".to_string(),
            },
            Family::Idle => match self.rng.weighted(&[12, 6, 1, 1, 2]) {
                0 => "gate".to_string(),
                1 => self.send_line(w),
                2 => format!("stop {}", self.pick_handle(w, true)),
                3 => format!("kill {}", self.pick_handle(w, true)),
                _ => "tick".to_string(),
            },
            Family::Timeouts => match self.rng.weighted(&[6, 10, 5, 1, 1]) {
                0 => "gate".to_string(),
                1 => self.send_line(w),
                2 => "tick".to_string(),
                3 => format!("stop {}", self.pick_handle(w, true)),
                _ => format!("kill {}", self.pick_handle(w, true)),
            },
            Family::Streak => {
                let e = self.emitted;
                let body_end = self.len - 8;
                if e <= 2 {
                    "gate".to_string()
                } else if e <= body_end {
                    // permit first, then the message: its handler does not suspend
                    if (e - 3) % 2 == 0 { "pregate".to_string() } else { "tell 0 ok".to_string() }
                } else {
                    match e - body_end {
                        1 => if self.rng.chance(1, 2) { "tell 0 ok".to_string() } else { "ask 0 ok".to_string() },
                        2 | 3 => "stall".to_string(),
                        4 => "gate".to_string(),
                        5 => "tell 0 ok".to_string(),
                        6 => "stall".to_string(),
                        _ => "gate".to_string(),
                    }
                }
            }
            Family::Abandon => {
                // start-up; one gated handler; sends with short deadlines queue behind it and expire there;
                // the handler is released; then the (idle) actor is killed, stopped, sent one more message or left alone
                let e = self.emitted;
                let n_ab = 1 + (self.len % 3);
                if e <= 2 {
                    "gate".to_string()
                } else if e == 3 {
                    "tell 0 ok".to_string()
                } else if e < 4 + n_ab {
                    match self.rng.weighted(&[6, 2, 1]) {
                        0 => format!("askt 0 {} ok", self.rng.pick(&[5u64, 15])),
                        1 => format!("tellt 0 {} ok", self.rng.pick(&[5u64, 15])),
                        _ => "tell 0 ok".to_string(),
                    }
                } else if e < 4 + n_ab + 3 {
                    "tick".to_string()
                } else if e < 4 + n_ab + 3 + 2 {
                    "gate".to_string()
                } else if e == 4 + n_ab + 5 {
                    match self.rng.weighted(&[4, 3, 1, 1]) {
                        0 => "kill 0".to_string(),
                        1 => "stop 0".to_string(),
                        2 => "ask 0 ok".to_string(),
                        _ => "tick".to_string(),
                    }
                } else {
                    match self.rng.weighted(&[3, 1]) {
                        0 => "gate".to_string(),
                        _ => "tick".to_string(),
                    }
                }
            }
            Family::Flood => {
                if self.emitted <= 2 {
                    "gate".to_string()
                } else if self.emitted == 3 {
                    format!("{} 0", if self.len % 2 == 0 { "stop" } else { "kill" })
                } else if self.emitted <= 6 {
                    "gate".to_string()
                } else {
                    // one operation kind per script, repeated: the same actor, operation and reason every time
                    match self.len % 4 {
                        0 => "tell 0 ok".to_string(),
                        1 => "ask 0 ok".to_string(),
                        2 => "tellt 0 15 ok".to_string(),
                        _ => "askt 0 15 ok".to_string(),
                    }
                }
            }
            Family::Eager => match self.rng.weighted(&[6, 14, 3, 1, 1, 8, 1, 1]) {
                0 => "gate".to_string(),
                1 => self.send_line(w),
                2 => "tick".to_string(),
                3 => format!("stop {}", self.pick_handle(w, true)),
                4 => format!("kill {}", self.pick_handle(w, true)),
                5 => "pregate".to_string(),
                6 => format!("drop {}", self.pick_handle(w, true)),
                _ => format!("clone {}", self.pick_handle(w, true)),
            },
            Family::Mixed => match self.rng.weighted(&[12, 14, 3, 1, 1, 2, 2, 1, 1, 2]) {
                0 => "gate".to_string(),
                1 => self.send_line(w),
                2 => "tick".to_string(),
                3 => format!("stop {}", self.pick_handle(w, true)),
                4 => format!("kill {}", self.pick_handle(w, true)),
                5 => format!("clone {}", self.pick_handle(w, true)),
                6 => format!("drop {}", {
                    let s = self.rng.chance(2, 3);
                    self.pick_handle(w, s)
                }),
                7 => format!("downgrade {}", self.pick_handle(w, true)),
                8 => format!("upgrade {}", self.pick_handle(w, false)),
                _ => format!("alive {}", {
                    let s = self.rng.chance(1, 2);
                    self.pick_handle(w, s)
                }),
            },
        };
        Some(line)
    }
}
