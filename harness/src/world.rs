//! Interpreter: script operations → real rsactor API calls on a paused current-thread runtime.
use crate::log::{self, WithOp};
use rsactor::{Actor, ActorRef, ActorResult, ActorWeak, Message};
use std::sync::atomic::{AtomicBool, AtomicUsize, Ordering};
use std::sync::Arc;
use std::time::Duration;
use tokio::sync::Semaphore;

#[derive(Clone, Copy, Debug, PartialEq)]
pub enum SOut { Ok, Err, Panic }
#[derive(Clone, Copy, Debug, PartialEq)]
pub enum ROut { Cont, Disable, Err, Panic }

pub struct Shared {
    pub gate: Semaphore,
    pub waiting: AtomicBool,
    /// on_stop has been entered (generator steering only)
    pub in_stop: AtomicBool,
    /// handlers that have run to their end (normally or by the scripted panic), and the longest /
    /// total time (std clock, ns) spent strictly inside a handler body — the metrics oracle's view
    pub handler_ends: std::sync::atomic::AtomicU64,
    pub max_inner_ns: std::sync::atomic::AtomicU64,
    pub start_out: SOut,
    pub stop_out: SOut,
    pub run_outs: Vec<ROut>,
    pub run_idx: AtomicUsize,
}

struct WaitFlag<'a>(&'a AtomicBool);
impl Drop for WaitFlag<'_> {
    fn drop(&mut self) {
        self.0.store(false, Ordering::SeqCst);
    }
}

async fn gate_wait(sh: &Shared) {
    sh.waiting.store(true, Ordering::SeqCst);
    let _flag = WaitFlag(&sh.waiting);
    let p = sh.gate.acquire().await.expect("gate closed");
    p.forget();
}

#[derive(Debug)]
pub enum ErrSrc { Start, Run, Stop }

pub struct ScriptActor {
    sh: Arc<Shared>,
    pub hooks: Vec<String>,
}

impl Actor for ScriptActor {
    type Args = Arc<Shared>;
    type Error = ErrSrc;

    async fn on_start(sh: Arc<Shared>, _r: &ActorRef<Self>) -> Result<Self, ErrSrc> {
        gate_wait(&sh).await;
        match sh.start_out {
            SOut::Ok => {
                log::actor("startEnd ok".into());
                Ok(ScriptActor { sh, hooks: vec!["start".into()] })
            }
            SOut::Err => {
                log::actor("startEnd err".into());
                Err(ErrSrc::Start)
            }
            SOut::Panic => {
                log::actor("startEnd panic".into());
                panic!("scripted panic in on_start")
            }
        }
    }

    async fn on_run(&mut self, _w: &ActorWeak<Self>) -> Result<bool, ErrSrc> {
        let k = self.sh.run_idx.fetch_add(1, Ordering::SeqCst);
        log::actor(format!("runPoll {k}"));
        gate_wait(&self.sh).await;
        self.hooks.push(format!("r{k}"));
        match self.sh.run_outs.get(k).copied().unwrap_or(ROut::Cont) {
            ROut::Cont => {
                log::actor(format!("runEnd {k} cont"));
                Ok(true)
            }
            ROut::Disable => {
                log::actor(format!("runEnd {k} disable"));
                Ok(false)
            }
            ROut::Err => {
                log::actor(format!("runEnd {k} err"));
                Err(ErrSrc::Run)
            }
            ROut::Panic => {
                log::actor(format!("runEnd {k} panic"));
                panic!("scripted panic in on_run")
            }
        }
    }

    async fn on_stop(&mut self, _w: &ActorWeak<Self>, killed: bool) -> Result<(), ErrSrc> {
        log::actor(format!("stopStart killed={killed}"));
        self.sh.in_stop.store(true, Ordering::SeqCst);
        gate_wait(&self.sh).await;
        self.hooks.push(format!("stop:{killed}"));
        match self.sh.stop_out {
            SOut::Ok => {
                log::actor("stopEnd ok".into());
                Ok(())
            }
            SOut::Err => {
                log::actor("stopEnd err".into());
                Err(ErrSrc::Stop)
            }
            SOut::Panic => {
                log::actor("stopEnd panic".into());
                panic!("scripted panic in on_stop")
            }
        }
    }
}

pub struct Msg {
    pub mid: u64,
    pub panic: bool,
}

impl Message<Msg> for ScriptActor {
    type Reply = u64;
    async fn handle(&mut self, m: Msg, _r: &ActorRef<Self>) -> u64 {
        let t_in = std::time::Instant::now();
        log::actor(format!("handlerStart {}", m.mid));
        self.hooks.push(format!("h{}", m.mid));
        let sh = self.sh.clone();
        gate_wait(&sh).await;
        sh.max_inner_ns.fetch_max(t_in.elapsed().as_nanos() as u64, Ordering::SeqCst);
        sh.handler_ends.fetch_add(1, Ordering::SeqCst);
        if m.panic {
            log::actor(format!("handlerEnd {} panic", m.mid));
            panic!("scripted panic in handler")
        }
        log::actor(format!("handlerEnd {} ok", m.mid));
        m.mid
    }
    fn on_tell_result(result: &u64, _r: &ActorRef<Self>) {
        log::actor(format!("tellResult {result}"));
    }
}

fn show_result(r: Result<ActorResult<ScriptActor>, tokio::task::JoinError>) -> String {
    match r {
        Err(e) if e.is_panic() => "panic".into(),
        Err(_) => "cancelled".into(),
        Ok(ActorResult::Completed { actor, killed }) => {
            format!("completed killed={killed} actor=[{}]", actor.hooks.join(","))
        }
        Ok(ActorResult::Failed { actor, error, phase, killed }) => {
            let a = match actor {
                Some(a) => format!("[{}]", a.hooks.join(",")),
                None => "none".into(),
            };
            let e = match error {
                ErrSrc::Start => "start",
                ErrSrc::Run => "run",
                ErrSrc::Stop => "stop",
            };
            format!("failed phase={phase} err={e} killed={killed} actor={a}")
        }
    }
}

fn show_err(e: &rsactor::Error) -> &'static str {
    match e {
        rsactor::Error::Send { .. } => "send",
        rsactor::Error::Receive { .. } => "receive",
        rsactor::Error::Timeout { .. } => "timeout",
        rsactor::Error::Downcast { .. } => "downcast",
        rsactor::Error::Runtime { .. } => "runtime",
        rsactor::Error::MailboxCapacity { .. } => "mailbox_capacity",
        rsactor::Error::Join { .. } => "join",
        #[allow(unreachable_patterns)]
        _ => "other",
    }
}

pub enum H {
    Strong(ActorRef<ScriptActor>),
    Weak(ActorWeak<ScriptActor>),
}

pub struct World {
    pub sh: Arc<Shared>,
    pub t0: tokio::time::Instant,
    pub handles: Vec<Option<H>>, // index = hid; None = dropped
    pub next_oid: u64,
    /// route operations through type-erased wrappers chosen from this stream (C16); None = direct
    pub erase: Option<crate::rng::Rng>,
    /// last message_count seen (metrics oracle: never decreases)
    pub last_count: u64,
}

impl World {
    /// C20 oracle, applied at every quiescent point to every strong handle (also long after the actor
    /// has ended): the collector against the harness's own account of what the handlers did.
    #[cfg(feature = "metrics")]
    pub fn check_metrics(&mut self, out: &mut Vec<String>) {
        let ends = self.sh.handler_ends.load(Ordering::SeqCst);
        let max_inner = self.sh.max_inner_ns.load(Ordering::SeqCst) as u128;
        let mut seen = None;
        for (hid, h) in self.handles.iter().enumerate() {
            let r = match h {
                Some(H::Strong(r)) => r.clone(),
                Some(H::Weak(w)) => match w.upgrade() {
                    Some(r) => r,
                    None => continue,
                },
                None => continue,
            };
            let (c, avg, max, errs) = (r.message_count(), r.avg_processing_time(), r.max_processing_time(), r.error_count());
            let snap = r.metrics();
            if c != ends {
                out.push(format!("message_count() = {c} through handle {hid} but {ends} handler(s) have been entered and left"));
            }
            if c < self.last_count {
                out.push(format!("message_count() went down from {} to {c}", self.last_count));
            }
            if avg > max {
                out.push(format!("avg_processing_time {avg:?} > max_processing_time {max:?} at quiescence"));
            }
            if max.as_nanos() < max_inner {
                out.push(format!("max_processing_time {max:?} is below {max_inner} ns demonstrably spent inside one handler"));
            }
            if snap.message_count != c || snap.avg_processing_time != avg || snap.max_processing_time != max || snap.error_count != errs {
                out.push(format!("metrics() snapshot {snap:?} disagrees with the accessors ({c}, {avg:?}, {max:?}, {errs})"));
            }
            if let Some(prev) = seen {
                if prev != c {
                    out.push(format!("two handles of one actor report different message counts: {prev} and {c}"));
                }
            }
            seen = Some(c);
        }
        if let Some(c) = seen {
            self.last_count = c;
        }
    }
    #[cfg(not(feature = "metrics"))]
    pub fn check_metrics(&mut self, _out: &mut Vec<String>) {}
}

fn words(line: &str) -> Vec<&str> {
    line.split_whitespace().collect()
}

pub fn parse_spawn(ws: &[&str]) -> Option<(usize, Shared)> {
    let mut cap = 0usize;
    let mut sh = Shared {
        gate: Semaphore::new(0),
        waiting: AtomicBool::new(false),
        in_stop: AtomicBool::new(false),
        handler_ends: std::sync::atomic::AtomicU64::new(0),
        max_inner_ns: std::sync::atomic::AtomicU64::new(0),
        start_out: SOut::Ok,
        stop_out: SOut::Ok,
        run_outs: vec![],
        run_idx: AtomicUsize::new(0),
    };
    let so = |v: &str| match v {
        "ok" => Some(SOut::Ok),
        "err" => Some(SOut::Err),
        "panic" => Some(SOut::Panic),
        _ => None,
    };
    for w in ws {
        let (k, v) = w.split_once('=')?;
        match k {
            "cap" => cap = v.parse().ok()?,
            "start" => sh.start_out = so(v)?,
            "stop" => sh.stop_out = so(v)?,
            "run" => {
                for r in v.split(',').filter(|x| !x.is_empty()) {
                    sh.run_outs.push(match r {
                        "c" => ROut::Cont,
                        "d" => ROut::Disable,
                        "e" => ROut::Err,
                        "p" => ROut::Panic,
                        _ => return None,
                    });
                }
            }
            _ => return None,
        }
    }
    if cap == 0 {
        return None;
    }
    Some((cap, sh))
}

impl World {
    fn now(&self) -> u128 {
        self.t0.elapsed().as_millis()
    }
    fn strong(&self, h: &str) -> Option<ActorRef<ScriptActor>> {
        let i: usize = h.parse().ok()?;
        match self.handles.get(i)? {
            Some(H::Strong(r)) => Some(r.clone()),
            _ => None,
        }
    }

    /// Applies one operation. Returns false when the operation is malformed / not enabled.
    pub fn apply(&mut self, line: &str) -> bool {
        let ws = words(line);
        match ws.as_slice() {
            [op @ ("tell" | "ask"), h, out] => self.send(op, h, out, None),
            [op @ ("tellt" | "askt"), h, d, out] => {
                let d: u64 = match d.parse() {
                    Ok(d) => d,
                    Err(_) => return false,
                };
                self.send(&op[..op.len() - 1], h, out, Some(d))
            }
            ["stop", h] => {
                let Some(r) = self.strong(h) else { return false };
                let oid = self.next_oid;
                self.next_oid += 1;
                let t0 = self.t0;
                log::client(oid, format!("issued stop @{}", self.now()));
                let erased = self.erase.as_mut().map(|g| g.below(2) == 1).unwrap_or(false);
                tokio::spawn(WithOp {
                    oid,
                    fut: async move {
                        let res = if erased {
                            let c: Box<dyn rsactor::ActorControl> = (&r).into();
                            drop(r);
                            c.stop().await
                        } else {
                            r.stop().await
                        };
                        match res {
                            Ok(()) => log::client(oid, format!("ret ok @{}", t0.elapsed().as_millis())),
                            Err(e) => log::client(oid, format!("ret {} @{}", show_err(&e), t0.elapsed().as_millis())),
                        }
                    },
                });
                true
            }
            ["kill", h] => {
                let Some(r) = self.strong(h) else { return false };
                let oid = self.next_oid;
                self.next_oid += 1;
                let t0 = self.t0;
                log::client(oid, format!("issued kill @{}", self.now()));
                let erased = self.erase.as_mut().map(|g| g.below(2) == 1).unwrap_or(false);
                let res = log::CURRENT_OP.with(|c| {
                    let prev = c.replace(Some(oid));
                    let res = if erased {
                        let c2: Box<dyn rsactor::ActorControl> = r.into();
                        c2.kill()
                    } else {
                        r.kill()
                    };
                    c.set(prev);
                    res
                });
                match res {
                    Ok(()) => log::client(oid, format!("ret ok @{}", t0.elapsed().as_millis())),
                    Err(e) => log::client(oid, format!("ret {} @{}", show_err(&e), t0.elapsed().as_millis())),
                }
                true
            }
            ["clone", h] => {
                let Ok(i) = h.parse::<usize>() else { return false };
                let new = match self.handles.get(i) {
                    Some(Some(H::Strong(r))) => H::Strong(r.clone()),
                    Some(Some(H::Weak(w))) => H::Weak(w.clone()),
                    _ => return false,
                };
                let st = matches!(new, H::Strong(_));
                log::handle(format!("new {} strong={st}", self.handles.len()));
                self.handles.push(Some(new));
                true
            }
            ["drop", h] => {
                let Ok(i) = h.parse::<usize>() else { return false };
                match self.handles.get_mut(i) {
                    Some(slot @ Some(_)) => {
                        log::handle(format!("drop {i}"));
                        *slot = None;
                        true
                    }
                    _ => false,
                }
            }
            ["downgrade", h] => {
                let Some(r) = self.strong(h) else { return false };
                if self.erase.as_mut().map(|g| g.below(2) == 1).unwrap_or(false) {
                    let c: Box<dyn rsactor::ActorControl> = (&r).into();
                    let wc = c.downgrade();
                    if wc.identity() != r.identity() || wc.is_alive() != ActorRef::downgrade(&r).is_alive() {
                        log::handle("erased-downgrade-mismatch".into());
                    }
                }
                log::handle(format!("new {} strong=false", self.handles.len()));
                self.handles.push(Some(H::Weak(ActorRef::downgrade(&r))));
                true
            }
            ["upgrade", h] => {
                let Ok(i) = h.parse::<usize>() else { return false };
                let erased = self.erase.as_mut().map(|g| g.below(3)).unwrap_or(0);
                let up = match self.handles.get(i) {
                    Some(Some(H::Weak(w))) => {
                        let direct = w.upgrade();
                        // the erased weak handles must agree with the direct upgrade (and hold nothing themselves)
                        let agree = match erased {
                            1 => {
                                let wc: Box<dyn rsactor::WeakActorControl> = w.into();
                                let u = wc.upgrade();
                                let ok = u.is_some() == direct.is_some()
                                    && u.as_ref().map(|c| c.identity()) == direct.as_ref().map(|r| r.identity())
                                    && wc.identity() == w.identity();
                                drop(u);
                                ok
                            }
                            2 => {
                                let wt: Box<dyn rsactor::WeakTellHandler<Msg>> = w.clone().into();
                                let wt2 = wt.clone_boxed();
                                let u = wt2.upgrade();
                                let ok = u.is_some() == direct.is_some() && wt.as_weak_control().is_alive() == w.is_alive();
                                drop(u);
                                ok
                            }
                            _ => true,
                        };
                        if !agree {
                            log::handle(format!("erased-upgrade-mismatch {i}"));
                        }
                        direct
                    }
                    _ => return false,
                };
                match up {
                    Some(r) => {
                        log::handle(format!("new {} strong=true", self.handles.len()));
                        self.handles.push(Some(H::Strong(r)));
                    }
                    None => log::handle(format!("upgradeFailed {i}")),
                }
                true
            }
            ["alive", h] => {
                let Ok(i) = h.parse::<usize>() else { return false };
                let erased = self.erase.as_mut().map(|g| g.below(3)).unwrap_or(0);
                let b = match self.handles.get(i) {
                    Some(Some(H::Strong(r))) => match erased {
                        1 => {
                            let c: Box<dyn rsactor::ActorControl> = r.into();
                            let c2 = c.clone_boxed();
                            drop(c);
                            c2.is_alive()
                        }
                        2 => {
                            let t: Box<dyn rsactor::AskHandler<Msg, u64>> = r.into();
                            t.as_control().is_alive()
                        }
                        _ => r.is_alive(),
                    },
                    Some(Some(H::Weak(w))) => match erased {
                        1 => {
                            let c: Box<dyn rsactor::WeakActorControl> = w.into();
                            c.clone_boxed().is_alive()
                        }
                        2 => {
                            let t: Box<dyn rsactor::WeakAskHandler<Msg, u64>> = w.into();
                            t.as_weak_control().is_alive()
                        }
                        _ => w.is_alive(),
                    },
                    _ => return false,
                };
                log::handle(format!("alive {i} {b}"));
                true
            }
            ["gate"] => {
                if self.sh.waiting.load(Ordering::SeqCst) {
                    self.sh.gate.add_permits(1);
                }
                true
            }
            // a permit nobody is waiting for yet: the next hook that reaches its gate does not suspend
            ["pregate"] => {
                self.sh.gate.add_permits(1);
                true
            }
            ["tick"] => true,
            // real (std clock) time passes while whatever is suspended stays suspended: 2 ms
            ["stall"] => {
                std::thread::sleep(std::time::Duration::from_millis(2));
                true
            }
            _ => false,
        }
    }

    fn send(&mut self, op: &str, h: &str, out: &str, timeout: Option<u64>) -> bool {
        let Some(r) = self.strong(h) else { return false };
        let panic = match out {
            "ok" => false,
            "panic" => true,
            _ => return false,
        };
        let oid = self.next_oid;
        self.next_oid += 1;
        let t0 = self.t0;
        let t = timeout.map(|d| format!(" timeout={d}")).unwrap_or_default();
        log::client(oid, format!("issued {op}{t} @{}", self.now()));
        let msg = Msg { mid: oid, panic };
        let erased = self.erase.as_mut().map(|g| g.below(3)).unwrap_or(0);
        if op == "tell" {
            tokio::spawn(WithOp {
                oid,
                fut: async move {
                    let res = match erased {
                        0 => match timeout {
                            None => r.tell(msg).await,
                            Some(d) => r.tell_with_timeout(msg, Duration::from_millis(d)).await,
                        },
                        1 => {
                            let th: Box<dyn rsactor::TellHandler<Msg>> = r.into();
                            match timeout {
                                None => th.tell(msg).await,
                                Some(d) => th.tell_with_timeout(msg, Duration::from_millis(d)).await,
                            }
                        }
                        _ => {
                            // a chain: &ActorRef -> boxed -> clone_boxed -> downgrade -> upgrade
                            let th: Box<dyn rsactor::TellHandler<Msg>> = (&r).into();
                            drop(r);
                            let th2 = th.clone_boxed();
                            let wk = th2.downgrade();
                            drop(th);
                            let th3 = wk.upgrade().expect("upgrade while a strong handler exists");
                            drop(th2);
                            match timeout {
                                None => th3.tell(msg).await,
                                Some(d) => th3.tell_with_timeout(msg, Duration::from_millis(d)).await,
                            }
                        }
                    };
                    match res {
                        Ok(()) => log::client(oid, format!("ret ok @{}", t0.elapsed().as_millis())),
                        Err(e) => log::client(oid, format!("ret {} @{}", show_err(&e), t0.elapsed().as_millis())),
                    }
                },
            });
        } else {
            tokio::spawn(WithOp {
                oid,
                fut: async move {
                    let res = match erased {
                        0 => match timeout {
                            None => r.ask(msg).await,
                            Some(d) => r.ask_with_timeout(msg, Duration::from_millis(d)).await,
                        },
                        1 => {
                            let ah: Box<dyn rsactor::AskHandler<Msg, u64>> = r.into();
                            match timeout {
                                None => ah.ask(msg).await,
                                Some(d) => ah.ask_with_timeout(msg, Duration::from_millis(d)).await,
                            }
                        }
                        _ => {
                            let ah: Box<dyn rsactor::AskHandler<Msg, u64>> = (&r).into();
                            drop(r);
                            let ah2 = ah.clone_boxed();
                            let wk = ah2.downgrade();
                            drop(ah);
                            let ah3 = wk.upgrade().expect("upgrade while a strong handler exists");
                            drop(ah2);
                            match timeout {
                                None => ah3.ask(msg).await,
                                Some(d) => ah3.ask_with_timeout(msg, Duration::from_millis(d)).await,
                            }
                        }
                    };
                    match res {
                        Ok(v) => log::client(oid, format!("ret reply:{v} @{}", t0.elapsed().as_millis())),
                        Err(e) => log::client(oid, format!("ret {} @{}", show_err(&e), t0.elapsed().as_millis())),
                    }
                },
            });
        }
        true
    }
}

/// Runs a script whose next line is produced by `next_line` (given the real world's state, so a
/// generator can steer by what is actually alive); returns (script lines, text in the driver's format).
pub struct RunOut {
    pub script: Vec<String>,
    /// driver-format text with canonically ordered events (compared with the model)
    pub canon: Vec<String>,
    /// the same with events in the order they happened (fed to the monitors)
    pub raw: Vec<String>,
    /// at the end no hook was waiting for its gate
    pub settled: bool,
    /// failures of oracles applied to the real crate alone (not a comparison with the model)
    pub oracle: Vec<String>,
}

pub fn run_with<F: FnMut(Option<&World>) -> Option<String>>(
    mut next_line: F,
    erase_seed: Option<u64>,
) -> RunOut {
    log::install();
    log::reset();
    let mut out = vec![];
    let mut raw = vec![];
    let mut settled = false;
    let mut script = vec![];
    let mut oracle = vec![];
    let rt = tokio::runtime::Builder::new_current_thread()
        .enable_time()
        .start_paused(true)
        .build()
        .expect("runtime");
    rt.block_on(async {
        let mut world: Option<World> = None;
        while let Some(line) = next_line(world.as_ref()) {
            let ws = words(&line);
            if ws.is_empty() {
                continue;
            }
            script.push(line.trim().to_string());
            if ws[0] == "spawn" {
                match parse_spawn(&ws[1..]) {
                    Some((cap, sh)) => {
                        out.push(format!("> {}", line.trim()));
                        raw.push(format!("> {}", line.trim()));
                        let sh = Arc::new(sh);
                        let (r, jh) = rsactor::spawn_with_mailbox_capacity::<ScriptActor>(sh.clone(), cap);
                        tokio::spawn(async move {
                            let res = jh.await;
                            log::actor(format!("joined {}", show_result(res)));
                        });
                        world = Some(World {
                            sh,
                            t0: tokio::time::Instant::now(),
                            handles: vec![Some(H::Strong(r))],
                            next_oid: 0,
                            erase: erase_seed.map(crate::rng::Rng::new),
                            last_count: 0,
                        });
                    }
                    None => {
                        out.push("! bad-spawn".into());
                        world = None;
                        continue;
                    }
                }
            } else {
                match world.as_mut() {
                    None => {
                        out.push("! no-actor".into());
                        continue;
                    }
                    Some(w) => {
                        out.push(format!("> {}", line.trim()));
                        raw.push(format!("> {}", line.trim()));
                        if !w.apply(&line) {
                            out.push("! disabled".into());
                            out.push("--".into());
                            raw.push("--".into());
                            continue;
                        }
                    }
                }
            }
            // quiescence: with a paused clock Tokio advances time only when no task is runnable
            tokio::time::sleep(Duration::from_millis(10)).await;
            let (r, c) = log::take_both();
            out.extend(c);
            out.push("--".into());
            raw.extend(r);
            raw.push("--".into());
            if let Some(w) = world.as_mut() {
                let mut o = vec![];
                w.check_metrics(&mut o);
                for x in o {
                    if oracle.len() < 10 {
                        oracle.push(format!("after step {} ({}): {x}", script.len(), line.trim()));
                    }
                }
            }
        }
        settled = world.as_ref().map(|w| !w.sh.waiting.load(Ordering::SeqCst)).unwrap_or(true);
        drop(world);
    });
    drop(rt);
    RunOut { script, canon: out, raw, settled, oracle }
}

/// Runs a fixed script.
pub fn run_script(lines: &[String], erase_seed: Option<u64>) -> Vec<String> {
    let mut i = 0;
    run_with(
        |_| {
            let l = lines.get(i).cloned();
            i += 1;
            l
        },
        erase_seed,
    )
    .canon
}
