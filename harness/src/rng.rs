//! One tiny deterministic PRNG (splitmix64) so that a seed replays exactly.
#[derive(Clone)]
pub struct Rng(pub u64);
impl Rng {
    pub fn new(seed: u64) -> Self {
        Rng(seed.wrapping_mul(0x9E37_79B9_7F4A_7C15).wrapping_add(0x1234_5678_9ABC_DEF1))
    }
    pub fn next(&mut self) -> u64 {
        self.0 = self.0.wrapping_add(0x9E37_79B9_7F4A_7C15);
        let mut z = self.0;
        z = (z ^ (z >> 30)).wrapping_mul(0xBF58_476D_1CE4_E5B9);
        z = (z ^ (z >> 27)).wrapping_mul(0x94D0_49BB_1331_11EB);
        z ^ (z >> 31)
    }
    pub fn below(&mut self, n: u64) -> u64 {
        if n == 0 { 0 } else { self.next() % n }
    }
    pub fn chance(&mut self, num: u64, den: u64) -> bool {
        self.below(den) < num
    }
    pub fn pick<'a, T>(&mut self, xs: &'a [T]) -> &'a T {
        &xs[self.below(xs.len() as u64) as usize]
    }
    /// weighted choice: returns the index
    pub fn weighted(&mut self, ws: &[u64]) -> usize {
        let total: u64 = ws.iter().sum();
        let mut r = self.below(total.max(1));
        for (i, w) in ws.iter().enumerate() {
            if r < *w {
                return i;
            }
            r -= *w;
        }
        ws.len() - 1
    }
}
