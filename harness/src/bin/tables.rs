//! Differential test of the translator: evaluates the *real* pure functions of rsactor on
//! exhaustive small domains plus seeded random inputs, asks the Lean driver to evaluate the
//! functions translated from the same source on the same inputs, and compares.
//!
//! tables --driver <exe> --seed <n> [--report <file>]        (full run)
//! tables --cfg-child n1,n2,…                                 (internal: one process per once-cell history)

use harness::rng::Rng;
use rsactor::{Actor, ActorRef, ActorResult, FailurePhase, Message};
use std::io::Write;
use std::process::{Command, Stdio};

#[derive(Debug)]
struct Tok(u32);
#[derive(Debug)]
struct ErrTok(u32);
impl Actor for Tok {
    type Args = u32;
    type Error = ErrTok;
    async fn on_start(a: u32, _: &ActorRef<Self>) -> Result<Self, ErrTok> {
        Ok(Tok(a))
    }
}

fn opt(o: Option<u32>) -> String {
    match o {
        Some(x) => x.to_string(),
        None => "none".into(),
    }
}

fn ar_line(mk: &dyn Fn() -> ActorResult<Tok>) -> String {
    let r = mk();
    let mut s = format!(
        "is_completed={} was_killed={} stopped_normally={} is_startup_failed={} is_runtime_failed={} is_cleanup_failed={} is_stop_failed={} is_failed={} has_actor={}",
        r.is_completed(), r.was_killed(), r.stopped_normally(), r.is_startup_failed(), r.is_runtime_failed(),
        r.is_cleanup_failed(), r.is_stop_failed(), r.is_failed(), r.has_actor()
    );
    s += &format!(" actor={} error={}", opt(r.actor().map(|a| a.0)), opt(r.error().map(|e| e.0)));
    s += &format!(" into_actor={}", opt(mk().into_actor().map(|a| a.0)));
    s += &format!(" into_error={}", opt(mk().into_error().map(|e| e.0)));
    let (a, e): (Option<Tok>, Option<ErrTok>) = mk().into();
    s += &format!(" tuple=({},{})", opt(a.map(|a| a.0)), opt(e.map(|e| e.0)));
    s += &match mk().to_result() {
        Ok(a) => format!(" to_result=ok:{}", a.0),
        Err(e) => format!(" to_result=err:{}", e.0),
    };
    s
}

/// the accessor laws of C05, written out independently of the implementation
fn ar_expected(completed: bool, actor: Option<u32>, error: Option<u32>, phase: Option<FailurePhase>, killed: bool) -> String {
    let is = |p: FailurePhase| phase == Some(p);
    let runtime = is(FailurePhase::OnRun) || is(FailurePhase::OnRunThenOnStop);
    format!(
        "is_completed={} was_killed={} stopped_normally={} is_startup_failed={} is_runtime_failed={} is_cleanup_failed={} is_stop_failed={} is_failed={} has_actor={} actor={} error={} into_actor={} into_error={} tuple=({},{}) to_result={}",
        completed, killed, completed && !killed, is(FailurePhase::OnStart), runtime, is(FailurePhase::OnRunThenOnStop),
        is(FailurePhase::OnStop), !completed, actor.is_some(), opt(actor), opt(error), opt(actor), opt(error), opt(actor), opt(error),
        if completed { format!("ok:{}", actor.unwrap()) } else { format!("err:{}", error.unwrap()) }
    )
}

/// reference reachability (>= 1 step) in a functional graph given as an association list
fn reach(g: &[(u64, u64)], from: u64, to: u64) -> bool {
    let next = |x: u64| g.iter().find(|(k, _)| *k == x).map(|(_, v)| *v);
    let mut seen = std::collections::BTreeSet::new();
    let mut cur = from;
    loop {
        match next(cur) {
            None => return false,
            Some(n) => {
                if n == to { return true; }
                if !seen.insert(n) { return false; }
                cur = n;
            }
        }
    }
}

fn phase_name(p: FailurePhase) -> &'static str {
    match p {
        FailurePhase::OnStart => "OnStart",
        FailurePhase::OnRun => "OnRun",
        FailurePhase::OnStop => "OnStop",
        FailurePhase::OnRunThenOnStop => "OnRunThenOnStop",
    }
}

fn edges_str(e: &[(u64, u64)]) -> String {
    if e.is_empty() {
        "-".into()
    } else {
        e.iter().map(|(k, v)| format!("{k}:{v}")).collect::<Vec<_>>().join(",")
    }
}

struct Blocker;
impl Actor for Blocker {
    type Args = ();
    type Error = ErrTok;
    async fn on_start(_: (), _: &ActorRef<Self>) -> Result<Self, ErrTok> {
        Ok(Blocker)
    }
}
struct Block;
impl Message<Block> for Blocker {
    type Reply = ();
    async fn handle(&mut self, _: Block, _: &ActorRef<Self>) {
        std::future::pending::<()>().await
    }
}

/// one once-cell history in a fresh process: results of the calls, then the capacity `spawn` uses
fn cfg_child(arg: &str) {
    let mut out = vec![];
    for n in arg.split(',').filter(|x| !x.is_empty()) {
        if n == "s" {
            // an actor spawned (and dropped) before / between the configuration calls
            let rt = tokio::runtime::Builder::new_current_thread().enable_time().build().unwrap();
            rt.block_on(async {
                let (r, jh) = rsactor::spawn::<Blocker>(());
                let _ = r.kill();
                let _ = jh.await;
            });
            continue;
        }
        // "t<n>": the call is made from another thread (the default is process-wide)
        let (other_thread, n) = match n.strip_prefix('t') { Some(x) => (true, x), None => (false, n) };
        let n: usize = n.parse().unwrap();
        let call = move || match rsactor::set_default_mailbox_capacity(n) {
            Ok(()) => "ok".to_string(),
            Err(rsactor::Error::MailboxCapacity { .. }) => "MailboxCapacity".to_string(),
            Err(_) => "other".to_string(),
        };
        out.push(if other_thread { std::thread::spawn(call).join().unwrap_or_else(|_| "panicked".into()) } else { call() });
    }
    // measure the capacity on a thread of its own: one message sits in the (never finishing) handler, `cap` more are accepted
    let cap = std::thread::spawn(measure_default_capacity).join().unwrap_or(usize::MAX);
    println!("{};cap={}", out.join(","), cap);
}

fn measure_default_capacity() -> usize {
    let rt = tokio::runtime::Builder::new_current_thread().enable_time().start_paused(true).build().unwrap();
    let cap = rt.block_on(async {
        let (r, _jh) = rsactor::spawn::<Blocker>(());
        r.tell(Block).await.unwrap();
        tokio::time::sleep(std::time::Duration::from_millis(1)).await;
        let mut n = 0usize;
        loop {
            match r.tell_with_timeout(Block, std::time::Duration::from_millis(1)).await {
                Ok(()) => n += 1,
                Err(_) => break,
            }
            if n > 100_000 {
                break;
            }
        }
        n
    });
    cap
}

fn main() {
    harness::quiet_panics();
    let args: Vec<String> = std::env::args().collect();
    if args.len() == 3 && args[1] == "--cfg-child" {
        cfg_child(&args[2]);
        return;
    }
    let mut driver = "/verif/lean/.lake/build/bin/driver".to_string();
    let mut seed = 1u64;
    let mut report = None;
    let mut i = 1;
    while i < args.len() {
        match args[i].as_str() {
            "--driver" => { driver = args[i + 1].clone(); i += 1 }
            "--seed" => { seed = args[i + 1].parse().unwrap(); i += 1 }
            "--report" => { report = Some(args[i + 1].clone()); i += 1 }
            o => panic!("unknown argument {o}"),
        }
        i += 1;
    }
    let mut rng = Rng::new(seed);
    // (input line for the driver, real output)
    let mut cases: Vec<(String, String)> = vec![];
    // independent expectations for the real outputs (property oracles): (input, expected, what)
    let mut oracle: Vec<(String, String, &'static str)> = vec![];

    // --- ActorResult: all 18 shapes with distinct payload tokens
    for killed in [false, true] {
        cases.push((format!("tables ar C 7 {killed}"), ar_line(&|| ActorResult::Completed { actor: Tok(7), killed })));
        oracle.push((format!("tables ar C 7 {killed}"), ar_expected(true, Some(7), None, None, killed), "C05 accessor laws"));
        for phase in [FailurePhase::OnStart, FailurePhase::OnRun, FailurePhase::OnStop, FailurePhase::OnRunThenOnStop] {
            for actor in [None, Some(7u32)] {
                cases.push((
                    format!("tables ar F {} 9 {} {killed}", opt(actor), phase_name(phase)),
                    ar_line(&|| ActorResult::Failed { actor: actor.map(Tok), error: ErrTok(9), phase, killed }),
                ));
                oracle.push((format!("tables ar F {} 9 {} {killed}", opt(actor), phase_name(phase)),
                    ar_expected(false, actor, Some(9), Some(phase), killed), "C05 accessor laws"));
            }
        }
    }
    // --- Error::is_retryable on every variant
    let id = rsactor::Identity::new(1, "N");
    let join_err = {
        let rt = tokio::runtime::Builder::new_current_thread().build().unwrap();
        rt.block_on(async {
            let h = tokio::spawn(async { std::future::pending::<()>().await });
            h.abort();
            h.await.unwrap_err()
        })
    };
    let errs: Vec<(&str, rsactor::Error)> = vec![
        ("Send", rsactor::Error::Send { identity: id, details: String::new() }),
        ("Receive", rsactor::Error::Receive { identity: id, details: String::new() }),
        ("Timeout", rsactor::Error::Timeout { identity: id, timeout: std::time::Duration::from_millis(5), operation: "ask".into() }),
        ("Downcast", rsactor::Error::Downcast { identity: id, expected_type: String::new() }),
        ("Runtime", rsactor::Error::Runtime { identity: id, details: String::new() }),
        ("MailboxCapacity", rsactor::Error::MailboxCapacity { message: String::new() }),
        ("Join", rsactor::Error::Join { identity: id, source: join_err }),
    ];
    for (n, e) in &errs {
        cases.push((format!("tables retry {n}"), format!("{}", e.is_retryable())));
        oracle.push((format!("tables retry {n}"), format!("{}", *n == "Timeout"), "C10 only Timeout is retryable"));
    }
    // --- has_path / format_cycle_path: every functional graph on ≤ 4 nodes (exhaustive), then random larger ones
    let mut graphs: Vec<Vec<(u64, u64)>> = vec![];
    for n in 0..=4u64 {
        let total = (n + 1).pow(n as u32);
        for code in 0..total {
            let mut c = code;
            let mut g = vec![];
            for k in 1..=n {
                let v = c % (n + 1);
                c /= n + 1;
                if v != 0 {
                    g.push((k, v));
                }
            }
            graphs.push(g);
        }
    }
    let exhaustive_graphs = graphs.len();
    for _ in 0..300 {
        let n = 5 + rng.below(8);
        let mut g = vec![];
        for k in 1..=n {
            if rng.chance(4, 5) {
                g.push((k, 1 + rng.below(n + 1)));
            }
        }
        graphs.push(g);
    }
    for (gi, g) in graphs.iter().enumerate() {
        let n = g.iter().map(|(k, v)| *k.max(v)).max().unwrap_or(1).max(2);
        let pairs: Vec<(u64, u64)> = if gi < exhaustive_graphs {
            (1..=n.min(4)).flat_map(|a| (1..=n.min(4)).map(move |b| (a, b))).collect()
        } else {
            (0..6).map(|_| (1 + rng.below(n + 1), 1 + rng.below(n + 1))).collect()
        };
        for (a, b) in pairs {
            cases.push((
                format!("tables hp {a} {b} {}", edges_str(g)),
                format!("{}", rsactor::verif_hooks::has_path(g, a, b)),
            ));
            oracle.push((format!("tables hp {a} {b} {}", edges_str(g)), format!("{}", reach(g, a, b)), "C14/C15 has_path = reachability in >= 1 step"));
            // format_cycle_path is only called when a cycle was detected; evaluate it everywhere anyway
            let s = rsactor::verif_hooks::format_cycle_path(g, a, b);
            let ids: Vec<String> = s
                .split(" -> ")
                .map(|p| p.trim_start_matches("N(#").trim_end_matches(')').to_string())
                .collect();
            cases.push((format!("tables fcp {a} {b} {}", edges_str(g)), ids.join(" ")));
        }
    }
    // --- metrics arithmetic (saturation included)
    let mut dur_sets: Vec<Vec<u64>> = vec![vec![], vec![0], vec![1], vec![u64::MAX], vec![u64::MAX, 1], vec![u64::MAX, u64::MAX, u64::MAX], vec![3, 4], vec![1, 2, 3, 4, 5]];
    for _ in 0..200 {
        let n = rng.below(12);
        dur_sets.push((0..n).map(|_| match rng.below(6) {
            0 => u64::MAX - rng.below(10),
            1 => rng.below(5),
            2 => u64::MAX / 2 + rng.below(1000),
            _ => rng.below(1_000_000_000),
        }).collect());
    }
    for d in &dur_sets {
        let (a, s) = rsactor::verif_hooks::metrics_fold(d);
        let ds = if d.is_empty() { "-".to_string() } else { d.iter().map(|x| x.to_string()).collect::<Vec<_>>().join(",") };
        cases.push((format!("tables metrics {ds}"), format!("{} {} {} {} | {} {} {} {}", a.0, a.1, a.2, a.3, s.0, s.1, s.2, s.3)));
        {
            let n = d.len() as u64;
            let mx = d.iter().copied().max().unwrap_or(0);
            let total = d.iter().fold(0u64, |t, x| t.saturating_add(*x));
            let avg = if n > 0 { total / n } else { 0 };
            oracle.push((format!("tables metrics {ds}"), format!("{n} {avg} {mx} 0 | {n} {avg} {mx} 0"), "C20 count/avg/max arithmetic, snapshot = accessors"));
        }
    }
    // --- once-only default capacity: one subprocess per history
    let exe = std::env::current_exe().unwrap();
    for hist in ["", "5", "0", "0,4", "3,9", "7,0", "1", "33", "2,2", "0,0,6,8"] {
        let out = Command::new(&exe).args(["--cfg-child", hist]).output().expect("cfg child");
        let text = String::from_utf8_lossy(&out.stdout).trim().to_string();
        cases.push((format!("tables cfg {}", if hist.is_empty() { "-" } else { hist }), text));
        {
            let mut cell: Option<usize> = None;
            let mut outs = vec![];
            for n in hist.split(',').filter(|x| !x.is_empty()) {
                let n: usize = n.parse().unwrap();
                if n > 0 && cell.is_none() { cell = Some(n); outs.push("ok") } else { outs.push("MailboxCapacity") }
            }
            oracle.push((format!("tables cfg {}", if hist.is_empty() { "-" } else { hist }), format!("{};cap={}", outs.join(","), cell.unwrap_or(32)), "C09 once-only non-zero default, else 32"));
        }
    }
    // --- the same with actors spawned before or between the calls: spawn() reads the default when it runs
    let mut oracle_only: Vec<(String, String)> = vec![];
    for hist in ["s,5", "s,0,4", "3,s,9", "s", "s,s,2", "0,s,6", "t5", "5,t7", "t0,t4", "s,t3", "t6,s,2"] {
        let out = Command::new(&exe).args(["--cfg-child", hist]).output().expect("cfg child");
        let text = String::from_utf8_lossy(&out.stdout).trim().to_string();
        let key = format!("tables cfgspawn {hist}");
        oracle_only.push((key.clone(), text));
        let mut cell: Option<usize> = None;
        let mut outs = vec![];
        for n in hist.split(',').filter(|x| !x.is_empty() && *x != "s") {
            let n: usize = n.trim_start_matches('t').parse().unwrap();
            if n > 0 && cell.is_none() { cell = Some(n); outs.push("ok") } else { outs.push("MailboxCapacity") }
        }
        oracle.push((key, format!("{};cap={}", outs.join(","), cell.unwrap_or(32)), "C09 C18 the configured default is process-wide: it applies to every later spawn() on any thread, whether or not actors were spawned before the call, in every build"));
    }
    // --- spawn with capacity 0 is rejected (panics), 1 is accepted
    for cap in [0usize, 1, 2] {
        let rt = tokio::runtime::Builder::new_current_thread().build().unwrap();
        let ok = std::panic::catch_unwind(std::panic::AssertUnwindSafe(|| {
            rt.block_on(async {
                let _ = rsactor::spawn_with_mailbox_capacity::<Blocker>((), cap);
            })
        }))
        .is_ok();
        cases.push((format!("tables spawnguard {cap}"), format!("{ok}")));
        oracle.push((format!("tables spawnguard {cap}"), format!("{}", cap > 0), "C09 capacity 0 rejected"));
    }

    // ---- ask the driver
    let mut input = String::new();
    for (i, _) in &cases {
        input.push_str(i);
        input.push('\n');
    }
    let mut child = Command::new(&driver).stdin(Stdio::piped()).stdout(Stdio::piped()).spawn().expect("driver");
    let mut stdin = child.stdin.take().unwrap();
    let w = std::thread::spawn(move || {
        let _ = stdin.write_all(input.as_bytes());
    });
    let out = child.wait_with_output().expect("driver output");
    let _ = w.join();
    let text = String::from_utf8_lossy(&out.stdout);
    let model: Vec<&str> = text.lines().collect();
    let mut mismatches = vec![];
    let mut by_kind: std::collections::BTreeMap<String, u64> = Default::default();
    for (i, (inp, real)) in cases.iter().enumerate() {
        *by_kind.entry(inp.split_whitespace().nth(1).unwrap_or("").to_string()).or_default() += 1;
        let m = model.get(i).copied().unwrap_or("<missing>");
        if m != real {
            mismatches.push(format!("{{\"input\":{:?},\"real\":{:?},\"model\":{:?}}}", inp, real, m));
        }
    }
    let mut oracle_fails = vec![];
    {
        let real: std::collections::HashMap<&str, &str> = cases.iter().chain(oracle_only.iter()).map(|(a, b)| (a.as_str(), b.as_str())).collect();
        for (inp, exp, what) in &oracle {
            let r = real.get(inp.as_str()).copied().unwrap_or("<missing>");
            if r != exp {
                oracle_fails.push(format!("{{\"input\":{:?},\"real\":{:?},\"expected\":{:?},\"what\":{:?}}}", inp, r, exp, what));
            }
        }
    }
    let rep = format!(
        "{{\"oracle_checks\":{},\"oracle_failures\":[{}],\"cases\":{},\"by_kind\":{{{}}},\"exhaustive_graphs\":{},\"mismatches\":[{}],\"samples\":[{:?},{:?},{:?}]}}",
        oracle.len(),
        oracle_fails.iter().take(20).cloned().collect::<Vec<_>>().join(","),
        cases.len(),
        by_kind.iter().map(|(k, v)| format!("{k:?}:{v}")).collect::<Vec<_>>().join(","),
        exhaustive_graphs,
        mismatches.iter().take(20).cloned().collect::<Vec<_>>().join(","),
        format!("{} => {}", cases[0].0, cases[0].1),
        format!("{} => {}", cases[cases.len() / 2].0, cases[cases.len() / 2].1),
        format!("{} => {}", cases[cases.len() - 5].0, cases[cases.len() - 5].1),
    );
    match report {
        Some(p) => std::fs::write(p, &rep).unwrap(),
        None => println!("{rep}"),
    }
    eprintln!("tables: cases={} mismatches={} oracle_failures={}", cases.len(), mismatches.len(), oracle_fails.len());
    std::process::exit(if mismatches.is_empty() && oracle_fails.is_empty() { 0 } else { 3 });
}
