//! Multi-actor histories for the wait-for protocol: seeded scripts are run on the real crate (feature
//! deadlock-detection), the recorded history is replayed on the Lean protocol model by the driver
//! (`netreplay`), and every difference (a label the model does not allow, a deadlock decision or path
//! that differs, a graph snapshot that differs, a poisoned lock, a wrong reply) is reported.
//!
//! netcorr --driver <exe> --seed <n> --n <count> [--corpus <dir>] [--report <file>] [--replay <script>]

use harness::net::{history_oracles, order_oracles, run_with, NetGen};
use std::io::Write;
use std::process::{Command, Stdio};

fn jstr(s: &str) -> String {
    format!("{:?}", s)
}
fn jarr(v: &[String]) -> String {
    format!("[{}]", v.iter().map(|s| jstr(s)).collect::<Vec<_>>().join(","))
}

fn main() {
    harness::quiet_panics();
    let args: Vec<String> = std::env::args().collect();
    let (mut driver, mut seed, mut n, mut corpus, mut report, mut replay) =
        ("/verif/lean/.lake/build/bin/driver".to_string(), 1u64, 100usize, None, None, None);
    let mut joins = 0usize;
    let mut i = 1;
    while i < args.len() {
        match args[i].as_str() {
            "--driver" => { driver = args[i + 1].clone(); i += 1 }
            "--seed" => { seed = args[i + 1].parse().unwrap(); i += 1 }
            "--n" => { n = args[i + 1].parse().unwrap(); i += 1 }
            "--corpus" => { corpus = Some(args[i + 1].clone()); i += 1 }
            "--report" => { report = Some(args[i + 1].clone()); i += 1 }
            "--replay" => { replay = Some(args[i + 1].clone()); i += 1 }
            "--joins" => { joins = args[i + 1].parse().unwrap(); i += 1 }
            o => panic!("unknown argument {o}"),
        }
        i += 1;
    }
    let mut runs: Vec<(String, Vec<String>, Vec<String>)> = vec![];
    let mut fixed: Vec<(String, Vec<String>)> = vec![];
    if let Some(p) = &replay {
        let text = std::fs::read_to_string(p).expect("replay script");
        fixed.push((format!("replay:{p}"), text.lines().filter(|l| !l.trim().is_empty() && !l.starts_with('#')).map(|l| l.to_string()).collect()));
    } else if let Some(dir) = &corpus {
        if let Ok(rd) = std::fs::read_dir(dir) {
            let mut files: Vec<_> = rd.filter_map(|e| e.ok()).map(|e| e.path()).filter(|p| p.extension().map(|x| x == "net").unwrap_or(false)).collect();
            files.sort();
            for p in files {
                let text = std::fs::read_to_string(&p).unwrap_or_default();
                fixed.push((format!("corpus:{}", p.file_name().unwrap().to_string_lossy()), text.lines().filter(|l| !l.trim().is_empty() && !l.starts_with('#')).map(|l| l.to_string()).collect()));
            }
        }
    }
    for (name, lines) in fixed {
        let mut k = 0;
        let out = run_with(|_, _| {
            let l = lines.get(k).cloned();
            k += 1;
            l
        });
        runs.push((name, out.script, out.trace));
    }
    if replay.is_none() {
        for k in 0..n {
            let s = seed.wrapping_mul(1_000_003).wrapping_add(k as u64);
            let mut g = NetGen::new(s);
            let out = run_with(|n, w| g.next(n, w));
            runs.push((format!("net:{s}"), out.script, out.trace));
        }
    }
    // feed the driver
    let mut input = String::from("netreplay\n");
    for (name, _, trace) in &runs {
        input.push_str(&format!("trace {}\n", name.replace(' ', "_")));
        for l in trace {
            input.push_str(l);
            input.push('\n');
        }
        input.push_str("endtrace\n");
    }
    let mut child = Command::new(&driver).stdin(Stdio::piped()).stdout(Stdio::piped()).spawn().expect("driver");
    let mut stdin = child.stdin.take().unwrap();
    let w = std::thread::spawn(move || {
        let _ = stdin.write_all(input.as_bytes());
    });
    let out = child.wait_with_output().expect("driver output");
    let _ = w.join();
    let text = String::from_utf8_lossy(&out.stdout);
    let mut fails: Vec<String> = vec![];
    let mut diffs: Vec<String> = vec![];
    let mut summary = String::new();
    for l in text.lines() {
        if l.starts_with("NETDIFF ") {
            diffs.push(l.to_string());
        } else if l.starts_with("NETFAIL ") {
            fails.push(l.to_string());
        } else if l.starts_with("netreplay-summary") {
            summary = l.to_string();
        }
    }
    // the order oracle (C02) needs no model: every history is judged by it
    for (name, _, trace) in &runs {
        for f in order_oracles(trace) {
            fails.push(format!("NETFAIL {} {f}", name.replace(' ', "_")));
        }
    }
    // programs whose hooks await several asks at once: outside the sequential protocol model, judged by
    // the property's own oracles on the real history
    let mut oracle_runs: Vec<(String, Vec<String>, Vec<String>)> = vec![];
    let mut join_steps = 0u64;
    if replay.is_none() {
        for k in 0..joins {
            let sd = seed.wrapping_mul(7_000_003).wrapping_add(k as u64);
            let mut g = if k % 2 == 0 { NetGen::new_acyclic(sd) } else { NetGen::new(sd) };
            g.joins = true;
            let acyclic = g.acyclic;
            let out = run_with(|n, w| g.next(n, w));
            join_steps += out.script.iter().map(|l| l.matches("j(").count() as u64).sum::<u64>();
            let name = format!("netjoin{}:{sd}", if acyclic { "-acyclic" } else { "" });
            for f in history_oracles(&out.trace, acyclic) {
                fails.push(format!("NETFAIL {} {f}", name));
            }
            oracle_runs.push((name, out.script, out.trace));
        }
    } else if let Some((name, script, trace)) = runs.first() {
        if script.iter().any(|l| l.contains("j(")) {
            // a replayed program with joins: oracles only (the model's verdict does not apply)
            fails.retain(|f| !f.contains(name.as_str()));
            diffs.clear();
            for f in history_oracles(trace, false) {
                fails.push(format!("NETFAIL {} {f}", name.replace(' ', "_")));
            }
        }
    }
    let n_model_runs = runs.len();
    runs.extend(oracle_runs);
    let mut ev_hist: std::collections::BTreeMap<String, u64> = Default::default();
    let (mut deadlocks, mut with_timeout, mut with_panic) = (0u64, 0u64, 0u64);
    for (_, _, trace) in &runs {
        for l in trace {
            if let Some(rest) = l.strip_prefix("N ") {
                let k = rest.split_whitespace().next().unwrap_or("").to_string();
                *ev_hist.entry(k).or_default() += 1;
                if rest.contains(" deadlock ") {
                    deadlocks += 1;
                }
                if rest.starts_with("askRet") && rest.ends_with("timeout") {
                    with_timeout += 1;
                }
                if rest.ends_with(" panic") {
                    with_panic += 1;
                }
            }
        }
    }
    let failing: Vec<String> = fails
        .iter()
        .take(5)
        .map(|f| {
            let name = f.split_whitespace().nth(1).unwrap_or("");
            let r = runs.iter().find(|(n, _, _)| n.replace(' ', "_") == name);
            format!(
                "{{\"fail\":{},\"script\":{},\"trace\":{}}}",
                jstr(f),
                r.map(|r| jarr(&r.1)).unwrap_or_else(|| "[]".into()),
                r.map(|r| jarr(&r.2)).unwrap_or_else(|| "[]".into())
            )
        })
        .collect();
    let sample = runs.iter().find(|(_, _, t)| t.iter().any(|l| l.contains("deadlock"))).or(runs.first());
    let rep = format!(
        "{{\"diffs\":{},\"oracle_only_histories_with_concurrent_asks\":{},\"join_steps\":{},\"histories\":{},\"summary\":{},\"fails\":{},\"failing\":[{}],\"deadlocks\":{},\"timeouts\":{},\"panics\":{},\"events\":{{{}}},\"sample\":{{\"script\":{},\"trace\":{}}}}}",
        jarr(&diffs.iter().take(5).cloned().collect::<Vec<_>>()),
        runs.len() - n_model_runs,
        join_steps,
        n_model_runs,
        jstr(&summary),
        fails.len(),
        failing.join(","),
        deadlocks,
        with_timeout,
        with_panic,
        ev_hist.iter().map(|(k, v)| format!("{}:{}", jstr(k), v)).collect::<Vec<_>>().join(","),
        sample.map(|r| jarr(&r.1)).unwrap_or_else(|| "[]".into()),
        sample.map(|r| jarr(&r.2)).unwrap_or_else(|| "[]".into())
    );
    match report {
        Some(p) => std::fs::write(p, &rep).unwrap(),
        None => println!("{rep}"),
    }
    eprintln!("netcorr: histories={} fails={} {}", runs.len(), fails.len(), summary);
    std::process::exit(if fails.is_empty() && diffs.is_empty() && !summary.is_empty() { 0 } else { 3 });
}
