//! Correspondence runner: seeded scripts → real rsactor events; the same scripts → Lean driver;
//! per macro-step diff of the canonical event streams; shrinking of diverging scripts.
//!
//! corr --driver <exe> --seed <n> --n <count> --family <name>[,<name>…] [--erase] [--corpus <dir>]
//!      [--traces <file>] [--report <file>] [--replay <script-file>]

use harness::gen::{family_of, Gen};
use harness::world;
use std::collections::BTreeMap;
use std::io::Write;
use std::process::{Command, Stdio};

struct Args {
    driver: String,
    seed: u64,
    n: usize,
    families: Vec<String>,
    erase: bool,
    corpus: Option<String>,
    traces: Option<String>,
    report: Option<String>,
    replay: Option<String>,
}

fn parse_args() -> Args {
    let mut a = Args {
        driver: "/verif/lean/.lake/build/bin/driver".into(),
        seed: 1,
        n: 100,
        families: vec!["mixed".into()],
        erase: false,
        corpus: None,
        traces: None,
        report: None,
        replay: None,
    };
    let v: Vec<String> = std::env::args().collect();
    let mut i = 1;
    while i < v.len() {
        let need = |i: usize| v.get(i + 1).cloned().unwrap_or_else(|| panic!("missing value for {}", v[i]));
        match v[i].as_str() {
            "--driver" => { a.driver = need(i); i += 1 }
            "--seed" => { a.seed = need(i).parse().expect("seed"); i += 1 }
            "--n" => { a.n = need(i).parse().expect("n"); i += 1 }
            "--family" => { a.families = need(i).split(',').map(|s| s.to_string()).collect(); i += 1 }
            "--erase" => a.erase = true,
            "--corpus" => { a.corpus = Some(need(i)); i += 1 }
            "--traces" => { a.traces = Some(need(i)); i += 1 }
            "--report" => { a.report = Some(need(i)); i += 1 }
            "--replay" => { a.replay = Some(need(i)); i += 1 }
            other => panic!("unknown argument {other}"),
        }
        i += 1;
    }
    a
}

/// Runs the Lean driver on the scripts; returns the per-script output lines.
fn run_driver(driver: &str, scripts: &[(String, Vec<String>)]) -> Vec<Vec<String>> {
    let mut input = String::new();
    for (name, lines) in scripts {
        input.push_str(&format!("script {name}\n"));
        for l in lines {
            input.push_str(l);
            input.push('\n');
        }
        input.push_str("end\n");
    }
    let mut child = Command::new(driver)
        .stdin(Stdio::piped())
        .stdout(Stdio::piped())
        .spawn()
        .unwrap_or_else(|e| panic!("cannot start driver {driver}: {e}"));
    let mut stdin = child.stdin.take().unwrap();
    let writer = std::thread::spawn(move || {
        let _ = stdin.write_all(input.as_bytes());
    });
    let out = child.wait_with_output().expect("driver output");
    let _ = writer.join();
    let text = String::from_utf8_lossy(&out.stdout);
    let mut res: Vec<Vec<String>> = vec![];
    for line in text.lines() {
        if line.starts_with("# script") {
            res.push(vec![]);
        } else if line.starts_with("# end") {
        } else if let Some(cur) = res.last_mut() {
            cur.push(line.to_string());
        }
    }
    res
}

/// splits output into macro-steps: (op line, events)
fn steps(out: &[String]) -> Vec<(String, Vec<String>)> {
    let mut v = vec![];
    let mut cur: Option<(String, Vec<String>)> = None;
    for l in out {
        if l.starts_with("> ") || l.starts_with("! bad") || l.starts_with("! no-actor") {
            if let Some(c) = cur.take() {
                v.push(c);
            }
            cur = Some((l.clone(), vec![]));
            if !l.starts_with("> ") {
                v.push(cur.take().unwrap());
            }
        } else if l == "--" {
            if let Some(c) = cur.take() {
                v.push(c);
            }
        } else if let Some(c) = cur.as_mut() {
            c.1.push(l.clone());
        }
    }
    if let Some(c) = cur.take() {
        v.push(c);
    }
    v
}

fn first_diff(real: &[String], model: &[String]) -> Option<(usize, String, Vec<String>, Vec<String>)> {
    let r = steps(real);
    let m = steps(model);
    for i in 0..r.len().max(m.len()) {
        match (r.get(i), m.get(i)) {
            (Some(a), Some(b)) if a == b => {}
            (a, b) => {
                return Some((
                    i,
                    a.map(|x| x.0.clone()).or(b.map(|x| x.0.clone())).unwrap_or_default(),
                    a.map(|x| x.1.clone()).unwrap_or_else(|| vec!["<missing>".into()]),
                    b.map(|x| x.1.clone()).unwrap_or_else(|| vec!["<missing>".into()]),
                ))
            }
        }
    }
    None
}

fn diverges(driver: &str, script: &[String], erase: Option<u64>) -> bool {
    let real = world::run_script(script, erase);
    let model = run_driver(driver, &[("shrink".into(), script.to_vec())]);
    first_diff(&real, model.first().map(|v| v.as_slice()).unwrap_or(&[])).is_some()
}

/// delta debugging on the operation list (the spawn line is kept)
fn shrink(driver: &str, script: &[String], erase: Option<u64>) -> Vec<String> {
    let mut cur = script.to_vec();
    let mut chunk = (cur.len() / 2).max(1);
    let mut budget = 400;
    while chunk >= 1 && budget > 0 {
        let mut i = 1;
        let mut changed = false;
        while i < cur.len() && budget > 0 {
            let end = (i + chunk).min(cur.len());
            let mut cand = cur[..i].to_vec();
            cand.extend_from_slice(&cur[end..]);
            budget -= 1;
            if cand.len() > 1 && diverges(driver, &cand, erase) {
                cur = cand;
                changed = true;
            } else {
                i += chunk;
            }
        }
        if !changed {
            if chunk == 1 {
                break;
            }
            chunk /= 2;
        }
    }
    cur
}

fn jstr(s: &str) -> String {
    let mut o = String::from("\"");
    for c in s.chars() {
        match c {
            '"' => o.push_str("\\\""),
            '\\' => o.push_str("\\\\"),
            '\n' => o.push_str("\\n"),
            c if (c as u32) < 0x20 => o.push_str(&format!("\\u{:04x}", c as u32)),
            c => o.push(c),
        }
    }
    o.push('"');
    o
}
fn jarr(v: &[String]) -> String {
    format!("[{}]", v.iter().map(|s| jstr(s)).collect::<Vec<_>>().join(","))
}

fn main() {
    harness::quiet_panics();
    let args = parse_args();
    let mut scripts: Vec<(String, Vec<String>)> = vec![];
    let mut reals: Vec<Vec<String>> = vec![];
    let mut raws: Vec<(Vec<String>, bool)> = vec![];
    let mut erase_of: Vec<Option<u64>> = vec![];
    let mut oracles: Vec<Vec<String>> = vec![];

    if let Some(path) = &args.replay {
        let text = std::fs::read_to_string(path).expect("replay script");
        let lines: Vec<String> = text.lines().filter(|l| !l.trim().is_empty() && !l.starts_with('#')).map(|l| l.to_string()).collect();
        let erase = if args.erase { Some(args.seed) } else { None };
        let mut i = 0;
        let ro = world::run_with(|_| { let l = lines.get(i).cloned(); i += 1; l }, erase);
        reals.push(ro.canon);
        raws.push((ro.raw, ro.settled));
        oracles.push(ro.oracle);
        scripts.push((format!("replay:{path}"), lines));
        erase_of.push(erase);
    } else {
        // corpus first
        if let Some(dir) = &args.corpus {
            if let Ok(rd) = std::fs::read_dir(dir) {
                let mut files: Vec<_> = rd.filter_map(|e| e.ok()).map(|e| e.path()).filter(|p| p.extension().map(|x| x == "script").unwrap_or(false)).collect();
                files.sort();
                for p in files {
                    let text = std::fs::read_to_string(&p).unwrap_or_default();
                    let lines: Vec<String> = text.lines().filter(|l| !l.trim().is_empty() && !l.starts_with('#')).map(|l| l.to_string()).collect();
                    if lines.is_empty() {
                        continue;
                    }
                    // "# settled": the script ends with every gate released and every timer fired
                    let want_settled = text.lines().any(|l| l.trim() == "# settled");
                    let erase = if args.erase { Some(args.seed) } else { None };
                    let mut i = 0;
                    let ro = world::run_with(|_| { let l = lines.get(i).cloned(); i += 1; l }, erase);
                    reals.push(ro.canon);
                    raws.push((ro.raw, want_settled && ro.settled));
                    oracles.push(ro.oracle);
                    scripts.push((format!("corpus:{}", p.file_name().unwrap().to_string_lossy()), lines));
                    erase_of.push(erase);
                }
            }
        }
        for i in 0..args.n {
            let fam_name = &args.families[i % args.families.len()];
            let fam = family_of(fam_name).unwrap_or_else(|| panic!("unknown family {fam_name}"));
            let seed = args.seed.wrapping_mul(1_000_003).wrapping_add(i as u64);
            let mut g = Gen::new(seed, fam);
            let erase = if args.erase { Some(seed ^ 0xE2A5E) } else { None };
            let ro = world::run_with(|w| g.next(w), erase);
            scripts.push((format!("{fam_name}:{seed}"), ro.script));
            reals.push(ro.canon);
            raws.push((ro.raw, ro.settled));
            oracles.push(ro.oracle);
            erase_of.push(erase);
        }
    }

    let models = run_driver(&args.driver, &scripts);
    let mut divergences = vec![];
    let mut op_hist: BTreeMap<String, u64> = BTreeMap::new();
    let mut ev_hist: BTreeMap<String, u64> = BTreeMap::new();
    let mut sigs: std::collections::BTreeSet<String> = Default::default();
    let mut nontrivial = 0u64;
    let mut total_steps = 0u64;
    for (i, (name, script)) in scripts.iter().enumerate() {
        let empty = vec![];
        let model = models.get(i).unwrap_or(&empty);
        for l in script {
            *op_hist.entry(l.split_whitespace().next().unwrap_or("").to_string()).or_default() += 1;
        }
        let mut sig = std::collections::BTreeSet::new();
        for l in &reals[i] {
            if l.starts_with("A ") || l.starts_with("C") || l.starts_with("H ") {
                let mut it = l.split_whitespace();
                let _ = it.next();
                let kind = it.next().unwrap_or("");
                let extra = if kind == "ret" || kind == "dead" || kind == "joined" { it.next().unwrap_or("") } else { "" };
                let k = format!("{kind}{}{}", if extra.is_empty() { "" } else { ":" }, extra.split(':').next().unwrap_or(""));
                *ev_hist.entry(k.clone()).or_default() += 1;
                sig.insert(k);
            }
        }
        total_steps += steps(&reals[i]).len() as u64;
        let sig_s = sig.iter().cloned().collect::<Vec<_>>().join(",");
        let interesting = sig.contains("joined:completed") || sig.contains("joined:failed") || sig.contains("joined:panic");
        if interesting && sigs.insert(sig_s) {
            nontrivial += 1;
        }
        if let Some((step, op, r, m)) = first_diff(&reals[i], model) {
            let small = if divergences.len() < 3 { shrink(&args.driver, script, erase_of[i]) } else { script.clone() };
            let real_s = world::run_script(&small, erase_of[i]);
            let model_s = run_driver(&args.driver, &[("min".into(), small.clone())]);
            let d = first_diff(&real_s, model_s.first().map(|v| v.as_slice()).unwrap_or(&[]));
            divergences.push(format!(
                "{{\"script\":{},\"step\":{},\"op\":{},\"real\":{},\"model\":{},\"full_script\":{},\"min_script\":{},\"min_diff\":{}}}",
                jstr(name), step, jstr(&op), jarr(&r), jarr(&m), jarr(script), jarr(&small),
                match d { Some((s2, o2, r2, m2)) => format!("{{\"step\":{},\"op\":{},\"real\":{},\"model\":{}}}", s2, jstr(&o2), jarr(&r2), jarr(&m2)), None => "null".into() }
            ));
        }
    }
    if let Some(path) = &args.traces {
        let mut f = std::fs::File::create(path).expect("traces file");
        for (i, (name, script)) in scripts.iter().enumerate() {
            writeln!(f, "trace {} {}", name.replace(' ', "_"), if raws[i].1 { "settled" } else { "open" }).unwrap();
            writeln!(f, "{}", script.first().cloned().unwrap_or_default()).unwrap();
            for l in &raws[i].0 {
                writeln!(f, "{l}").unwrap();
            }
            writeln!(f, "endtrace").unwrap();
        }
    }
    let hist = |h: &BTreeMap<String, u64>| format!("{{{}}}", h.iter().map(|(k, v)| format!("{}:{}", jstr(k), v)).collect::<Vec<_>>().join(","));
    let sample_idx: Vec<usize> = (0..scripts.len()).filter(|i| reals[*i].iter().any(|l| l.contains("joined"))).take(2).collect();
    let samples: Vec<String> = sample_idx
        .iter()
        .map(|i| format!("{{\"name\":{},\"script\":{},\"real_events\":{}}}", jstr(&scripts[*i].0), jarr(&scripts[*i].1), jarr(&reals[*i])))
        .collect();
    // oracle failures concern the real crate alone and are reported apart from model disagreements
    let oracle_failures: Vec<String> = (0..scripts.len())
        .filter(|i| !oracles[*i].is_empty())
        .take(20)
        .map(|i| format!("{{\"script\":{},\"what\":{},\"full_script\":{}}}", jstr(&scripts[i].0), jarr(&oracles[i]), jarr(&scripts[i].1)))
        .collect();
    let n_oracle = oracles.iter().filter(|o| !o.is_empty()).count();
    let report = format!(
        "{{\"scripts\":{},\"macro_steps\":{},\"distinct_nontrivial\":{},\"divergences\":[{}],\"oracle_failures\":[{}],\"oracle_failed_scripts\":{},\"metrics_oracle\":{},\"ops\":{},\"events\":{},\"samples\":[{}]}}",
        scripts.len(), total_steps, nontrivial, divergences.join(","), oracle_failures.join(","), n_oracle, cfg!(feature = "metrics"), hist(&op_hist), hist(&ev_hist), samples.join(",")
    );
    match &args.report {
        Some(p) => std::fs::write(p, &report).expect("report"),
        None => println!("{report}"),
    }
    eprintln!("corr: scripts={} divergences={} oracle_failures={}", scripts.len(), divergences.len(), n_oracle);
    std::process::exit(if divergences.is_empty() && n_oracle == 0 { 0 } else { 3 });
}
