//! Real-time / multi-thread scenarios that the paused single-thread runtime cannot exhibit.
//! Only property oracles are applied here (no step-by-step comparison: the schedule is not
//! controlled).  Every wall-clock watchdog is generous and a suspected hang is confirmed by a
//! second, longer wait before it is reported.
//!
//! stress --scenario <a,b,…> --seconds <n> --seed <n> --report <file>
//! scenarios: hammer (C01 C02 C03 C06), askjoin (C03), late (C01 C10), blocking (C17 + C01 C02 C03 C13), ids (C11), idlewin (C08), lazyfut (C16), refs (C11 C07)

use rsactor::{spawn, spawn_with_mailbox_capacity, Actor, ActorRef, ActorWeak, Message};
use std::sync::atomic::{AtomicBool, AtomicU64, Ordering::SeqCst};
use std::sync::{Arc, Mutex};
use std::time::{Duration, Instant};

/// what the running scenario is doing right now (reported as the failing case when it hangs)
static NOTE: Mutex<String> = Mutex::new(String::new());
fn note(s: String) {
    *NOTE.lock().unwrap() = s;
}

#[derive(Default)]
struct Report {
    violations: Vec<(String, String)>, // (properties, description)
    stats: Vec<(String, String)>,
}
impl Report {
    fn v(&mut self, props: &str, what: String) {
        if self.violations.len() < 50 {
            self.violations.push((props.to_string(), what));
        }
    }
    fn s(&mut self, k: &str, v: String) {
        self.stats.push((k.to_string(), v));
    }
}

// ------------------------------------------------------------------------------------------------ hammer
struct Sh {
    clock: AtomicU64,
    kill_ret: AtomicBool,
    starts_after_kill: AtomicU64,
}
struct S {
    sh: Arc<Sh>,
    handled: Vec<(u32, u64)>,
    stop_killed: Option<bool>,
}
impl Actor for S {
    type Args = Arc<Sh>;
    type Error = String;
    async fn on_start(a: Self::Args, _: &ActorRef<Self>) -> Result<Self, String> {
        Ok(S { sh: a, handled: vec![], stop_killed: None })
    }
    async fn on_stop(&mut self, _: &ActorWeak<Self>, k: bool) -> Result<(), String> {
        self.stop_killed = Some(k);
        Ok(())
    }
}
struct M(u32);
impl Message<M> for S {
    type Reply = u32;
    async fn handle(&mut self, m: M, _: &ActorRef<Self>) -> u32 {
        if self.sh.kill_ret.load(SeqCst) {
            self.sh.starts_after_kill.fetch_add(1, SeqCst);
        }
        let t = self.sh.clock.fetch_add(1, SeqCst);
        self.handled.push((m.0, t));
        if m.0 % 7 == 0 {
            tokio::task::yield_now().await;
        }
        m.0
    }
}
#[derive(Clone, Copy, Debug, PartialEq)]
enum R {
    Ok(u32),
    Unit,
    Send,
    Recv,
}

fn hammer(secs: u64, rep: &mut Report) {
    let rt = tokio::runtime::Builder::new_multi_thread().worker_threads(8).enable_time().build().unwrap();
    rt.block_on(async {
        let t0 = Instant::now();
        let (mut iters, mut handled_total, mut maxafter, mut pending_confirmed) = (0u64, 0u64, 0u64, 0u64);
        while t0.elapsed() < Duration::from_secs(secs) && rep.violations.len() < 5 {
            iters += 1;
            note(format!("hammer: iteration {iters} (8 askers, tellers and a stop()/kill() racing on one actor)"));
            let cap = 1 + (iters % 4) as usize;
            let mode = iters % 3; // 0 kill, 1 stop, 2 last drop
            let sh = Arc::new(Sh { clock: AtomicU64::new(1), kill_ret: AtomicBool::new(false), starts_after_kill: AtomicU64::new(0) });
            let (r, j) = spawn_with_mailbox_capacity::<S>(sh.clone(), cap);
            let bar = Arc::new(tokio::sync::Barrier::new(7));
            let mut hs = vec![];
            for s in 0..6u32 {
                let r2 = r.clone();
                let b = bar.clone();
                let sh2 = sh.clone();
                hs.push(tokio::spawn(async move {
                    b.wait().await;
                    let mut out = vec![];
                    for k in 0..6u32 {
                        let id = s * 100 + k;
                        let st = sh2.clock.fetch_add(1, SeqCst);
                        let is_tell = (id + s) % 2 == 0;
                        let res = if is_tell {
                            match r2.tell(M(id)).await {
                                Ok(_) => R::Unit,
                                Err(_) => R::Send,
                            }
                        } else {
                            match r2.ask(M(id)).await {
                                Ok(v) => R::Ok(v),
                                Err(rsactor::Error::Send { .. }) => R::Send,
                                Err(_) => R::Recv,
                            }
                        };
                        let en = sh2.clock.fetch_add(1, SeqCst);
                        out.push((id, st, en, res, is_tell));
                    }
                    drop(r2);
                    out
                }));
            }
            bar.wait().await;
            for _ in 0..(iters % 5) {
                tokio::task::yield_now().await;
            }
            let cause_t = sh.clock.fetch_add(1, SeqCst);
            match mode {
                0 => {
                    let t = Instant::now();
                    if r.kill().is_err() {
                        rep.v("C06", format!("hammer iter {iters}: kill() returned Err"));
                    }
                    if t.elapsed() > Duration::from_millis(500) {
                        rep.v("C06", format!("hammer iter {iters}: kill() took {:?}", t.elapsed()));
                    }
                    sh.kill_ret.store(true, SeqCst);
                }
                1 => {
                    let _ = r.stop().await;
                }
                _ => {}
            }
            drop(r);
            let res = match tokio::time::timeout(Duration::from_secs(20), j).await {
                Ok(x) => x.unwrap(),
                Err(_) => {
                    rep.v("C07 C03", format!("hammer iter {iters} mode {mode}: JoinHandle not resolved 20 s after stop/kill/last drop"));
                    continue;
                }
            };
            let mut sent = vec![];
            for (si, mut h) in hs.into_iter().enumerate() {
                // first wait, then a longer confirmation wait before calling it a hang
                match tokio::time::timeout(Duration::from_secs(3), &mut h).await {
                    Ok(Ok(v)) => sent.extend(v),
                    Ok(Err(_)) => {}
                    Err(_) => match tokio::time::timeout(Duration::from_secs(10), &mut h).await {
                        Ok(Ok(v)) => sent.extend(v),
                        Ok(Err(_)) => {}
                        Err(_) => {
                            pending_confirmed += 1;
                            rep.v("C03", format!("hammer iter {iters} mode {mode} cap {cap}: sender task {si} still pending 13 s after the actor's JoinHandle resolved (an ask that never returns)"));
                            h.abort();
                        }
                    },
                }
            }
            let killed = res.was_killed();
            let actor = match res.into_actor() {
                Some(a) => a,
                None => continue,
            };
            handled_total += actor.handled.len() as u64;
            let mut ids: Vec<u32> = actor.handled.iter().map(|x| x.0).collect();
            let n = ids.len();
            ids.sort();
            ids.dedup();
            if ids.len() != n {
                rep.v("C01", format!("hammer iter {iters}: a message was handled twice"));
            }
            for s in 0..6u32 {
                let seq: Vec<u32> = actor.handled.iter().map(|x| x.0).filter(|i| i / 100 == s).collect();
                if seq.windows(2).any(|w| w[0] >= w[1]) {
                    rep.v("C02", format!("hammer iter {iters}: sender {s}'s messages handled out of program order: {seq:?}"));
                }
            }
            for (id, _st, en, res, is_tell) in &sent {
                let h = actor.handled.iter().find(|x| x.0 == *id);
                match res {
                    R::Send => {
                        if h.is_some() {
                            rep.v("C01", format!("hammer iter {iters}: id {id} returned Err(Send) but was handled"));
                        }
                    }
                    R::Ok(v) => {
                        if v != id {
                            rep.v("C03", format!("hammer iter {iters}: ask {id} got the reply {v}"));
                        }
                        if h.is_none() {
                            rep.v("C03", format!("hammer iter {iters}: ask {id} returned Ok without its handler having run"));
                        }
                    }
                    R::Unit => {
                        if *is_tell && mode == 1 && *en < cause_t && h.is_none() && !killed {
                            rep.v("C01 C02", format!("hammer iter {iters}: tell {id} returned Ok before stop() was called but was never handled"));
                        }
                    }
                    R::Recv => {}
                }
            }
            for a in &sent {
                for b in &sent {
                    if a.2 < b.1 && a.4 {
                        if let (Some(x), Some(y)) = (actor.handled.iter().find(|h| h.0 == a.0), actor.handled.iter().find(|h| h.0 == b.0)) {
                            if x.1 > y.1 {
                                rep.v("C02", format!("hammer iter {iters}: tell {} completed before send {} began but was handled after it", a.0, b.0));
                            }
                        }
                    }
                }
            }
            if mode == 0 {
                let k = sh.starts_after_kill.load(SeqCst);
                maxafter = maxafter.max(k);
                if k > 1 {
                    rep.v("C06", format!("hammer iter {iters}: {k} handlers started after kill() had returned"));
                }
                if !killed || actor.stop_killed != Some(true) {
                    rep.v("C06", format!("hammer iter {iters}: kill() had returned before anything else could end the actor, yet: result.killed={killed}, on_stop argument={:?} (a kill that has returned before the actor began stopping ends it with on_stop(killed=true))", actor.stop_killed));
                }
            } else if killed || actor.stop_killed != Some(false) {
                rep.v("C04 C05 C07", format!("hammer iter {iters} mode {mode}: graceful end reported killed={killed}, on_stop argument={:?}", actor.stop_killed));
            }
        }
        rep.s("hammer", format!("iters={iters} handled={handled_total} max_starts_after_kill={maxafter} pending_confirmed={pending_confirmed}"));
    });
}

// ------------------------------------------------------------------------------------------------ mix
/// One actor, many kinds of traffic at once on a multi-thread runtime, drawn from a seeded PRNG: tells and asks, their
/// timeout variants, the same through type-erased handles, sends cancelled by their caller, blocking calls from plain
/// threads, handlers that tell their own actor a follow-up, handle churn (clone / downgrade / upgrade / drop), and one
/// ending (kill, stop, stop through a boxed ActorControl, or the last reference going away).  Only logical oracles:
/// what each operation returned against what the actor did, and the dead-letter count against the failures.
static MIX_SEED: AtomicU64 = AtomicU64::new(1);
struct MxSh {
    clock: AtomicU64,
    handler_failures: AtomicU64, // failed self-tells issued from handlers (each records one dead letter)
}
struct Mx {
    sh: Arc<MxSh>,
    run_mode: u8,
    quiet: Arc<tokio::sync::Notify>,
    handled: Vec<(u32, u64)>,
    stops: Vec<bool>,
}
impl Actor for Mx {
    type Args = (Arc<MxSh>, u8);
    type Error = String;
    async fn on_start(a: Self::Args, _: &ActorRef<Self>) -> Result<Self, String> {
        Ok(Mx { sh: a.0, run_mode: a.1, quiet: Arc::new(tokio::sync::Notify::new()), handled: vec![], stops: vec![] })
    }
    async fn on_run(&mut self, _: &ActorWeak<Self>) -> Result<bool, String> {
        match self.run_mode {
            0 => Ok(false),
            1 => {
                tokio::task::yield_now().await;
                Ok(true)
            }
            _ => {
                self.quiet.notified().await;
                Ok(true)
            }
        }
    }
    async fn on_stop(&mut self, _: &ActorWeak<Self>, k: bool) -> Result<(), String> {
        self.stops.push(k);
        Ok(())
    }
}
/// id, follow-ups still to send to oneself
struct Xm(u32, u32);
impl Message<Xm> for Mx {
    type Reply = u32;
    async fn handle(&mut self, m: Xm, me: &ActorRef<Self>) -> u32 {
        let t = self.sh.clock.fetch_add(1, SeqCst);
        self.handled.push((m.0, t));
        if m.0 % 5 == 0 {
            tokio::task::yield_now().await;
        }
        if m.1 > 0 {
            // a bounded self-send: on a full mailbox it gives up (and has recorded its one dead letter)
            if me.tell_with_timeout(Xm(m.0 + 1, m.1 - 1), Duration::from_millis(20)).await.is_err() {
                self.sh.handler_failures.fetch_add(1, SeqCst);
            }
        }
        m.0
    }
}
#[derive(Clone, Copy, Debug, PartialEq)]
enum Xr {
    Ok(u32),
    Unit,
    Send,
    Recv,
    Timeout,
    Cancelled,
}
impl Xr {
    fn failed(self) -> bool {
        matches!(self, Xr::Send | Xr::Recv | Xr::Timeout)
    }
}

fn mix(secs: u64, rep: &mut Report) {
    use rsactor::{ActorControl, AskHandler, TellHandler};
    harness::log::install();
    let rt = tokio::runtime::Builder::new_multi_thread().worker_threads(8).enable_time().build().unwrap();
    let seed0 = MIX_SEED.load(SeqCst);
    let (mut iters, mut ops_total, mut failures_total, mut handled_total) = (0u64, 0u64, 0u64, 0u64);
    let t_begin = Instant::now();
    while t_begin.elapsed() < Duration::from_secs(secs) && rep.violations.len() < 5 {
        iters += 1;
        let mut rng = harness::rng::Rng::new(seed0.wrapping_mul(1_000_003).wrapping_add(iters));
        let cap = *rng.pick(&[1usize, 2, 4, 32]);
        let run_mode = rng.below(3) as u8;
        let ending = rng.below(5); // 0 kill, 1 stop, 2 erased stop, 3 last drop, 4 last drop after a downgrade/upgrade round trip
        let yields = rng.below(6);
        note(format!("mix: iteration {iters} (seed {seed0}): capacity {cap}, on_run mode {run_mode}, ending {ending}"));
        harness::log::reset();
        let dl_before = harness::log::DEAD_LETTER_EVENTS.load(SeqCst);
        let sh = Arc::new(MxSh { clock: AtomicU64::new(1), handler_failures: AtomicU64::new(0) });
        let kill_ret = Arc::new(AtomicBool::new(false));
        let (r, j) = rt.block_on(async { spawn_with_mailbox_capacity::<Mx>((sh.clone(), run_mode), cap) });
        // --- async senders
        let bar = Arc::new(tokio::sync::Barrier::new(6));
        let mut hs = vec![];
        for snd in 0..5u32 {
            let r2 = r.clone();
            let b = bar.clone();
            let sh2 = sh.clone();
            let plan: Vec<u64> = (0..6).map(|_| rng.below(11)).collect();
            hs.push(rt.spawn(async move {
                b.wait().await;
                let mut out: Vec<(u32, u64, u64, Xr, bool, u32)> = vec![];
                let th: Box<dyn TellHandler<Xm>> = (&r2).into();
                let ah: Box<dyn AskHandler<Xm, u32>> = (&r2).into();
                let weak = ActorRef::downgrade(&r2);
                for (k, kind) in plan.iter().enumerate() {
                    let id = snd * 1000 + (k as u32) * 10;
                    let st = sh2.clock.fetch_add(1, SeqCst);
                    let e = |e: rsactor::Error| match e {
                        rsactor::Error::Send { .. } => Xr::Send,
                        rsactor::Error::Timeout { .. } => Xr::Timeout,
                        _ => Xr::Recv,
                    };
                    let (res, is_tell, chain) = match kind {
                        0 => (r2.tell(Xm(id, 0)).await.map(|_| Xr::Unit).unwrap_or_else(e), true, 0),
                        1 => (r2.ask(Xm(id, 0)).await.map(Xr::Ok).unwrap_or_else(e), false, 0),
                        2 => (r2.tell_with_timeout(Xm(id, 0), Duration::from_millis(30)).await.map(|_| Xr::Unit).unwrap_or_else(e), true, 0),
                        3 => (r2.ask_with_timeout(Xm(id, 0), Duration::from_secs(5)).await.map(Xr::Ok).unwrap_or_else(e), false, 0),
                        4 => (th.tell(Xm(id, 0)).await.map(|_| Xr::Unit).unwrap_or_else(e), true, 0),
                        5 => (ah.ask(Xm(id, 0)).await.map(Xr::Ok).unwrap_or_else(e), false, 0),
                        6 => (th.tell_with_timeout(Xm(id, 0), Duration::from_millis(30)).await.map(|_| Xr::Unit).unwrap_or_else(e), true, 0),
                        // a tell dropped by its caller after 1 ms: Ok if the mailbox had accepted it by then, else nothing happened
                        7 => (match tokio::time::timeout(Duration::from_millis(1), r2.tell(Xm(id, 0))).await {
                            Ok(Ok(())) => Xr::Unit,
                            Ok(Err(x)) => e(x),
                            Err(_) => Xr::Cancelled,
                        }, true, 0),
                        // a message whose handler tells its own actor two follow-ups
                        8 => (r2.tell(Xm(id, 2)).await.map(|_| Xr::Unit).unwrap_or_else(e), true, 2),
                        // through a freshly upgraded weak handle
                        9 => match ActorWeak::upgrade(&weak) {
                            Some(u) => (u.tell(Xm(id, 0)).await.map(|_| Xr::Unit).unwrap_or_else(e), true, 0),
                            None => (Xr::Cancelled, true, 0),
                        },
                        _ => {
                            let c = r2.clone();
                            let res = c.ask(Xm(id, 0)).await.map(Xr::Ok).unwrap_or_else(e);
                            drop(c);
                            (res, false, 0)
                        }
                    };
                    let en = sh2.clock.fetch_add(1, SeqCst);
                    out.push((id, st, en, res, is_tell, chain));
                }
                out
            }));
        }
        // --- a plain thread using the blocking API
        let rb = r.clone();
        let shb = sh.clone();
        let bplan: Vec<u64> = (0..4).map(|_| rng.below(4)).collect();
        let bth = std::thread::spawn(move || {
            let mut out: Vec<(u32, u64, u64, Xr, bool, u32)> = vec![];
            for (k, kind) in bplan.iter().enumerate() {
                let id = 9000 + (k as u32) * 10;
                let st = shb.clock.fetch_add(1, SeqCst);
                let e = |e: rsactor::Error| match e {
                    rsactor::Error::Send { .. } => Xr::Send,
                    rsactor::Error::Timeout { .. } => Xr::Timeout,
                    _ => Xr::Recv,
                };
                let (res, is_tell) = match kind {
                    0 => (rb.blocking_tell(Xm(id, 0), None).map(|_| Xr::Unit).unwrap_or_else(e), true),
                    1 => (rb.blocking_ask(Xm(id, 0), None).map(Xr::Ok).unwrap_or_else(e), false),
                    2 => (rb.blocking_tell(Xm(id, 0), Some(Duration::from_secs(5))).map(|_| Xr::Unit).unwrap_or_else(e), true),
                    _ => (rb.blocking_ask(Xm(id, 0), Some(Duration::from_secs(5))).map(Xr::Ok).unwrap_or_else(e), false),
                };
                let en = shb.clock.fetch_add(1, SeqCst);
                out.push((id, st, en, res, is_tell, 0));
            }
            out
        });
        // --- the ending
        let (res, cause_t) = rt.block_on(async {
            bar.wait().await;
            for _ in 0..yields {
                tokio::task::yield_now().await;
            }
            let cause_t = sh.clock.fetch_add(1, SeqCst);
            match ending {
                0 => {
                    if r.kill().is_err() {
                        rep.v("C06", format!("mix iter {iters}: kill() returned Err"));
                    }
                    kill_ret.store(true, SeqCst);
                }
                1 => {
                    let _ = r.stop().await;
                }
                2 => {
                    let c: Box<dyn ActorControl> = (&r).into();
                    let _ = c.stop().await;
                }
                4 => {
                    let w = ActorRef::downgrade(&r);
                    let u = ActorWeak::upgrade(&w);
                    drop(u);
                }
                _ => {}
            }
            drop(r);
            (tokio::time::timeout(Duration::from_secs(20), j).await, cause_t)
        });
        let res = match res {
            Ok(Ok(x)) => x,
            Ok(Err(e)) => {
                rep.v("C12 C05", format!("mix iter {iters} (seed {seed0}): the actor's task failed: {e}"));
                continue;
            }
            Err(_) => {
                rep.v("C07 C03", format!("mix iter {iters} (seed {seed0}, capacity {cap}, on_run mode {run_mode}, ending {ending}): the JoinHandle had not resolved 20 s after the ending (kill / stop / last external reference dropped; senders only hold clones while they send)"));
                continue;
            }
        };
        let mut sent: Vec<(u32, u64, u64, Xr, bool, u32)> = vec![];
        let mut hung = false;
        rt.block_on(async {
            for (si, mut h) in hs.into_iter().enumerate() {
                match tokio::time::timeout(Duration::from_secs(15), &mut h).await {
                    Ok(Ok(v)) => sent.extend(v),
                    Ok(Err(_)) => {}
                    Err(_) => {
                        hung = true;
                        rep.v("C03", format!("mix iter {iters} (seed {seed0}): sender task {si} still pending 15 s after the actor's JoinHandle resolved (an operation that never returns)"));
                        h.abort();
                    }
                }
            }
        });
        match bth.join() {
            Ok(v) => sent.extend(v),
            Err(_) => rep.v("C17", format!("mix iter {iters} (seed {seed0}): the thread using the blocking API panicked")),
        }
        if hung {
            continue;
        }
        std::thread::sleep(Duration::from_millis(20)); // helper threads of timed blocking calls have finished
        ops_total += sent.len() as u64;
        let killed = res.was_killed();
        let completed = res.is_completed();
        let Some(actor) = res.into_actor() else { continue };
        handled_total += actor.handled.len() as u64;
        let what = format!("mix iter {iters} (seed {seed0}, capacity {cap}, on_run mode {run_mode}, ending {ending})");
        // C01: at most once
        let mut ids: Vec<u32> = actor.handled.iter().map(|x| x.0).collect();
        let n = ids.len();
        ids.sort();
        ids.dedup();
        if ids.len() != n {
            rep.v("C01", format!("{what}: a message was handled twice"));
        }
        // C04 / C05: on_stop once, flag and result agree with the cause
        if actor.stops.len() != 1 || !completed {
            rep.v("C04 C05", format!("{what}: on_stop calls {:?}, completed={completed} (exactly one on_stop, completed)", actor.stops));
        } else if ending == 0 && (!killed || actor.stops != vec![true]) {
            rep.v("C06", format!("{what}: kill() had returned before the last reference was dropped, yet: result.killed={killed}, on_stop argument {:?} (a kill that has returned before the actor began stopping ends it with on_stop(killed=true))", actor.stops));
        } else if ending != 0 && (killed || actor.stops != vec![false]) {
            rep.v("C04 C05 C07", format!("{what}: graceful ending reported killed={killed}, on_stop argument {:?}", actor.stops));
        }
        let handled_of = |id: u32| actor.handled.iter().find(|x| x.0 == id);
        let mut failures = sh.handler_failures.load(SeqCst);
        for (id, _st, en, res, is_tell, chain) in &sent {
            if res.failed() {
                failures += 1;
            }
            match res {
                Xr::Send | Xr::Cancelled => {
                    if handled_of(*id).is_some() {
                        rep.v("C01", format!("{what}: operation {id} returned {res:?} (never accepted) but its message was handled"));
                    }
                }
                Xr::Timeout => {
                    if *is_tell && handled_of(*id).is_some() {
                        rep.v("C01 C10", format!("{what}: tell {id} returned Err(Timeout) but its message was handled"));
                    }
                }
                Xr::Ok(v) => {
                    if v != id {
                        rep.v("C03", format!("{what}: ask {id} got the reply {v}"));
                    }
                    if handled_of(*id).is_none() {
                        rep.v("C03", format!("{what}: ask {id} returned Ok without its handler having run"));
                    }
                }
                Xr::Unit => {
                    // accepted before the graceful ending was requested, on an actor that was not killed: handled, follow-ups included
                    if ending != 0 && !killed && *en < cause_t {
                        if handled_of(*id).is_none() {
                            rep.v("C01 C02", format!("{what}: tell {id} returned Ok before the ending was requested but was never handled"));
                        }
                    }
                    let _ = chain;
                }
                Xr::Recv => {}
            }
        }
        // follow-ups are handled after the message that sent them
        for h in &actor.handled {
            if h.0 % 10 != 0 {
                match handled_of(h.0 - 1) {
                    Some(p) if p.1 < h.1 => {}
                    _ => rep.v("C01 C02", format!("{what}: follow-up {} was handled but not after the message that sent it", h.0)),
                }
            }
        }
        // C02: per-sender program order, and completed-before-began order
        for snd in (0..5u32).chain(std::iter::once(9)) {
            let seq: Vec<u32> = actor.handled.iter().map(|x| x.0).filter(|i| i / 1000 == snd && i % 10 == 0).collect();
            if seq.windows(2).any(|w| w[0] >= w[1]) {
                rep.v("C02", format!("{what}: sender {snd}'s messages were handled out of program order: {seq:?}"));
            }
        }
        for a in &sent {
            for b in &sent {
                if a.2 < b.1 && a.4 && a.3 == Xr::Unit {
                    if let (Some(x), Some(y)) = (handled_of(a.0), handled_of(b.0)) {
                        if x.1 > y.1 {
                            rep.v("C02", format!("{what}: tell {} had returned Ok before send {} began but was handled after it", a.0, b.0));
                        }
                    }
                }
            }
        }
        // C13: one dead letter per failed operation, none otherwise, under any concurrency
        let dl = harness::log::DEAD_LETTER_EVENTS.load(SeqCst) - dl_before;
        failures_total += failures;
        if dl != failures {
            let kinds: Vec<String> = sent.iter().filter(|x| x.3.failed()).map(|x| format!("{}:{:?}", x.0, x.3)).collect();
            rep.v("C13", format!("{what}: {failures} operations failed ({} from senders: {kinds:?}; {} self-sends in handlers) and {dl} dead letters were recorded", failures - sh.handler_failures.load(SeqCst), sh.handler_failures.load(SeqCst)));
        }
    }
    rep.s("mix", format!("iters={iters} operations={ops_total} handled={handled_total} failed_operations={failures_total} seed={seed0}"));
}

// ------------------------------------------------------------------------------------------------ ask_join
struct J;
impl Actor for J {
    type Args = ();
    type Error = String;
    async fn on_start(_: (), _: &ActorRef<Self>) -> Result<Self, String> {
        Ok(J)
    }
}
struct SpawnTask(tokio::sync::oneshot::Receiver<u32>, bool, bool);
/// set by the SpawnTask handler: its reply is on the way
static ASKJOIN_HANDLED: AtomicBool = AtomicBool::new(false);
struct Pj;
impl Message<Pj> for J {
    type Reply = u32;
    async fn handle(&mut self, _: Pj, _: &ActorRef<Self>) -> u32 {
        1
    }
}
impl Message<SpawnTask> for J {
    type Reply = tokio::task::JoinHandle<u32>;
    async fn handle(&mut self, m: SpawnTask, me: &ActorRef<Self>) -> tokio::task::JoinHandle<u32> {
        let panic = m.1;
        // the task may call back into the actor that spawned it (through a weak handle: it keeps nothing alive)
        let weak = if m.2 { Some(ActorRef::downgrade(me)) } else { None };
        ASKJOIN_HANDLED.store(true, SeqCst);
        tokio::spawn(async move {
            let v = m.0.await.unwrap_or(0);
            if let Some(r) = weak.as_ref().and_then(ActorWeak::upgrade) {
                let _ = r.ask(Pj).await; // answered by a live actor, refused at once by one that has ended
            }
            if panic {
                panic!("scripted task panic");
            }
            v
        })
    }
}

fn askjoin(rep: &mut Report) {
    let rt = tokio::runtime::Builder::new_current_thread().enable_time().build().unwrap();
    rt.block_on(async {
        let mut n = 0;
        for end_mode in 0..4u32 {
            for (task_panics, callback) in [(false, false), (true, false), (false, true)] {
                n += 1;
                let (r, jh) = spawn::<J>(());
                let (tx, rx) = tokio::sync::oneshot::channel();
                let r2 = r.clone();
                let asker = tokio::spawn(async move { r2.ask_join(SpawnTask(rx, task_panics, callback)).await });
                for _ in 0..20 {
                    tokio::task::yield_now().await;
                }
                // the actor ends (or not) while the spawned task is still running
                match end_mode {
                    0 => {}
                    1 => {
                        let _ = r.stop().await;
                    }
                    2 => {
                        let _ = r.kill();
                    }
                    _ => {}
                }
                if end_mode == 3 {
                    drop(r);
                } else if end_mode != 0 {
                    let _ = tokio::time::timeout(Duration::from_secs(5), jh).await;
                }
                for _ in 0..20 {
                    tokio::task::yield_now().await;
                }
                let _ = tx.send(42);
                match tokio::time::timeout(Duration::from_secs(10), asker).await {
                    Err(_) => rep.v("C03", format!("ask_join (end mode {end_mode} of: none, stop, kill, drop; task calls back into its actor: {callback}) did not return within 10 s after its task was released: the caller, or the task's own ask on the actor that has ended, is left waiting")),
                    Ok(Err(_)) => rep.v("C03", "ask_join caller task failed".into()),
                    Ok(Ok(res)) => match (task_panics, res) {
                        (false, Ok(42)) => {}
                        (true, Err(rsactor::Error::Join { .. })) => {}
                        (_, other) => rep.v(
                            "C03 C19 C12",
                            format!("ask_join must return exactly what awaiting the handler's own JoinHandle gives - the spawned task's output (42) or its join error - whatever happens to the actor meanwhile; end mode {end_mode} (none, stop, kill, drop), task_panics={task_panics}: got {other:?}"),
                        ),
                    },
                }
            }
        }
        // ask_join awaited next to other work in one task: whatever share of the task's cooperative-scheduling budget the
        // siblings have used when the reply arrives, the finished task's output comes back
        {
            let (r, _jh) = spawn::<J>(());
            let mut bad = None;
            for k in 0..160u32 {
                n += 1;
                let (tx, rx) = tokio::sync::oneshot::channel();
                let _ = tx.send(252u32); // the spawned task finishes at once
                ASKJOIN_HANDLED.store(false, SeqCst);
                // the sibling spends its k units in the very poll in which the reply is picked up
                let spender = async {
                    while !ASKJOIN_HANDLED.load(SeqCst) {
                        tokio::task::yield_now().await;
                    }
                    for _ in 0..k {
                        tokio::task::coop::consume_budget().await;
                    }
                };
                let (_, res) = futures::join!(spender, r.ask_join(SpawnTask(rx, false, false)));
                if !matches!(res, Ok(252)) && bad.is_none() {
                    bad = Some((k, format!("{res:?}")));
                }
                tokio::task::yield_now().await;
            }
            if let Some((k, res)) = bad {
                rep.v("C03 C19", format!("ask_join joined with a sibling future that had used {k} units of the task's cooperative budget: the handler's task had finished with 252, ask_join returned {res}"));
            }
            let _ = r.kill();
        }
        rep.s("askjoin", format!("cases={n}"));
    });
}

// ------------------------------------------------------------------------------------------------ cancelled sends
/// a send that is still waiting for a mailbox slot is cancelled by its caller (the future is dropped): it has
/// not been accepted, so it is never delivered, it leaves no trace in the mailbox or in any handle, and later
/// operations - a later stop() in particular - behave as if it had never been issued
struct Cx {
    log: Arc<Mutex<Vec<String>>>,
}
/// on_run passes completed by Cx actors (they return Ok(true): the idle handler stays enabled)
static CX_RUNS: std::sync::atomic::AtomicU64 = std::sync::atomic::AtomicU64::new(0);
impl Actor for Cx {
    type Args = Arc<Mutex<Vec<String>>>;
    type Error = String;
    async fn on_start(a: Self::Args, _: &ActorRef<Self>) -> Result<Self, String> {
        Ok(Cx { log: a })
    }
    async fn on_run(&mut self, _: &ActorWeak<Self>) -> Result<bool, String> {
        tokio::time::sleep(Duration::from_millis(2)).await;
        CX_RUNS.fetch_add(1, SeqCst);
        Ok(true)
    }
    async fn on_stop(&mut self, _: &ActorWeak<Self>, killed: bool) -> Result<(), String> {
        self.log.lock().unwrap().push(format!("stop {killed}"));
        Ok(())
    }
}
impl Message<Gate> for Cx {
    type Reply = ();
    async fn handle(&mut self, m: Gate, _: &ActorRef<Self>) {
        let _ = m.0.await;
    }
}
impl Message<Item> for Cx {
    type Reply = u32;
    async fn handle(&mut self, m: Item, _: &ActorRef<Self>) -> u32 {
        self.log.lock().unwrap().push(format!("h {}", m.0));
        m.0
    }
}

fn cancel(rep: &mut Report) {
    let rt = tokio::runtime::Builder::new_current_thread().enable_time().build().unwrap();
    let mut cases = 0u64;
    rt.block_on(async {
        for what in ["stop", "tell", "ask"] {
            for second in ["same", "clone", "upgraded", "control"] {
                if what != "stop" && second != "same" {
                    continue;
                }
                cases += 1;
                note(format!("cancel: a {what}() waiting for a slot of a full capacity-1 mailbox is dropped by its caller; a later stop() is issued through {second}"));
                let log = Arc::new(Mutex::new(vec![]));
                let (r, jh) = spawn_with_mailbox_capacity::<Cx>(log.clone(), 1);
                let (gtx, grx) = tokio::sync::oneshot::channel();
                r.tell(Gate(grx)).await.unwrap();
                tokio::task::yield_now().await; // the handler is running, parked at its gate
                r.tell(Item(1)).await.unwrap(); // the mailbox is full
                let cancelled = match what {
                    "stop" => tokio::time::timeout(Duration::from_millis(20), r.stop()).await.is_err(),
                    "tell" => tokio::time::timeout(Duration::from_millis(20), r.tell(Item(50))).await.is_err(),
                    _ => tokio::time::timeout(Duration::from_millis(20), r.ask(Item(50))).await.is_err(),
                };
                if !cancelled {
                    rep.v("C09", format!("cancel({what}): a send into a full capacity-1 mailbox (actor parked in a handler, one message queued) completed within 20 ms instead of waiting for a slot"));
                    let _ = r.kill();
                    continue;
                }
                let _ = gtx.send(());
                // barrier: everything accepted so far has been handled
                let two = tokio::time::timeout(Duration::from_secs(5), r.ask(Item(2))).await;
                if !matches!(two, Ok(Ok(2))) {
                    rep.v("C03 C01", format!("cancel({what}): after the cancelled send an ask to the live actor returned {two:?}"));
                    let _ = r.kill();
                    continue;
                }
                // ... and it has changed nothing else: the idle handler (last outcome Ok(true)) keeps running while idle
                let runs0 = CX_RUNS.load(SeqCst);
                tokio::time::sleep(Duration::from_millis(40)).await;
                if CX_RUNS.load(SeqCst) == runs0 {
                    rep.v("C08", format!("cancel({what}): after the cancelled {what}() the actor is alive and idle for 40 ms and its on_run, which returned Ok(true), was not run again"));
                }
                // the cancelled operation was never accepted: it is never delivered, and it holds no slot
                let room = tokio::time::timeout(Duration::from_secs(5), r.tell(Item(3))).await;
                if !matches!(room, Ok(Ok(()))) {
                    rep.v("C09", format!("cancel({what}): with an idle actor and an empty mailbox a tell returned {room:?}: the cancelled send still occupies the mailbox"));
                }
                let _ = tokio::time::timeout(Duration::from_secs(5), r.ask(Item(4))).await;
                let l = log.lock().unwrap().clone();
                if l.iter().any(|x| x == "h 50") {
                    rep.v("C01", format!("cancel({what}): the send was cancelled before the mailbox accepted it (its caller saw no Ok), yet its message was handled; log {l:?}"));
                }
                if what == "stop" && l.iter().any(|x| x.starts_with("stop")) {
                    rep.v("C02 C07", format!("cancel(stop): the stop() call was cancelled before its request was accepted, yet the actor stopped; log {l:?}"));
                    continue;
                }
                // a later stop(), through any kind of handle, stops the actor
                let weak = ActorRef::downgrade(&r);
                let res = match second {
                    "same" => tokio::time::timeout(Duration::from_secs(5), r.stop()).await,
                    "clone" => {
                        let c = r.clone();
                        tokio::time::timeout(Duration::from_secs(5), c.stop()).await
                    }
                    "upgraded" => {
                        let u = ActorWeak::upgrade(&weak).expect("live actor upgrades");
                        tokio::time::timeout(Duration::from_secs(5), u.stop()).await
                    }
                    _ => {
                        let c: Box<dyn rsactor::ActorControl> = Box::new(r.clone());
                        tokio::time::timeout(Duration::from_secs(5), c.stop()).await
                    }
                };
                if !matches!(res, Ok(Ok(()))) {
                    rep.v("C02 C03", format!("cancel({what}): a later stop() through {second} returned {res:?}"));
                }
                // accepted after stop() returned: never handled
                let after = r.tell(Item(99)).await;
                let ended = tokio::time::timeout(Duration::from_secs(5), jh).await;
                let l = log.lock().unwrap().clone();
                match ended {
                    Ok(Ok(res)) => {
                        if !res.is_completed() || res.was_killed() || !l.iter().any(|x| x == "stop false") {
                            rep.v("C02 C05", format!("cancel({what}): after stop() through {second} the actor ended but not as a graceful stop (on_stop(killed=false), completed); log {l:?}"));
                        }
                    }
                    _ => rep.v("C02 C07", format!("cancel({what}): stop() through {second} returned Ok(()) after an earlier {what}() had been cancelled while waiting for a mailbox slot, but the actor did not stop within 5 s (a tell sent afterwards returned {after:?}); log {l:?}")),
                }
                if l.iter().any(|x| x == "h 99") {
                    rep.v("C02", format!("cancel({what}): a message sent after stop() (through {second}) had returned Ok was handled; log {l:?}"));
                }
                for must in ["h 1", "h 2", "h 3", "h 4"] {
                    if !l.iter().any(|x| x == must) {
                        rep.v("C02 C01", format!("cancel({what}): message `{must}` was accepted before stop() was called but never handled; log {l:?}"));
                    }
                }
                let _ = r.kill();
            }
        }
        rep.s("cancel", format!("cases={cases}"));
    });
}

// ------------------------------------------------------------------------------------------------ backlog
/// long queued backlogs (longer than any script of the step-by-step correspondence) in front of a stop(), a drop
/// of the last reference or a failing on_run, with every kind of on_run: all of it is handled, in order, then
/// on_stop(killed=false) runs once and the JoinHandle resolves
struct Bk {
    log: Arc<Mutex<Vec<String>>>,
    mode: &'static str,
    handled: u32,
    fail_at: u32,
    spins: u32,
    quiet: Arc<tokio::sync::Notify>,
}
impl Actor for Bk {
    type Args = (Arc<Mutex<Vec<String>>>, &'static str, u32);
    type Error = String;
    async fn on_start(a: Self::Args, _: &ActorRef<Self>) -> Result<Self, String> {
        Ok(Bk { log: a.0, mode: a.1, handled: 0, fail_at: a.2, spins: 0, quiet: Arc::new(tokio::sync::Notify::new()) })
    }
    async fn on_run(&mut self, w: &ActorWeak<Self>) -> Result<bool, String> {
        match self.mode {
            "default" => Ok(false),
            // waits for an event that never comes (cancel-safe; restarted whenever a message wins the select)
            "parked" => {
                self.quiet.notified().await;
                Ok(true)
            }
            "ticking" => {
                tokio::task::yield_now().await;
                Ok(true)
            }
            // a pass that has nothing to wait for returns at once, again and again; after 400 such passes it parks
            "spinning" => {
                self.spins += 1;
                if self.spins == 400 {
                    self.log.lock().unwrap().push("spun 400".into());
                }
                if self.spins >= 400 {
                    self.quiet.notified().await;
                }
                Ok(true)
            }
            // parked until `fail_at` messages have been handled, then fails at once ("failing2": on_stop fails too;
            // "failing3": the failing pass first sends two messages to its own actor - they are pending when it fails)
            _ => {
                if self.handled >= self.fail_at {
                    if self.mode == "failing3" {
                        if let Some(me) = w.upgrade() {
                            let _ = me.tell(Item(9000)).await;
                            let _ = me.tell(Item(9001)).await;
                        }
                    }
                    self.log.lock().unwrap().push("run err".into());
                    return Err("scripted on_run error".into());
                }
                self.quiet.notified().await;
                Ok(true)
            }
        }
    }
    async fn on_stop(&mut self, _: &ActorWeak<Self>, killed: bool) -> Result<(), String> {
        self.log.lock().unwrap().push(format!("stop {killed}"));
        if self.mode == "failing2" {
            return Err("scripted on_stop error".into());
        }
        Ok(())
    }
}
impl Message<Item> for Bk {
    type Reply = u32;
    async fn handle(&mut self, m: Item, _: &ActorRef<Self>) -> u32 {
        self.handled += 1;
        self.log.lock().unwrap().push(format!("h {}", m.0));
        m.0
    }
}

fn backlog(rep: &mut Report) {
    let rt = tokio::runtime::Builder::new_current_thread().enable_time().build().unwrap();
    let mut cases = 0u64;
    rt.block_on(async {
        for mode in ["default", "parked", "ticking", "failing", "failing2", "failing3", "spinning"] {
            for n in [1u32, 15, 16, 17, 31, 32, 33, 40, 63, 64, 65, 100, 200] {
                if (mode == "spinning" || mode == "failing3") && ![1, 33, 100].contains(&n) {
                    continue;
                }
                for end in ["stop", "drop"] {
                    // failing modes: "stop" = fails after the whole backlog, "drop" = would fail earlier if polled earlier
                    // (the reference is kept in both: the failing on_run ends the actor)
                    cases += 1;
                    note(format!("backlog: on_run {mode}, {n} tells queued before the actor runs, then {end}"));
                    let log = Arc::new(Mutex::new(vec![]));
                    // a failing on_run fails as soon as it is polled with `fail_at` messages handled: on the unchanged crate that
                    // is after the whole backlog whatever fail_at is (on_run is not polled while mail is waiting)
                    // (only for backlogs the sending task can queue within one cooperative-scheduling budget, i.e. before the actor first runs)
                    let fail_at = if (mode.starts_with("failing") && end == "stop") || n > 100 { n } else if n > 32 { 32 } else if n > 16 { 16 } else { n };
                    let (r, jh) = spawn_with_mailbox_capacity::<Bk>((log.clone(), mode, fail_at), n as usize + 2);
                    // queued back to back: the actor's task has not run yet (current-thread runtime, no yield so far)
                    let mut sent = true;
                    for k in 0..n {
                        sent &= r.tell(Item(k)).await.is_ok();
                    }
                    let mut keep = Some(r);
                    if mode == "spinning" {
                        // the idle actor runs its on_run pass after pass: wait for the 400th before ending it
                        for _ in 0..300 {
                            if log.lock().unwrap().iter().any(|x| x == "spun 400") {
                                break;
                            }
                            tokio::time::sleep(Duration::from_millis(10)).await;
                        }
                    }
                    let stopped = match (mode, end) {
                        // the failing on_run ends the actor by itself; the reference stays alive meanwhile
                        ("failing", _) | ("failing2", _) | ("failing3", _) => true,
                        (_, "stop") => matches!(tokio::time::timeout(Duration::from_secs(5), keep.as_ref().unwrap().stop()).await, Ok(Ok(()))),
                        _ => {
                            keep = None;
                            true
                        }
                    };
                    let res = tokio::time::timeout(Duration::from_secs(5), jh).await;
                    drop(keep);
                    let l = log.lock().unwrap().clone();
                    let handled_all: Vec<u32> = l.iter().filter_map(|x| x.strip_prefix("h ").and_then(|v| v.parse().ok())).collect();
                    let handled: Vec<u32> = handled_all.iter().copied().filter(|v| *v < 9000).collect();
                    let stops = l.iter().filter(|x| x.starts_with("stop")).count();
                    let what = format!("backlog(on_run {mode}, {n} queued tells, then {end})");
                    if handled_all.len() != handled.len() {
                        rep.v("C12 C08 C04", format!("{what}: the on_run pass that returned Err had just sent two messages to its own actor; the failed actor handled {} of them before ending (after Err the actor runs on_stop(killed=false) and ends as failed: what is pending then gets an error, it is not served); log tail {:?}", handled_all.len() - handled.len(), &l[l.len().saturating_sub(5)..]));
                    }
                    if mode == "spinning" && !l.iter().any(|x| x == "spun 400") {
                        rep.v("C08", format!("{what}: an on_run that returns Ok(true) at once is run again whenever the actor is idle; it never returned Ok(false), yet 3 s after the last message it had not made its 400th pass; log tail {:?}", &l[l.len().saturating_sub(3)..]));
                    }
                    if !sent || !stopped {
                        rep.v("C09 C02", format!("{what}: a tell into a mailbox with room, or stop(), failed"));
                    }
                    match res {
                        Ok(Ok(out)) => {
                            if handled != (0..n).collect::<Vec<_>>() {
                                rep.v("C01 C02", format!("{what}: the {n} accepted messages must all be handled, in order, before the actor ends; handled {} of them: {:?}…", handled.len(), &handled[..handled.len().min(8)]));
                            }
                            if stops != 1 || !l.iter().any(|x| x == "stop false") {
                                rep.v("C04 C08 C07", format!("{what}: on_stop(killed=false) must run exactly once; log tail {:?}", &l[l.len().saturating_sub(4)..]));
                            }
                            if mode == "failing2" {
                                if !out.is_cleanup_failed() || out.was_killed() {
                                    rep.v("C05 C08", format!("{what}: on_run returned Err after the backlog and the cleanup on_stop returned Err too: the result must say so (failed in on_run, then in on_stop; not killed)"));
                                }
                            } else if mode == "failing" || mode == "failing3" {
                                if !out.is_runtime_failed() || out.was_killed() {
                                    rep.v("C08 C05", format!("{what}: on_run returned Err after the backlog: the result must be an on_run failure, not killed"));
                                }
                            }
                            if mode.starts_with("failing") {
                                if l.iter().position(|x| x == "run err").map_or(true, |p| l.iter().position(|x| x.starts_with("stop")).map_or(true, |q| q < p)) {
                                    rep.v("C04 C08", format!("{what}: on_stop must follow the failing on_run pass; log tail {:?}", &l[l.len().saturating_sub(4)..]));
                                }
                            } else if !mode.starts_with("failing") && (!out.is_completed() || out.was_killed()) {
                                rep.v("C05 C07", format!("{what}: the actor must end as completed, not killed"));
                            }
                        }
                        _ => rep.v("C07 C01 C03", format!("{what}: the actor did not end within 5 s (handled {} of {n}; log tail {:?})", handled.len(), &l[l.len().saturating_sub(3)..])),
                    }
                }
            }
        }
        rep.s("backlog", format!("cases={cases}"));
    });
}

// ------------------------------------------------------------------------------------------------ erased blocking calls
/// the blocking operations through Box<dyn TellHandler> / Box<dyn AskHandler> against the same call on the ActorRef,
/// over a table of timeouts (None, zero, short, long) and actor states (idle, busy, full mailbox, ended)
fn erasedblk(rep: &mut Report) {
    harness::log::install();
    let rt = tokio::runtime::Builder::new_multi_thread().worker_threads(2).enable_time().build().unwrap();
    let mut cases = 0u64;
    let class = |r: &Result<Option<u32>, rsactor::Error>| match r {
        Ok(Some(v)) => format!("Ok({v})"),
        Ok(None) => "Ok".to_string(),
        Err(rsactor::Error::Timeout { .. }) => "Timeout".to_string(),
        Err(rsactor::Error::Send { .. }) => "Send".to_string(),
        Err(rsactor::Error::Receive { .. }) => "Receive".to_string(),
        Err(_) => "other".to_string(),
    };
    for state in ["idle", "busy", "full", "ended"] {
        for (tname, tmo) in [("None", None), ("Some(0)", Some(Duration::ZERO)), ("Some(40 ms)", Some(Duration::from_millis(40))), ("Some(2 s)", Some(Duration::from_secs(2)))] {
            for op in ["tell", "ask"] {
                // outcomes that depend on a race between the reply and a zero deadline are not compared
                if state == "idle" && tname == "Some(0)" {
                    continue;
                }
                let mut got = vec![];
                for erased in [false, true] {
                    let log = Arc::new(Mutex::new(vec![]));
                    let slow = if state == "idle" || state == "ended" { 0 } else { 200 };
                    let cap = if state == "full" { 1 } else { 8 };
                    let (r, jh) = rt.block_on(async { spawn_with_mailbox_capacity::<B>((log.clone(), slow), cap) });
                    match state {
                        "busy" => {
                            r.blocking_tell(W(1), None).unwrap();
                            std::thread::sleep(Duration::from_millis(20));
                        }
                        "full" => {
                            r.blocking_tell(W(1), None).unwrap();
                            std::thread::sleep(Duration::from_millis(20));
                            r.blocking_tell(W(2), None).unwrap();
                        }
                        "ended" => {
                            let _ = r.kill();
                            rt.block_on(async { let _ = tokio::time::timeout(Duration::from_secs(5), jh).await; });
                        }
                        _ => {}
                    }
                    let th: Box<dyn rsactor::TellHandler<W>> = Box::new(r.clone());
                    let ah: Box<dyn rsactor::AskHandler<W, u32>> = Box::new(r.clone());
                    let dl0 = harness::log::DEAD_LETTER_EVENTS.load(SeqCst);
                    let t0 = Instant::now();
                    let res: Result<Option<u32>, rsactor::Error> = match (op, erased) {
                        ("tell", false) => r.blocking_tell(W(9), tmo).map(|_| None),
                        ("tell", true) => th.blocking_tell(W(9), tmo).map(|_| None),
                        (_, false) => r.blocking_ask(W(9), tmo).map(Some),
                        _ => ah.blocking_ask(W(9), tmo).map(Some),
                    };
                    let el = t0.elapsed();
                    cases += 1;
                    // dead letters of this one call (a failed call records exactly one, whichever way it was made)
                    std::thread::sleep(Duration::from_millis(15));
                    let dl = harness::log::DEAD_LETTER_EVENTS.load(SeqCst) - dl0;
                    got.push((format!("{} with {dl} dead letter(s)", class(&res)), el));
                    let _ = r.kill();
                    if res.is_err() && dl != 1 {
                        rep.v("C17 C13 C16", format!("blocking_{op}(.., {tname}) on an actor that is {state}, called {}: returned {} and {dl} dead letters were recorded for it (a failed delivery records exactly one)", if erased { "through a boxed handler" } else { "on the ActorRef" }, class(&res)));
                    }
                }
                if got[0].0 != got[1].0 {
                    rep.v("C16 C17", format!("blocking_{op}(.., {tname}) on an actor that is {state}: the ActorRef returns {} (after {:?}), the same call through a Box<dyn {}Handler> returns {} (after {:?})",
                        got[0].0, got[0].1, if op == "tell" { "Tell" } else { "Ask" }, got[1].0, got[1].1));
                }
            }
        }
    }
    rep.s("erasedblk", format!("cases={cases}"));
}

// ------------------------------------------------------------------------------------------------ reply, then the end, in one poll
/// a handler answers an ask and ends its own actor (kill(), or stop() queued right behind) before the asker is polled
/// again: the asker finds the reply AND a closed mailbox.  The reply wins, and a success records no dead letter.
struct Rc2 {
    log: Arc<Mutex<Vec<String>>>,
}
impl Actor for Rc2 {
    type Args = Arc<Mutex<Vec<String>>>;
    type Error = String;
    async fn on_start(a: Self::Args, _: &ActorRef<Self>) -> Result<Self, String> {
        Ok(Rc2 { log: a })
    }
}
struct CloseBy(&'static str);
impl Message<CloseBy> for Rc2 {
    type Reply = u32;
    async fn handle(&mut self, m: CloseBy, me: &ActorRef<Self>) -> u32 {
        self.log.lock().unwrap().push(format!("h {}", m.0));
        match m.0 {
            "kill" => {
                let _ = me.kill();
            }
            "stop" => {
                let _ = me.stop().await;
            }
            _ => {}
        }
        7
    }
}

fn replyclose(rep: &mut Report) {
    harness::log::install();
    let rt = tokio::runtime::Builder::new_current_thread().enable_time().build().unwrap();
    let mut cases = 0u64;
    rt.block_on(async {
        for how in ["kill", "stop", "none"] {
            for form in ["ask", "ask_with_timeout", "erased ask"] {
                cases += 1;
                note(format!("replyclose: {form}, the handler replies and ends its actor by {how} in the same poll"));
                let log = Arc::new(Mutex::new(vec![]));
                let (r, jh) = spawn_with_mailbox_capacity::<Rc2>(log.clone(), 4);
                tokio::task::yield_now().await;
                let before = harness::log::DEAD_LETTER_EVENTS.load(SeqCst);
                let res = match form {
                    "ask" => r.ask(CloseBy(how)).await,
                    "ask_with_timeout" => r.ask_with_timeout(CloseBy(how), Duration::from_secs(2)).await,
                    _ => {
                        let ah: Box<dyn rsactor::AskHandler<CloseBy, u32>> = Box::new(r.clone());
                        ah.ask(CloseBy(how)).await
                    }
                };
                if how == "none" {
                    let _ = r.kill();
                }
                let _ = tokio::time::timeout(Duration::from_secs(5), jh).await;
                tokio::time::sleep(Duration::from_millis(10)).await;
                let delta = harness::log::DEAD_LETTER_EVENTS.load(SeqCst) - before;
                match res {
                    Ok(7) => {
                        if delta != 0 {
                            rep.v("C13", format!("replyclose({form}, {how}): the ask returned Ok(7) - the handler had replied before its actor ended - and {delta} dead letter(s) were recorded for it (operations that succeed record none)"));
                        }
                    }
                    other => rep.v("C03 C13", format!("replyclose({form}, {how}): the handler returned 7 and then ended its actor; the asker got {other:?} (a reply that was sent is delivered) with {delta} dead letter(s)")),
                }
            }
        }
        // an actor that has ended, timed operations with a zero or tiny budget: the one failure is reported as itself
        // (Send) and recorded once, whatever the clock says afterwards
        for tmo in [Duration::ZERO, Duration::from_nanos(1), Duration::from_millis(5)] {
            for form in ["tell", "ask"] {
                cases += 1;
                let log = Arc::new(Mutex::new(vec![]));
                let (r, jh) = spawn_with_mailbox_capacity::<Rc2>(log.clone(), 4);
                let _ = r.kill();
                let _ = tokio::time::timeout(Duration::from_secs(5), jh).await;
                let before = harness::log::DEAD_LETTER_EVENTS.load(SeqCst);
                let res = if form == "tell" {
                    r.tell_with_timeout(CloseBy("none"), tmo).await.map(|_| 0)
                } else {
                    r.ask_with_timeout(CloseBy("none"), tmo).await
                };
                tokio::time::sleep(Duration::from_millis(10)).await;
                let delta = harness::log::DEAD_LETTER_EVENTS.load(SeqCst) - before;
                if !matches!(res, Err(rsactor::Error::Send { .. })) || delta != 1 {
                    rep.v("C13 C10", format!("{form}_with_timeout(.., {tmo:?}) on an actor that has ended returned {res:?} with {delta} dead letter(s): the failure is Err(Send), reported as itself, and recorded exactly once"));
                }
            }
        }
        rep.s("replyclose", format!("cases={cases}"));
    });
}

// ------------------------------------------------------------------------------------------------ panics in every hook
/// a panic anywhere in the actor's own code - on_start, a handler, on_tell_result, on_run, on_stop - ends that actor:
/// its JoinHandle reports the panic, on_stop does not run afterwards, nothing queued behind it is handled, later
/// sends fail
struct Hp {
    log: Arc<Mutex<Vec<String>>>,
    at: &'static str,
}
impl Actor for Hp {
    type Args = (Arc<Mutex<Vec<String>>>, &'static str);
    type Error = String;
    async fn on_start(a: Self::Args, _: &ActorRef<Self>) -> Result<Self, String> {
        if a.1 == "on_start" {
            panic!("scripted panic in on_start");
        }
        Ok(Hp { log: a.0, at: a.1 })
    }
    async fn on_run(&mut self, _: &ActorWeak<Self>) -> Result<bool, String> {
        if self.at == "on_run" {
            tokio::time::sleep(Duration::from_millis(5)).await;
            self.log.lock().unwrap().push("run".into());
            panic!("scripted panic in on_run");
        }
        Ok(false)
    }
    async fn on_stop(&mut self, _: &ActorWeak<Self>, killed: bool) -> Result<(), String> {
        self.log.lock().unwrap().push(format!("stop {killed}"));
        if self.at == "on_stop" {
            panic!("scripted panic in on_stop");
        }
        Ok(())
    }
}
struct Hold(tokio::sync::oneshot::Receiver<()>);
impl Message<Hold> for Hp {
    type Reply = ();
    async fn handle(&mut self, m: Hold, _: &ActorRef<Self>) {
        let _ = m.0.await;
    }
}
struct Pm(u32);
impl Message<Pm> for Hp {
    type Reply = u32;
    async fn handle(&mut self, m: Pm, _: &ActorRef<Self>) -> u32 {
        self.log.lock().unwrap().push(format!("h {}", m.0));
        if self.at == "handler" && m.0 == 666 {
            panic!("scripted panic in a handler");
        }
        m.0
    }
    fn on_tell_result(result: &u32, _: &ActorRef<Self>) {
        HP_TELL_RESULTS.fetch_add(1, SeqCst);
        if *result == 777 {
            panic!("scripted panic in on_tell_result");
        }
    }
}
static HP_TELL_RESULTS: AtomicU64 = AtomicU64::new(0);

fn hookpanic(rep: &mut Report) {
    let rt = tokio::runtime::Builder::new_current_thread().enable_time().build().unwrap();
    let mut cases = 0u64;
    rt.block_on(async {
        for at in ["on_start", "handler", "on_tell_result", "on_run", "on_stop"] {
            for end in ["stop", "drop", "kill"] {
                cases += 1;
                note(format!("hookpanic: panic in {at}; afterwards the references are used for {end}"));
                let log = Arc::new(Mutex::new(vec![]));
                let (r, jh) = spawn_with_mailbox_capacity::<Hp>((log.clone(), at), 8);
                // one boxed control handle, asked before and after the actor's end
                // (not when the ending is "every reference dropped": the box is a strong reference)
                let ctl: Option<Box<dyn rsactor::ActorControl>> = if end == "drop" { None } else { Some(Box::new(r.clone())) };
                tokio::task::yield_now().await;
                let alive_before = (ctl.as_ref().map_or(r.is_alive(), |c| c.is_alive()), r.is_alive());
                match at {
                    "handler" => {
                        let _ = r.tell(Pm(1)).await;
                        let _ = r.tell(Pm(666)).await;
                        let _ = r.tell(Pm(2)).await;
                    }
                    "on_tell_result" => {
                        let _ = r.tell(Pm(1)).await;
                        let _ = r.tell(Pm(777)).await;
                        let _ = r.tell(Pm(2)).await;
                    }
                    _ => {}
                }
                // let the panic happen (on_stop panics only once the actor is being ended)
                tokio::time::sleep(Duration::from_millis(25)).await;
                let stops_before = log.lock().unwrap().iter().filter(|x| x.starts_with("stop")).count();
                let later = r.tell(Pm(3)).await;
                match end {
                    "stop" => {
                        let _ = tokio::time::timeout(Duration::from_secs(2), r.stop()).await;
                    }
                    "kill" => {
                        let _ = r.kill();
                    }
                    _ => {}
                }
                drop(r);
                let res = tokio::time::timeout(Duration::from_secs(5), jh).await;
                let l = log.lock().unwrap().clone();
                let what = format!("hookpanic(panic in {at}, then {end})");
                match res {
                    Ok(Err(e)) if e.is_panic() => {}
                    Ok(Err(_)) => rep.v("C12 C05", format!("{what}: the JoinHandle reports a cancelled task, not the panic")),
                    Ok(Ok(_)) => rep.v("C12 C04", format!("{what}: a hook panicked, yet the JoinHandle yields an ActorResult instead of reporting the panic (the actor survived its own panic); log {l:?}")),
                    Err(_) => rep.v("C12 C07", format!("{what}: the actor did not end within 5 s; log {l:?}")),
                }
                let alive_after = ctl.as_ref().map_or(false, |c| c.is_alive());
                if alive_before.0 != alive_before.1 || alive_after {
                    rep.v("C16 C11", format!("{what}: a Box<dyn ActorControl> kept across the actor's end said is_alive() = {} while the ActorRef said {} before, and is_alive() = {alive_after} after the JoinHandle had resolved (same answers as the ActorRef; false once the actor has ended)", alive_before.0, alive_before.1));
                }
                drop(ctl);
                let stops = l.iter().filter(|x| x.starts_with("stop")).count();
                if at != "on_stop" && stops > 0 {
                    rep.v("C04 C12", format!("{what}: on_stop ran although a hook had panicked (on_stop is not run after a panic); log {l:?}"));
                }
                if at == "on_stop" && stops != 1 {
                    rep.v("C04", format!("{what}: on_stop must run exactly once; log {l:?}"));
                }
                if (at == "handler" || at == "on_tell_result") && (l.iter().any(|x| x == "h 2") || l.iter().any(|x| x == "h 3")) {
                    rep.v("C12 C04", format!("{what}: messages queued behind the one whose hook panicked were handled; log {l:?}"));
                }
                if at != "on_stop" && at != "on_run" && later.is_ok() && at != "on_start" {
                    rep.v("C12 C03", format!("{what}: a tell issued 25 ms after the panic returned Ok"));
                }
                let _ = stops_before;
                // the hooks of other actors are untouched: a tell handled by a fresh actor is followed by exactly one on_tell_result
                {
                    let log3 = Arc::new(Mutex::new(vec![]));
                    let (r3, _jh3) = rsactor::spawn::<Hp>((log3, "gate"));
                    let before = HP_TELL_RESULTS.load(SeqCst);
                    let told = r3.tell(Pm(5)).await;
                    let asked = r3.ask(Pm(6)).await;
                    let calls = HP_TELL_RESULTS.load(SeqCst) - before;
                    if calls != 1 || told.is_err() || !matches!(asked, Ok(6)) {
                        rep.v("C19 C12", format!("{what}: afterwards a fresh actor handled one tell (returned {told:?}) and one ask (returned {asked:?}); on_tell_result ran {calls} time(s) for it (exactly once: after the tell, never after the ask - one actor's panic does not change what another actor's hooks do)"));
                    }
                    let _ = r3.kill();
                }
                // framework-wide state is intact: a plain spawn() afterwards has the default capacity (nothing configures one here)
                if end == "stop" {
                    let log2 = Arc::new(Mutex::new(vec![]));
                    let (r2, _jh2) = rsactor::spawn::<Hp>((log2, "gate"));
                    let (gtx, grx) = tokio::sync::oneshot::channel::<()>();
                    let _ = r2.tell(Hold(grx)).await;
                    tokio::task::yield_now().await;
                    let mut accepted = 0usize;
                    while accepted < 40 && matches!(tokio::time::timeout(Duration::from_millis(2), r2.tell(Pm(5))).await, Ok(Ok(()))) {
                        accepted += 1;
                    }
                    if accepted != 32 {
                        rep.v("C12 C09", format!("{what}: an actor spawned afterwards with plain spawn() accepted {accepted} messages while parked in a handler (the default capacity is 32): the earlier actor's panic changed what later spawns get"));
                    }
                    let _ = gtx.send(());
                    let _ = r2.kill();
                }
            }
        }
        rep.s("hookpanic", format!("cases={cases}"));
    });
}

// ------------------------------------------------------------------------------------------------ the last reference lives in the work itself
/// self-continuation: the spawner tells once and drops its handle; each handler tells its own actor the next step (or
/// hands a clone of its reference to a task that does, or upgrades a weak handle).  The chain is accepted work: every
/// step is handled, then - and only then - the unreferenced actor ends with on_stop(killed=false).
/// Also: an actor nobody refers to ends at once, whatever its on_run is doing, and weak handles say so.
struct Sc {
    log: Arc<Mutex<Vec<String>>>,
    mode: &'static str,
    quiet: Arc<tokio::sync::Notify>,
    weak: Option<ActorWeak<Sc>>,
}
impl Actor for Sc {
    type Args = (Arc<Mutex<Vec<String>>>, &'static str);
    type Error = String;
    async fn on_start(a: Self::Args, me: &ActorRef<Self>) -> Result<Self, String> {
        Ok(Sc { log: a.0, mode: a.1, quiet: Arc::new(tokio::sync::Notify::new()), weak: Some(ActorRef::downgrade(me)) })
    }
    async fn on_run(&mut self, _: &ActorWeak<Self>) -> Result<bool, String> {
        if self.mode == "parked-run" {
            self.quiet.notified().await;
            return Ok(true);
        }
        Ok(false)
    }
    async fn on_stop(&mut self, _: &ActorWeak<Self>, killed: bool) -> Result<(), String> {
        self.log.lock().unwrap().push(format!("stop {killed}"));
        Ok(())
    }
}
struct Tick(u32);
impl Message<Tick> for Sc {
    type Reply = ();
    async fn handle(&mut self, m: Tick, me: &ActorRef<Self>) {
        self.log.lock().unwrap().push(format!("tick {}", m.0));
        if m.0 == 0 {
            return;
        }
        match self.mode {
            "task" => {
                let r = me.clone();
                tokio::spawn(async move {
                    tokio::task::yield_now().await;
                    let _ = r.tell(Tick(m.0 - 1)).await;
                });
            }
            "upgrade" => {
                if let Some(r) = self.weak.as_ref().and_then(ActorWeak::upgrade) {
                    let _ = r.tell(Tick(m.0 - 1)).await;
                }
            }
            _ => {
                let _ = me.tell(Tick(m.0 - 1)).await;
            }
        }
    }
}

fn selfchain(rep: &mut Report) {
    let rt = tokio::runtime::Builder::new_current_thread().enable_time().build().unwrap();
    let mut cases = 0u64;
    rt.block_on(async {
        for mode in ["self-tell", "task", "upgrade", "parked-run"] {
            for cap in [1usize, 4] {
                cases += 1;
                note(format!("selfchain: {mode}, capacity {cap}: tell Tick(4), drop the only handle"));
                let log = Arc::new(Mutex::new(vec![]));
                let (r, jh) = spawn_with_mailbox_capacity::<Sc>((log.clone(), mode), cap);
                let weak = ActorRef::downgrade(&r);
                let sent = r.tell(Tick(4)).await;
                drop(r);
                let res = tokio::time::timeout(Duration::from_secs(5), jh).await;
                let l = log.lock().unwrap().clone();
                let want: Vec<String> = (0..=4).rev().map(|k| format!("tick {k}")).chain(std::iter::once("stop false".to_string())).collect();
                let what = format!("selfchain({mode}, capacity {cap})");
                match res {
                    Ok(Ok(out)) => {
                        if sent.is_err() || l != want {
                            rep.v("C01 C07", format!("{what}: the spawner told Tick(4) and dropped its handle; each handler passes the next step to its own actor before it returns, so the steps are accepted work and the actor is referenced until the last one is handled: expected {want:?}, got {l:?}"));
                        }
                        if !out.is_completed() || out.was_killed() {
                            rep.v("C05 C07", format!("{what}: the actor must end as completed, not killed"));
                        }
                    }
                    _ => rep.v("C07 C01", format!("{what}: the actor did not end within 5 s of becoming unreferenced; log {l:?}")),
                }
                if ActorWeak::upgrade(&weak).is_some() || weak.is_alive() {
                    rep.v("C11", format!("{what}: the actor has ended; a weak handle still upgrades or says alive"));
                }
            }
        }
        // nobody ever refers to it: dropped before the actor's task has run, or right after on_start
        for mode in ["default-run", "parked-run"] {
            for when in ["before it runs", "after on_start"] {
                cases += 1;
                note(format!("selfchain: unreferenced actor ({mode}), handle dropped {when}"));
                let log = Arc::new(Mutex::new(vec![]));
                let (r, jh) = spawn_with_mailbox_capacity::<Sc>((log.clone(), mode), 4);
                let weak = ActorRef::downgrade(&r);
                if when == "after on_start" {
                    tokio::task::yield_now().await;
                }
                drop(r);
                // let the actor's task notice (a few polls)
                for _ in 0..5 {
                    tokio::task::yield_now().await;
                }
                let up = ActorWeak::upgrade(&weak).is_some();
                let alive = weak.is_alive();
                if up || alive {
                    rep.v("C11 C07", format!("an actor ({mode}) whose only handle was dropped {when}, no message ever sent: after the actor's task has been polled several times a weak handle gives upgrade() = {up}, is_alive() = {alive} (no strong reference exists anywhere: both must be false)"));
                }
                let res = tokio::time::timeout(Duration::from_secs(5), jh).await;
                let l = log.lock().unwrap().clone();
                match res {
                    Ok(Ok(out)) if out.is_completed() && !out.was_killed() && l == vec!["stop false".to_string()] => {}
                    Ok(Ok(_)) => rep.v("C07 C04", format!("an unreferenced actor ({mode}, handle dropped {when}) must end as completed after on_stop(killed=false); log {l:?}")),
                    _ => rep.v("C07", format!("an unreferenced actor ({mode}, handle dropped {when}) did not end within 5 s; log {l:?}")),
                }
            }
        }
        rep.s("selfchain", format!("cases={cases}"));
    });
}

// ------------------------------------------------------------------------------------------------ after the end
/// once the JoinHandle has resolved the actor is gone for everybody: is_alive is false, every send fails at once, whatever
/// was still queued when it ended
fn afterend(rep: &mut Report) {
    let mut cases = 0u64;
    for flavour in ["multi-thread, from a worker task", "current-thread, event_interval 1"] {
      let rt = if flavour.starts_with("multi") {
          tokio::runtime::Builder::new_multi_thread().worker_threads(2).enable_time().build().unwrap()
      } else {
          tokio::runtime::Builder::new_current_thread().enable_time().event_interval(1).build().unwrap()
      };
      let found: Vec<String> = rt.block_on(async {
       let h = tokio::spawn(async move {
        let mut found = vec![];
        for it in 0..300u32 {
            let log = Arc::new(Mutex::new(vec![]));
            let (r, jh) = spawn_with_mailbox_capacity::<B>((log.clone(), if it % 2 == 0 { 1 } else { 0 }), 8);
            for k in 0..5u32 {
                let _ = r.tell(W(k)).await;
            }
            if it % 3 == 0 {
                let _ = r.stop().await;
                let _ = r.tell(W(6)).await; // queued behind the stop marker
            } else {
                let _ = r.kill();
            }
            let _ = tokio::time::timeout(Duration::from_secs(10), jh).await;
            let alive = r.is_alive();
            let t = r.tell(W(7)).await;
            let a = tokio::time::timeout(Duration::from_secs(5), r.ask(W(8))).await;
            if alive || t.is_ok() || !matches!(a, Ok(Err(rsactor::Error::Send { .. }))) {
                found.push(format!("afterend ({flavour}; iteration {it}, ended by {} with messages still queued): after the JoinHandle resolved is_alive() = {alive}, tell returned {t:?}, ask returned {a:?} (is_alive is false and every send fails with Err(Send) at once)", if it % 3 == 0 { "stop()" } else { "kill()" }));
                break;
            }
            // the same for message types that are not structs of the caller's crate (a number, the unit, a string slice):
            // the sender gets its error, it does not fail itself
            if it < 6 {
                let r2 = r.clone();
                let prim = tokio::spawn(async move {
                    let a = r2.tell(9u32).await.is_err();
                    let b = matches!(r2.ask(()).await, Err(rsactor::Error::Send { .. }));
                    let c = r2.tell_with_timeout("text", Duration::from_millis(5)).await.is_err();
                    (a, b, c)
                })
                .await;
                if !matches!(prim, Ok((true, true, true))) {
                    found.push(format!("[C12] afterend ({flavour}; iteration {it}): sends of a u32, of () and of a &str to an actor that has ended, made from a task of their own: {} (each returns an error to its sender; the sender's task does not fail because the actor it wrote to is gone)", match &prim { Ok(x) => format!("errors returned (tell u32, ask (), timed tell &str) = {x:?}"), Err(e) => format!("the sending task {}", if e.is_panic() { "panicked" } else { "was cancelled" }) }));
                    break;
                }
            }
        }
        found
       });
       h.await.unwrap_or_default()
      });
      cases += 300;
      for f in found {
          if let Some(t) = f.strip_prefix("[C12] ") {
              rep.v("C12 C13", t.to_string());
          } else {
              rep.v("C11 C03", f);
          }
      }
    }
    rep.s("afterend", format!("cases={cases}"));
}

// ------------------------------------------------------------------------------------------------ asks still queued at the end
/// an ask that is still in the mailbox when the actor ends was never handled: whatever its reply type is, the asker
/// gets an error (never an Ok with some value), exactly one dead letter is recorded, and the handler never runs;
/// an ask that its caller gave up while it was queued is still accepted work (it keeps the actor referenced and is
/// handled before a graceful end)
struct Qa {
    log: Arc<Mutex<Vec<String>>>,
}
impl Actor for Qa {
    type Args = Arc<Mutex<Vec<String>>>;
    type Error = String;
    async fn on_start(a: Self::Args, _: &ActorRef<Self>) -> Result<Self, String> {
        Ok(Qa { log: a })
    }
    async fn on_stop(&mut self, w: &ActorWeak<Self>, killed: bool) -> Result<(), String> {
        let _ = w;
        self.log.lock().unwrap().push(format!("stop {killed}"));
        Ok(())
    }
}
impl Message<Gate> for Qa {
    type Reply = ();
    async fn handle(&mut self, m: Gate, _: &ActorRef<Self>) {
        let _ = m.0.await;
    }
}
struct AsString(u32);
struct AsUnit(u32);
struct AsOption(u32);
struct AsVec(u32);
impl Message<AsString> for Qa {
    type Reply = String;
    async fn handle(&mut self, m: AsString, _: &ActorRef<Self>) -> String {
        self.log.lock().unwrap().push(format!("h {}", m.0));
        format!("reply {}", m.0)
    }
}
impl Message<AsUnit> for Qa {
    type Reply = ();
    async fn handle(&mut self, m: AsUnit, _: &ActorRef<Self>) {
        self.log.lock().unwrap().push(format!("h {}", m.0));
    }
}
impl Message<AsOption> for Qa {
    type Reply = Option<String>;
    async fn handle(&mut self, m: AsOption, _: &ActorRef<Self>) -> Option<String> {
        self.log.lock().unwrap().push(format!("h {}", m.0));
        Some(format!("reply {}", m.0))
    }
}
impl Message<AsVec> for Qa {
    type Reply = Vec<u8>;
    async fn handle(&mut self, m: AsVec, _: &ActorRef<Self>) -> Vec<u8> {
        self.log.lock().unwrap().push(format!("h {}", m.0));
        vec![m.0 as u8]
    }
}

fn queuedask(rep: &mut Report) {
    harness::log::install();
    let rt = tokio::runtime::Builder::new_current_thread().enable_time().build().unwrap();
    let mut cases = 0u64;
    rt.block_on(async {
        for ending in ["kill", "stop"] {
            for ty in ["String", "()", "Option<String>", "Vec<u8>"] {
                cases += 1;
                note(format!("queuedask: an ask with reply type {ty} is queued behind a parked handler when the actor ends by {ending}"));
                let log = Arc::new(Mutex::new(vec![]));
                let (r, jh) = spawn_with_mailbox_capacity::<Qa>(log.clone(), 8);
                let (gtx, grx) = tokio::sync::oneshot::channel();
                r.tell(Gate(grx)).await.unwrap();
                tokio::task::yield_now().await;
                if ending == "stop" {
                    // the stop marker is queued first: the ask behind it is accepted after stop() returned
                    let _ = r.stop().await;
                }
                let before = harness::log::DEAD_LETTER_EVENTS.load(SeqCst);
                let r2 = r.clone();
                let asker = tokio::spawn(async move {
                    match ty {
                        "String" => r2.ask(AsString(7)).await.map(|v| format!("{v:?}")),
                        "()" => r2.ask(AsUnit(7)).await.map(|v| format!("{v:?}")),
                        "Option<String>" => r2.ask(AsOption(7)).await.map(|v| format!("{v:?}")),
                        _ => r2.ask(AsVec(7)).await.map(|v| format!("{v:?}")),
                    }
                });
                tokio::task::yield_now().await; // the ask is in the mailbox
                if ending == "kill" {
                    let _ = r.kill();
                }
                let _ = gtx.send(());
                let res = tokio::time::timeout(Duration::from_secs(5), asker).await;
                let _ = tokio::time::timeout(Duration::from_secs(5), jh).await;
                tokio::time::sleep(Duration::from_millis(10)).await;
                let delta = harness::log::DEAD_LETTER_EVENTS.load(SeqCst) - before;
                let l = log.lock().unwrap().clone();
                let handled = l.iter().any(|x| x == "h 7");
                match res {
                    Ok(Ok(Err(rsactor::Error::Receive { .. }))) if !handled && delta == 1 => {}
                    Ok(Ok(Ok(v))) => rep.v("C03 C06 C02", format!("queuedask({ty}, {ending}): the ask was still queued when the actor ended (its handler ran: {handled}) and returned Ok({v}) - a value its handler never produced; {delta} dead letter(s)")),
                    other => rep.v("C03 C13 C06", format!("queuedask({ty}, {ending}): an ask still queued when the actor ended must fail with Err(Receive), unhandled, with exactly one dead letter; got {other:?}, handled={handled}, {delta} dead letter(s)")),
                }
            }
        }
        // an ask given up by its caller while queued: still accepted work
        for how in ["timeout", "dropped future"] {
            cases += 1;
            note(format!("queuedask: an ask abandoned by its caller ({how}) while queued; then every reference is dropped"));
            let log = Arc::new(Mutex::new(vec![]));
            let (r, jh) = spawn_with_mailbox_capacity::<Qa>(log.clone(), 8);
            let (gtx, grx) = tokio::sync::oneshot::channel();
            r.tell(Gate(grx)).await.unwrap();
            tokio::task::yield_now().await;
            if how == "timeout" {
                let _ = r.ask_with_timeout(AsString(7), Duration::from_millis(20)).await;
            } else {
                let _ = tokio::time::timeout(Duration::from_millis(20), r.ask(AsString(7))).await;
            }
            let weak = ActorRef::downgrade(&r);
            drop(r);
            let up = ActorWeak::upgrade(&weak).is_some();
            if !up || !weak.is_alive() {
                rep.v("C11 C07", format!("queuedask(abandoned by {how}): the request is still in the mailbox (accepted; its caller merely stopped waiting) and every handle was dropped: a weak handle says upgrade() = {up}, is_alive() = {} (a queued message refers to the actor)", weak.is_alive()));
            }
            let _ = gtx.send(());
            let res = tokio::time::timeout(Duration::from_secs(5), jh).await;
            let l = log.lock().unwrap().clone();
            if res.is_err() || l != vec!["h 7".to_string(), "stop false".to_string()] {
                rep.v("C01 C07 C11 C12", format!("queuedask(abandoned by {how}): the accepted request must be handled before the unreferenced actor ends gracefully; ended={}, log {l:?} (expected [h 7, stop false])", res.is_ok()));
            }
        }
        // a handle that gave up one request and makes another gets the answer to the other: the reply path of an abandoned
        // ask is never reused for the next one (same handle value, not a clone)
        for second in ["same type", "other type", "ask_with_timeout"] {
            cases += 1;
            note(format!("queuedask: an ask given up while queued (dropped future), then a second ask ({second}) through the same handle before the first is answered"));
            let log = Arc::new(Mutex::new(vec![]));
            let (r, jh) = spawn_with_mailbox_capacity::<Qa>(log.clone(), 8);
            let (gtx, grx) = tokio::sync::oneshot::channel();
            r.tell(Gate(grx)).await.unwrap();
            tokio::task::yield_now().await;
            let gave_up = tokio::time::timeout(Duration::from_millis(20), r.ask(AsString(21))).await.is_err();
            let _ = gtx.send(());
            let got = match second {
                "same type" => tokio::time::timeout(Duration::from_secs(5), r.ask(AsString(22))).await.map(|x| format!("{x:?}")),
                "other type" => tokio::time::timeout(Duration::from_secs(5), r.ask(AsOption(22))).await.map(|x| format!("{x:?}")),
                _ => tokio::time::timeout(Duration::from_secs(5), r.ask_with_timeout(AsString(22), Duration::from_secs(4))).await.map(|x| format!("{x:?}")),
            };
            let want = if second == "other type" { "Ok(Some(\"reply 22\"))" } else { "Ok(\"reply 22\")" };
            let l = log.lock().unwrap().clone();
            if !gave_up || got.as_deref() != Ok(want) {
                let got = got.unwrap_or_else(|_| "nothing within 5 s".to_string());
                rep.v("C03", format!("queuedask(re-ask, {second}): the first ask (request 21) was given up by its caller while queued (gave up: {gave_up}); the second ask (request 22) through the same handle returned {got} (expected its own handler's value, {want}); handled: {l:?}"));
            }
            let _ = r.kill();
            let _ = tokio::time::timeout(Duration::from_secs(5), jh).await;
        }
        rep.s("queuedask", format!("cases={cases}"));
    });
}

// ------------------------------------------------------------------------------------------------ two asks closing a cycle at once
/// (builds with deadlock detection only) two actors on two OS threads ask each other at the same instant: exactly one of
/// the two asks is reported as the one that would close the cycle - never none
#[cfg(feature = "deadlock")]
mod cyc {
    use super::*;
    pub struct Cy;
    impl Actor for Cy {
        type Args = ();
        type Error = String;
        async fn on_start(_: (), _: &ActorRef<Self>) -> Result<Self, String> {
            Ok(Cy)
        }
    }
    pub struct Go(pub ActorRef<Cy>, pub Arc<AtomicU64>);
    pub struct PingC;
    impl Message<PingC> for Cy {
        type Reply = u32;
        async fn handle(&mut self, _: PingC, _: &ActorRef<Self>) -> u32 {
            1
        }
    }
    impl Message<Go> for Cy {
        type Reply = String;
        async fn handle(&mut self, m: Go, _: &ActorRef<Self>) -> String {
            // both handlers are running, each on its own thread: meet at a spin barrier so that the two asks start within
            // nanoseconds of each other
            m.1.fetch_add(1, SeqCst);
            while m.1.load(SeqCst) < 2 {
                std::hint::spin_loop();
            }
            match m.0.ask_with_timeout(PingC, Duration::from_millis(300)).await {
                Ok(_) => "ok".into(),
                Err(rsactor::Error::Timeout { .. }) => "timeout".into(),
                Err(_) => "error".into(),
            }
        }
    }
}
#[cfg(feature = "deadlock")]
fn cyclerace(rep: &mut Report) {
    use cyc::*;
    let mut rounds = 0u64;
    for round in 0..1500u32 {
        rounds += 1;
        let bar = Arc::new(AtomicU64::new(0));
        let mk = || {
            let (tx, rx) = std::sync::mpsc::channel::<(ActorRef<Cy>, std::sync::mpsc::Sender<ActorRef<Cy>>)>();
            let _ = tx;
            rx
        };
        let _ = mk;
        // each actor lives on its own thread with its own current-thread runtime
        let (atx, arx) = std::sync::mpsc::channel::<ActorRef<Cy>>();
        let (btx, brx) = std::sync::mpsc::channel::<ActorRef<Cy>>();
        let (ptx_a, prx_a) = std::sync::mpsc::channel::<ActorRef<Cy>>();
        let (ptx_b, prx_b) = std::sync::mpsc::channel::<ActorRef<Cy>>();
        let run = |me_tx: std::sync::mpsc::Sender<ActorRef<Cy>>, peer_rx: std::sync::mpsc::Receiver<ActorRef<Cy>>, bar: Arc<AtomicU64>| {
            std::thread::spawn(move || {
                let rt = tokio::runtime::Builder::new_current_thread().enable_time().build().unwrap();
                rt.block_on(async move {
                    let (r, jh) = rsactor::spawn::<Cy>(());
                    let _ = me_tx.send(r.clone());
                    let peer = peer_rx.recv().unwrap();
                    let out = r.ask(Go(peer, bar)).await;
                    let _ = r.kill();
                    let joined = tokio::time::timeout(Duration::from_secs(5), jh).await;
                    let panicked = matches!(joined, Ok(Err(ref e)) if e.is_panic());
                    (out.ok(), panicked)
                })
            })
        };
        let ta = run(atx, prx_a, bar.clone());
        let tb = run(btx, prx_b, bar.clone());
        let (a, b) = (arx.recv().unwrap(), brx.recv().unwrap());
        let _ = ptx_a.send(b);
        let _ = ptx_b.send(a);
        let (ra, rb) = (ta.join().unwrap_or((None, false)), tb.join().unwrap_or((None, false)));
        // a deadlock report ends the asking actor's task with a panic (its own Go request is then answered with an error)
        let reports = [ra.1, rb.1].iter().filter(|x| **x).count();
        if reports == 0 {
            rep.v("C14", format!("cyclerace (round {round}): two actors, each on its own thread, asked each other at the same instant (300 ms timeouts): neither ask was reported as closing the cycle - outcomes {:?} and {:?} (exactly one of the two asks panics with the cycle; the other completes with an error or a reply)", ra.0, rb.0));
            break;
        }
    }
    rep.s("cyclerace", format!("rounds={rounds}"));
}
#[cfg(not(feature = "deadlock"))]
fn cyclerace(rep: &mut Report) {
    rep.s("cyclerace", "not applicable: this build has no deadlock detection".into());
}

// ------------------------------------------------------------------------------------------------ kill, then everything else
/// kill() first, then whatever else would end the actor gracefully - the last reference dropped, or stop() and then the
/// drop - on a multi-thread runtime, against an actor whose loop is being polled all the time (its on_run yields and
/// returns Ok(true)): the kill had returned before the actor began stopping, so it ends with on_stop(killed=true) and
/// reports killed=true, wherever in its poll the loop was when the signal arrived
struct Kd {
    stops: Vec<bool>,
}
impl Actor for Kd {
    type Args = ();
    type Error = String;
    async fn on_start(_: (), _: &ActorRef<Self>) -> Result<Self, String> {
        Ok(Kd { stops: vec![] })
    }
    async fn on_run(&mut self, _: &ActorWeak<Self>) -> Result<bool, String> {
        tokio::task::yield_now().await;
        Ok(true)
    }
    async fn on_stop(&mut self, _: &ActorWeak<Self>, k: bool) -> Result<(), String> {
        self.stops.push(k);
        Ok(())
    }
}
fn killdrop(secs: u64, rep: &mut Report) {
    let rt = tokio::runtime::Builder::new_multi_thread().worker_threads(4).enable_time().build().unwrap();
    let trials = if secs > 1 { 120_000u32 } else { 20_000 };
    let mut done = 0u32;
    for i in 0..trials {
        done += 1;
        let then_stop = i % 2 == 1;
        if i % 5000 == 0 {
            note(format!("killdrop: trial {i}"));
        }
        let (r, j) = rt.block_on(async { spawn::<Kd>(()) });
        std::thread::sleep(Duration::from_micros(30)); // the actor is in its loop
        let ok = r.kill().is_ok();
        if then_stop {
            let _ = rt.block_on(async { tokio::time::timeout(Duration::from_secs(5), r.stop()).await });
        }
        drop(r);
        let res = rt.block_on(async { tokio::time::timeout(Duration::from_secs(10), j).await });
        match res {
            Ok(Ok(out)) => {
                let stops = out.actor().map(|a| a.stops.clone());
                if !ok || !out.was_killed() || !out.is_completed() || stops != Some(vec![true]) {
                    rep.v("C06", format!("killdrop (trial {i}): kill() returned ok={ok}; then {}the last reference was dropped; the actor ended with killed={}, completed={}, on_stop arguments {stops:?} (kill() had returned before the actor began stopping: on_stop(killed=true), reported as killed)", if then_stop { "stop() was called and " } else { "" }, out.was_killed(), out.is_completed()));
                    break;
                }
            }
            other => {
                rep.v("C06 C07", format!("killdrop (trial {i}): after kill() the JoinHandle did not yield a result within 10 s: {}", if other.is_err() { "still pending" } else { "task failed" }));
                break;
            }
        }
    }
    rep.s("killdrop", format!("trials={done}"));
}

// ------------------------------------------------------------------------------------------------ metrics of a handler that is cut short
/// (builds with metrics only) a handler that was entered is counted however it is left: by returning, by panicking, or by
/// the actor's task being cancelled while the handler is suspended (JoinHandle::abort, the runtime going away); the
/// time it ran is in max_processing_time
#[cfg(feature = "metrics")]
mod mab {
    use super::*;
    pub struct Ma;
    impl Actor for Ma {
        type Args = ();
        type Error = String;
        async fn on_start(_: (), _: &ActorRef<Self>) -> Result<Self, String> {
            Ok(Ma)
        }
    }
    pub struct Work(pub u32);
    impl Message<Work> for Ma {
        type Reply = u32;
        async fn handle(&mut self, m: Work, _: &ActorRef<Self>) -> u32 {
            if m.0 == 99 {
                std::future::pending::<()>().await;
            }
            if m.0 == 66 {
                panic!("scripted panic in a handler");
            }
            m.0
        }
    }
}
#[cfg(feature = "metrics")]
fn metabort(rep: &mut Report) {
    use mab::*;
    let mut cases = 0u64;
    for how in ["abort", "panic", "runtime dropped"] {
        cases += 1;
        note(format!("metabort: three messages, the third handler is left by: {how}"));
        let rt = tokio::runtime::Builder::new_current_thread().enable_time().build().unwrap();
        let (r, count_before) = rt.block_on(async {
            let (r, jh) = spawn::<Ma>(());
            let _ = r.tell(Work(1)).await;
            let _ = r.tell(Work(2)).await;
            let _ = r.tell(Work(if how == "panic" { 66 } else { 99 })).await;
            tokio::time::sleep(Duration::from_millis(30)).await; // two handlers have returned, the third is suspended (or has panicked)
            let before = r.message_count();
            if how == "abort" {
                jh.abort();
                let _ = jh.await;
            } else if how == "panic" {
                let _ = jh.await;
            }
            (r, before)
        });
        drop(rt); // "runtime dropped": the actor's task is cancelled here
        let n = r.message_count();
        let snap = r.metrics();
        let max = r.max_processing_time();
        if n != 3 || snap.message_count != 3 || (how != "panic" && max < Duration::from_millis(20)) {
            rep.v("C20", format!("metabort ({how}): three handlers were entered; two returned and the third was left by {how} after about 30 ms; afterwards message_count() = {n} (snapshot: {}), max_processing_time() = {max:?}; while the third was suspended the count read {count_before} (every handler that was entered is counted once it is left, whatever way, and its time is in the maximum)", snap.message_count));
        }
    }
    rep.s("metabort", format!("cases={cases}"));
}
#[cfg(not(feature = "metrics"))]
fn metabort(rep: &mut Report) {
    rep.s("metabort", "not applicable: this build has no metrics".into());
}

// ------------------------------------------------------------------------------------------------ two failures at the same moment
/// two deliveries fail at the same time on two threads, under a subscriber that takes 8-40 ms to record an event:
/// each failure is one dead letter, neither is swallowed because the other is being recorded
fn dlrace(rep: &mut Report) {
    harness::log::install();
    let rt = tokio::runtime::Builder::new_multi_thread().worker_threads(2).enable_time().build().unwrap();
    let mut rounds = 0u64;
    for round in 0..6u32 {
        rounds += 1;
        note(format!("dlrace: round {round}"));
        let log = Arc::new(Mutex::new(vec![]));
        let (dead, jh) = rt.block_on(async { spawn_with_mailbox_capacity::<B>((log.clone(), 0), 4) });
        let _ = dead.kill();
        rt.block_on(async { let _ = tokio::time::timeout(Duration::from_secs(5), jh).await; });
        harness::log::SLOW_LOG_ALWAYS.store(true, SeqCst);
        harness::log::SLOW_LOG_MS.store(40, SeqCst);
        let before = harness::log::DEAD_LETTER_EVENTS.load(SeqCst);
        let bar = Arc::new(std::sync::Barrier::new(2));
        let mut ths = vec![];
        for t in 0..2u32 {
            let d = dead.clone();
            let b = bar.clone();
            ths.push(std::thread::spawn(move || {
                b.wait();
                if (round + t) % 2 == 0 { d.blocking_tell(W(90 + t), None).is_err() } else { d.blocking_ask(W(90 + t), None).is_err() }
            }));
        }
        let failed: Vec<bool> = ths.into_iter().map(|h| h.join().unwrap_or(false)).collect();
        let letters = harness::log::DEAD_LETTER_EVENTS.load(SeqCst) - before;
        harness::log::SLOW_LOG_MS.store(0, SeqCst);
        harness::log::SLOW_LOG_ALWAYS.store(false, SeqCst);
        if failed != vec![true, true] || letters != 2 {
            rep.v("C13", format!("dlrace (round {round}): two sends to an ended actor, made at the same moment from two threads, under a tracing subscriber that takes 8-40 ms per event: failed = {failed:?}, dead letters recorded = {letters} (each failed delivery records exactly one dead letter; two failures, two letters)"));
            break;
        }
    }
    rep.s("dlrace", format!("rounds={rounds}"));
}

// ------------------------------------------------------------------------------------------------ what happened earlier does not matter
/// every send is judged by the state of the mailbox when it is made, not by what earlier sends met: after a timed tell
/// that gave up on a full mailbox and a stop() that was abandoned while waiting for a slot, a plain tell into the
/// still-full mailbox waits (and is accepted when there is room), and - once the mailbox has drained - tells with an
/// empty or tiny budget report exactly what happened to their message
struct Sl {
    log: Arc<Mutex<Vec<u32>>>,
}
impl Actor for Sl {
    type Args = Arc<Mutex<Vec<u32>>>;
    type Error = String;
    async fn on_start(a: Self::Args, _: &ActorRef<Self>) -> Result<Self, String> {
        Ok(Sl { log: a })
    }
}
struct SlHold(tokio::sync::oneshot::Receiver<()>);
struct SlN(u32);
impl Message<SlHold> for Sl {
    type Reply = ();
    async fn handle(&mut self, m: SlHold, _: &ActorRef<Self>) {
        let _ = m.0.await;
    }
}
impl Message<SlN> for Sl {
    type Reply = u32;
    async fn handle(&mut self, m: SlN, _: &ActorRef<Self>) -> u32 {
        self.log.lock().unwrap().push(m.0);
        m.0
    }
}
fn stale(rep: &mut Report) {
    let rt = tokio::runtime::Builder::new_current_thread().enable_time().build().unwrap();
    let mut rounds = 0u64;
    rt.block_on(async {
        for round in 0..4u32 {
            rounds += 1;
            note(format!("stale: round {round}"));
            let log = Arc::new(Mutex::new(vec![]));
            let (r, jh) = spawn_with_mailbox_capacity::<Sl>(log.clone(), 1);
            let (gtx, grx) = tokio::sync::oneshot::channel();
            r.tell(SlHold(grx)).await.unwrap();
            tokio::task::yield_now().await; // the actor is parked inside the handler, its mailbox empty
            r.tell(SlN(1)).await.unwrap(); // fills the only slot
            // (i) a timed tell gives up on the full mailbox; (ii) a stop() is abandoned while it waits for a slot
            let t = r.tell_with_timeout(SlN(2), Duration::from_millis(20)).await;
            let s_abandoned = tokio::time::timeout(Duration::from_millis(20), r.stop()).await.is_err();
            // (iii) the mailbox is still full: a plain tell waits for room
            let r2 = r.clone();
            let h = tokio::spawn(async move { r2.tell(SlN(3)).await });
            tokio::time::sleep(Duration::from_millis(20)).await;
            let waited = !h.is_finished();
            let _ = gtx.send(());
            let res3 = tokio::time::timeout(Duration::from_secs(3), h).await;
            let drained = tokio::time::timeout(Duration::from_secs(3), r.ask(SlN(4))).await;
            // (iv) the mailbox is empty: budgets of nothing and of next to nothing
            let z = {
                let c = r.clone();
                c.tell_with_timeout(SlN(5), Duration::ZERO).await
            };
            let z2 = r.tell_with_timeout(SlN(6), Duration::from_micros(300)).await;
            let barrier = tokio::time::timeout(Duration::from_secs(3), r.ask(SlN(7))).await;
            let l = log.lock().unwrap().clone();
            let what = format!("stale (round {round}, capacity 1)");
            if !matches!(t, Err(rsactor::Error::Timeout { .. })) || l.contains(&2) {
                rep.v("C10 C01 C09", format!("{what}: tell_with_timeout(20 ms) into a mailbox that stayed full returned {t:?} (Err(Timeout), the message never handled); handled {l:?}"));
            }
            if !s_abandoned {
                rep.v("C09 C02", format!("{what}: stop() on a full mailbox returned within 20 ms although no slot was free (it waits for a slot like any send)"));
            }
            if !waited || !matches!(res3, Ok(Ok(Ok(())))) || !l.contains(&3) {
                rep.v("C09 C07", format!("{what}: after a timed tell had given up and a stop() had been abandoned while waiting for a slot (no stop marker was ever queued), a plain tell into the still-full mailbox of the running actor: still waiting after 20 ms = {waited}, result {res3:?} (it waits, and is accepted once there is room), handled {l:?}"));
            }
            if !matches!(drained, Ok(Ok(4))) || !matches!(barrier, Ok(Ok(7))) {
                rep.v("C07 C03", format!("{what}: the actor - never stopped, never killed - no longer answers: asks returned {drained:?} and {barrier:?}"));
            }
            for (name, res, id) in [("tell_with_timeout(0 ns) through a short-lived clone", &z, 5u32), ("tell_with_timeout(300 us)", &z2, 6u32)] {
                let handled = l.contains(&id);
                if res.is_ok() != handled {
                    rep.v("C01 C10 C13", format!("{what}: with the mailbox empty again, {name} returned {res:?} and its message was handled: {handled} (an error means the message never entered the mailbox; Ok means it is handled)"));
                }
            }
            let ended = tokio::time::timeout(Duration::from_secs(3), async {
                let _ = r.stop().await;
                jh.await
            })
            .await;
            if !matches!(&ended, Ok(Ok(out)) if out.is_completed() && !out.was_killed()) {
                rep.v("C07 C05", format!("{what}: stop() at the end must end the actor as completed, not killed"));
            }
        }
        rep.s("stale", format!("rounds={rounds}"));
    });
}

// ------------------------------------------------------------------------------------------------ a cycle closed while a subscriber is slow
/// (builds with deadlock detection only) three actors, each on its own OS thread, and a tracing subscriber that now and then
/// takes tens of milliseconds to take an event of the crate (blocking I/O): Front asks Slow with a deadline that races
/// Slow's reply, then asks Back (no deadline), and Back - after a little work - asks Front. That last ask closes the cycle
/// Back -> Front -> Back whatever became of the first ask, so it is reported (Back's task ends with the deadlock panic)
#[cfg(feature = "deadlock")]
mod slw {
    use super::*;
    pub struct Node;
    impl Actor for Node {
        type Args = ();
        type Error = String;
        async fn on_start(_: (), _: &ActorRef<Self>) -> Result<Self, String> {
            Ok(Node)
        }
    }
    pub struct PingAfter(pub u64);
    pub struct Start {
        pub slow: ActorRef<Node>,
        pub back: ActorRef<Node>,
        pub delay: u64,
        pub deadline: u64,
        pub back_work: u64,
    }
    pub struct Poke(pub ActorRef<Node>, pub u64);
    pub struct CallBack;
    impl Message<PingAfter> for Node {
        type Reply = u32;
        async fn handle(&mut self, m: PingAfter, _: &ActorRef<Self>) -> u32 {
            tokio::time::sleep(Duration::from_millis(m.0)).await;
            1
        }
    }
    impl Message<CallBack> for Node {
        type Reply = u32;
        async fn handle(&mut self, _: CallBack, _: &ActorRef<Self>) -> u32 {
            2
        }
    }
    impl Message<Start> for Node {
        type Reply = String;
        async fn handle(&mut self, m: Start, me: &ActorRef<Self>) -> String {
            let first = match m.slow.ask_with_timeout(PingAfter(m.delay), Duration::from_millis(m.deadline)).await {
                Ok(_) => "reply",
                Err(rsactor::Error::Timeout { .. }) => "timeout",
                Err(_) => "error",
            };
            let second = match m.back.ask(Poke(me.clone(), m.back_work)).await {
                Ok(s) => format!("reply({s})"),
                Err(e) => format!("error({e})"),
            };
            format!("first ask: {first}; second ask: {second}")
        }
    }
    impl Message<Poke> for Node {
        type Reply = String;
        async fn handle(&mut self, m: Poke, _: &ActorRef<Self>) -> String {
            tokio::time::sleep(Duration::from_millis(m.1)).await;
            match m.0.ask_with_timeout(CallBack, Duration::from_millis(1500)).await {
                Ok(_) => "ok".into(),
                Err(rsactor::Error::Timeout { .. }) => "timeout after 1500 ms".into(),
                Err(_) => "error".into(),
            }
        }
    }
    /// one actor on its own thread and runtime: hands out its reference, ends when told to, says whether its task panicked
    pub fn host(out: std::sync::mpsc::Sender<ActorRef<Node>>, end: std::sync::mpsc::Receiver<()>) -> std::thread::JoinHandle<bool> {
        std::thread::spawn(move || {
            let rt = tokio::runtime::Builder::new_current_thread().enable_time().build().unwrap();
            rt.block_on(async move {
                let (r, mut jh) = rsactor::spawn::<Node>(());
                let _ = out.send(r.clone());
                loop {
                    if let Ok(res) = tokio::time::timeout(Duration::from_millis(5), &mut jh).await {
                        return matches!(res, Err(ref e) if e.is_panic());
                    }
                    if end.try_recv().is_ok() {
                        let _ = r.kill();
                    }
                }
            })
        })
    }
}
#[cfg(feature = "deadlock")]
fn slowlog(secs: u64, rep: &mut Report) {
    use slw::*;
    let rounds_max = if secs > 1 { 240 } else { 60 };
    let mut rounds = 0u64;
    let mut firsts = std::collections::BTreeMap::<String, u64>::new();
    harness::log::install();
    harness::log::SLOW_LOG_SEED.store(MIX_SEED.load(SeqCst), SeqCst);
    harness::log::SLOW_LOG_MS.store(50, SeqCst);
    for round in 0..rounds_max {
        rounds += 1;
        let deadline = 40u64;
        let delay = deadline - 1 - (round as u64 % 6);
        let back_work = [0u64, 25, 60][(round as usize / 6) % 3];
        note(format!("slowlog: round {round}: Slow replies after {delay} ms, the deadline is {deadline} ms, Back works {back_work} ms before asking Front"));
        let mut refs = vec![];
        let mut ends = vec![];
        let mut hosts = vec![];
        for _ in 0..3 {
            let (tx, rx) = std::sync::mpsc::channel();
            let (etx, erx) = std::sync::mpsc::channel();
            hosts.push(host(tx, erx));
            refs.push(rx.recv().unwrap());
            ends.push(etx);
        }
        let (front, slow, back) = (refs[0].clone(), refs[1].clone(), refs[2].clone());
        drop(refs);
        let rt = tokio::runtime::Builder::new_current_thread().enable_time().build().unwrap();
        let out = rt.block_on(async {
            tokio::time::timeout(Duration::from_secs(20), front.ask(Start { slow: slow.clone(), back: back.clone(), delay, deadline, back_work })).await
        });
        for e in &ends {
            let _ = e.send(());
        }
        drop((front, slow, back));
        let panicked: Vec<bool> = hosts.into_iter().map(|h| h.join().unwrap_or(false)).collect();
        let outs = match &out {
            Ok(Ok(s)) => s.clone(),
            Ok(Err(e)) => format!("Front's handler did not answer: {e}"),
            Err(_) => "Front's handler did not finish within 20 s".to_string(),
        };
        *firsts.entry(outs.split(';').next().unwrap_or("").to_string()).or_insert(0) += 1;
        if !panicked[2] {
            rep.v("C14", format!("slowlog (round {round}): three actors on three threads, a tracing subscriber that takes up to 50 ms for some events; Front asked Slow (reply after {delay} ms, deadline {deadline} ms), then asked Back without a deadline, and Back - after {back_work} ms of work - asked Front while Front was still waiting for Back: that ask closes the cycle Back -> Front -> Back and must be reported with the deadlock panic, but Back's task did not panic; Front's handler: {outs}; tasks that panicked (Front, Slow, Back): {panicked:?}"));
            break;
        }
        if panicked[0] || panicked[1] {
            rep.v("C14 C15", format!("slowlog (round {round}): only Back's ask closes a cycle, but the tasks that ended with a panic are (Front, Slow, Back) = {panicked:?}; Front's handler: {outs}"));
            break;
        }
    }
    harness::log::SLOW_LOG_MS.store(0, SeqCst);
    rep.s("slowlog", format!("rounds={rounds} subscriber_stalls={} first_ask_outcomes={firsts:?}", harness::log::SLOW_LOG_STALLS.load(SeqCst)));
}
#[cfg(not(feature = "deadlock"))]
fn slowlog(_secs: u64, rep: &mut Report) {
    rep.s("slowlog", "not applicable: this build has no deadlock detection".into());
}

// ------------------------------------------------------------------------------------------------ late completion (real time)
struct G {
    log: Arc<Mutex<Vec<u32>>>,
}
impl Actor for G {
    type Args = Arc<Mutex<Vec<u32>>>;
    type Error = String;
    async fn on_start(a: Self::Args, _: &ActorRef<Self>) -> Result<Self, String> {
        Ok(G { log: a })
    }
}
struct Gate(tokio::sync::oneshot::Receiver<()>);
struct Item(u32);
impl Message<Gate> for G {
    type Reply = ();
    async fn handle(&mut self, m: Gate, _: &ActorRef<Self>) {
        let _ = m.0.await;
    }
}
impl Message<Item> for G {
    type Reply = u32;
    async fn handle(&mut self, m: Item, _: &ActorRef<Self>) -> u32 {
        self.log.lock().unwrap().push(m.0);
        m.0
    }
}
/// keeps the runtime thread busy (no await): tasks whose outcome is ready are not polled meanwhile
struct Busy(u64);
impl Message<Busy> for G {
    type Reply = ();
    async fn handle(&mut self, m: Busy, _: &ActorRef<Self>) {
        std::thread::sleep(Duration::from_millis(m.0));
    }
}

fn late(rep: &mut Report) {
    let rt = tokio::runtime::Builder::new_current_thread().enable_time().build().unwrap();
    rt.block_on(async {
        let mut cases = 0;
        for use_ask in [false, true] {
            for stall_ms in [0u64, 90] {
                cases += 1;
                let log = Arc::new(Mutex::new(vec![]));
                let (r, _jh) = spawn_with_mailbox_capacity::<G>(log.clone(), 1);
                let (gt, gr) = tokio::sync::oneshot::channel();
                r.tell(Gate(gr)).await.unwrap();
                tokio::task::yield_now().await; // the actor is now inside the gate handler
                r.tell(Item(1)).await.unwrap(); // fills the mailbox
                let r2 = r.clone();
                let t0 = Instant::now();
                let h = tokio::spawn(async move {
                    if use_ask {
                        r2.ask_with_timeout(Item(2), Duration::from_millis(30)).await.map(|_| ())
                    } else {
                        r2.tell_with_timeout(Item(2), Duration::from_millis(30)).await
                    }
                });
                tokio::task::yield_now().await; // the sender is parked on the full mailbox
                if stall_ms > 0 {
                    // the runtime thread is busy past the deadline: the timer cannot fire
                    std::thread::sleep(Duration::from_millis(stall_ms));
                    let _ = gt.send(());
                } else {
                    tokio::time::sleep(Duration::from_millis(80)).await;
                    let _ = gt.send(());
                }
                let res = match tokio::time::timeout(Duration::from_secs(10), h).await {
                    Ok(Ok(x)) => x,
                    _ => {
                        rep.v("C10", "a *_with_timeout(30 ms) call did not return within 10 s".into());
                        continue;
                    }
                };
                let took = t0.elapsed();
                tokio::time::sleep(Duration::from_millis(50)).await;
                let handled = log.lock().unwrap().contains(&2);
                match &res {
                    Ok(()) => {
                        if !handled {
                            rep.v("C01", format!("late(use_ask={use_ask}, stall={stall_ms}): returned Ok but the message was never handled"));
                        }
                    }
                    Err(rsactor::Error::Timeout { .. }) => {
                        if took < Duration::from_millis(30) {
                            rep.v("C10", format!("late: Err(Timeout) after {took:?}, before the 30 ms deadline"));
                        }
                        if !use_ask && handled {
                            rep.v("C01 C10", format!("late(stall={stall_ms}): tell_with_timeout returned Err(Timeout) but the message was handled"));
                        }
                    }
                    Err(e) => rep.v("C10", format!("late: unexpected error {e:?} (only Timeout may be reported here)")),
                }
                if stall_ms == 0 && res.is_ok() {
                    rep.v("C10", format!("late(use_ask={use_ask}): the mailbox stayed full for 80 ms, yet the 30 ms call returned Ok after {took:?}"));
                }
                let _ = r.kill();
            }
        }
        // the operation completes well before the deadline, but the caller is only polled after it: Ok, not Timeout
        for use_ask in [false, true] {
            cases += 1;
            let log = Arc::new(Mutex::new(vec![]));
            let (r, _jh) = spawn_with_mailbox_capacity::<G>(log.clone(), 4);
            tokio::task::yield_now().await;
            let r2 = r.clone();
            let h = tokio::spawn(async move {
                if use_ask {
                    r2.ask_with_timeout(Item(7), Duration::from_millis(60)).await.map(|_| ())
                } else {
                    r2.tell_with_timeout(Item(7), Duration::from_millis(60)).await
                }
            });
            // queued right behind it: a handler that occupies the only runtime thread for 200 ms
            let r3 = r.clone();
            let b = tokio::spawn(async move { r3.tell(Busy(200)).await });
            let res = match tokio::time::timeout(Duration::from_secs(10), h).await {
                Ok(Ok(x)) => x,
                _ => {
                    rep.v("C10", "a *_with_timeout(60 ms) call did not return within 10 s".into());
                    continue;
                }
            };
            let _ = b.await;
            let handled = log.lock().unwrap().contains(&7);
            if let Err(e) = &res {
                rep.v("C10", format!("late(completed early, polled late; use_ask={use_ask}): the operation completed microseconds after the call (handled={handled}) and the runtime thread was then busy past the 60 ms deadline; the call reported {e:?} instead of Ok"));
            }
            let _ = r.kill();
        }
        // the same with the call made from the runtime's main task: when the actor's task finally yields, the run
        // queue is empty, the time driver turns (the deadline timer fires) and only then is the caller polled - with
        // both the reply and the expired timer in front of it
        {
            cases += 1;
            let log = Arc::new(Mutex::new(vec![]));
            let (r, _jh) = spawn_with_mailbox_capacity::<G>(log.clone(), 4);
            tokio::task::yield_now().await;
            let r3 = r.clone();
            let b = tokio::spawn(async move { r3.tell(Busy(200)).await });
            let t0 = Instant::now();
            let res = r.ask_with_timeout(Item(9), Duration::from_millis(60)).await;
            let el = t0.elapsed();
            let _ = b.await;
            let order = log.lock().unwrap().clone();
            if let Err(e) = &res {
                rep.v("C10", format!("late(reply sent early, asker polled late, call made from the main task): ask_with_timeout(60 ms) was answered at once (handled: {order:?}), the runtime thread was then busy for 200 ms; the call returned {e:?} after {el:?} instead of the reply that was already there"));
            }
            let _ = r.kill();
        }
        // the same for a send: the slot is freed (and promised to the waiting sender) well before the deadline, the runtime
        // thread is then busy past it, the sender - the runtime's main task - is polled only after the timer has fired
        {
            cases += 1;
            let log = Arc::new(Mutex::new(vec![]));
            let (r, _jh) = spawn_with_mailbox_capacity::<G>(log.clone(), 1);
            let (gt, gr) = tokio::sync::oneshot::channel();
            r.tell(Gate(gr)).await.unwrap();
            tokio::task::yield_now().await; // the actor is inside the gate handler
            r.tell(Busy(200)).await.unwrap(); // fills the only slot; its handler will keep the thread busy for 200 ms
            let opener = tokio::spawn(async move {
                let _ = gt.send(());
            });
            let t0 = Instant::now();
            let res = r.tell_with_timeout(Item(11), Duration::from_millis(60)).await;
            let el = t0.elapsed();
            let _ = opener.await;
            tokio::time::sleep(Duration::from_millis(30)).await;
            let handled = log.lock().unwrap().contains(&11);
            match &res {
                Ok(()) if handled => {}
                other => rep.v("C09 C10", format!("late(slot freed early, sender polled late): a tell_with_timeout(60 ms) was waiting on a full capacity-1 mailbox; the actor took the queued message at once (freeing the slot for the waiting sender) and then kept the runtime thread busy for 200 ms; the call returned {other:?} after {el:?}, message handled = {handled} (the slot was there before the deadline: Ok, and the message is delivered)")),
            }
            let _ = r.kill();
        }
        rep.s("late", format!("cases={cases}"));
    });
}

/// an actor whose handler uses the blocking API on itself
struct Sb {
    last: u32,
}
impl Actor for Sb {
    type Args = ();
    type Error = String;
    async fn on_start(_: (), _: &ActorRef<Self>) -> Result<Self, String> {
        Ok(Sb { last: 9 })
    }
}
struct SelfBlock(bool);
impl Message<SelfBlock> for Sb {
    type Reply = u32;
    async fn handle(&mut self, m: SelfBlock, me: &ActorRef<Self>) -> u32 {
        if m.0 {
            // make sure the only slot is taken (by this message, or by one a client has queued meanwhile)
            let _ = me.tell_with_timeout(SelfBlock(false), Duration::from_millis(20)).await;
            let me2 = me.clone();
            // the blocking call needs a thread of its own to block on; it is still issued in this handler's context
            let res = tokio::task::block_in_place(|| me2.blocking_tell(SelfBlock(false), Some(Duration::from_millis(60))));
            self.last = match res {
                Ok(()) => 0,
                Err(rsactor::Error::Timeout { .. }) => 2,
                Err(_) => 1,
            };
        }
        self.last
    }
}

// ------------------------------------------------------------------------------------------------ blocking API from threads
struct B {
    log: Arc<Mutex<Vec<u32>>>,
    slow_ms: u64,
}
impl Actor for B {
    type Args = (Arc<Mutex<Vec<u32>>>, u64);
    type Error = String;
    async fn on_start(a: Self::Args, _: &ActorRef<Self>) -> Result<Self, String> {
        Ok(B { log: a.0, slow_ms: a.1 })
    }
}
struct W(u32);
/// values handed to `on_tell_result` (the hook has no access to the actor): every tell-family operation, blocking
/// ones included, hands its handler's return value to it exactly once; ask-family operations never do
static TELL_RESULTS: Mutex<Vec<u32>> = Mutex::new(Vec::new());
impl Message<W> for B {
    type Reply = u32;
    async fn handle(&mut self, m: W, _: &ActorRef<Self>) -> u32 {
        if self.slow_ms > 0 {
            tokio::time::sleep(Duration::from_millis(self.slow_ms)).await;
        }
        self.log.lock().unwrap().push(m.0);
        m.0
    }
    fn on_tell_result(result: &u32, _: &ActorRef<Self>) {
        TELL_RESULTS.lock().unwrap().push(*result);
    }
}

impl Message<u32> for B {
    type Reply = u32;
    async fn handle(&mut self, m: u32, _: &ActorRef<Self>) -> u32 {
        m
    }
}
impl Message<()> for B {
    type Reply = ();
    async fn handle(&mut self, _: (), _: &ActorRef<Self>) {}
}
impl Message<&'static str> for B {
    type Reply = usize;
    async fn handle(&mut self, m: &'static str, _: &ActorRef<Self>) -> usize {
        m.len()
    }
}
struct U(u32);
impl Message<U> for B {
    type Reply = ();
    async fn handle(&mut self, m: U, _: &ActorRef<Self>) {
        self.log.lock().unwrap().push(m.0);
    }
}
/// handled, then the actor kills itself
struct Q(u32);
impl Message<Q> for B {
    type Reply = ();
    async fn handle(&mut self, m: Q, r: &ActorRef<Self>) {
        self.log.lock().unwrap().push(m.0);
        let _ = r.kill();
    }
}

#[allow(deprecated)]
fn blocking(rep: &mut Report) {
    let rt = tokio::runtime::Builder::new_multi_thread().worker_threads(4).enable_time().build().unwrap();
    let mut calls = 0u64;
    // (a) live actor, N plain threads, mixed blocking ops: delivery, per-thread order, reply integrity
    for nthreads in [1u32, 4, 16] {
        note(format!("blocking (a): {nthreads} plain thread(s) issuing the six blocking forms against a live actor"));
        TELL_RESULTS.lock().unwrap().clear();
        let log = Arc::new(Mutex::new(vec![]));
        let (r, jh) = rt.block_on(async { spawn_with_mailbox_capacity::<B>((log.clone(), 0), 4) });
        let mut ths = vec![];
        for t in 0..nthreads {
            let r2 = r.clone();
            ths.push(std::thread::spawn(move || {
                let mut out = vec![];
                for k in 0..12u32 {
                    let id = t * 1000 + k;
                    let res: Result<Option<u32>, String> = match k % 6 {
                        0 => r2.blocking_tell(W(id), None).map(|_| None).map_err(|e| format!("{e:?}")),
                        1 => r2.blocking_ask(W(id), None).map(Some).map_err(|e| format!("{e:?}")),
                        2 => r2.blocking_tell(W(id), Some(Duration::from_secs(5))).map(|_| None).map_err(|e| format!("{e:?}")),
                        3 => r2.blocking_ask(W(id), Some(Duration::from_secs(5))).map(Some).map_err(|e| format!("{e:?}")),
                        4 => r2.tell_blocking(W(id), Some(Duration::from_nanos(1))).map(|_| None).map_err(|e| format!("{e:?}")),
                        _ => r2.ask_blocking(W(id), Some(Duration::from_nanos(1))).map(Some).map_err(|e| format!("{e:?}")),
                    };
                    out.push((id, res));
                }
                out
            }));
        }
        let mut all = vec![];
        for th in ths {
            all.extend(th.join().unwrap());
        }
        calls += all.len() as u64;
        rt.block_on(async {
            let _ = r.stop().await;
            let _ = tokio::time::timeout(Duration::from_secs(10), jh).await;
        });
        let handled = log.lock().unwrap().clone();
        let told = TELL_RESULTS.lock().unwrap().clone();
        for (id, res) in &all {
            let is_tell = (id % 1000) % 2 == 0;
            let n = told.iter().filter(|x| *x == id).count();
            if res.is_ok() && n != usize::from(is_tell) {
                rep.v("C17 C19", format!("blocking {} {id} (form {} of: blocking_tell None, blocking_ask None, blocking_tell Some, blocking_ask Some, tell_blocking, ask_blocking) was handled and returned Ok; on_tell_result was invoked {n} time(s) with its value (after a tell exactly once, after an ask never)", if is_tell { "tell" } else { "ask" }, (id % 1000) % 6));
            }
        }
        for (id, res) in &all {
            match res {
                Ok(Some(v)) if v != id => rep.v("C17 C03", format!("blocking_ask {id} returned the reply {v}")),
                Ok(_) => {
                    if handled.iter().filter(|x| *x == id).count() != 1 {
                        rep.v("C17 C01", format!("blocking op {id} returned Ok but was handled {} times", handled.iter().filter(|x| *x == id).count()));
                    }
                }
                Err(e) => rep.v("C17", format!("blocking op {id} on a live actor failed: {e} (the deprecated aliases must ignore their timeout)")),
            }
        }
        for t in 0..nthreads {
            let seq: Vec<u32> = handled.iter().copied().filter(|i| i / 1000 == t).collect();
            if seq.windows(2).any(|w| w[0] >= w[1]) {
                rep.v("C17 C02", format!("thread {t}'s blocking calls were handled out of program order: {seq:?}"));
            }
        }
    }
    // (a2) the same from spawn_blocking threads (which have a runtime handle): one sender's blocking_tells to a
    //      small, slow mailbox are handled in the order in which they were issued
    {
        note("blocking (a2): one spawn_blocking sender, 12 blocking_tell(.., None) in sequence, capacity 1, 15 ms handler".into());
        let log = Arc::new(Mutex::new(vec![]));
        let (r, jh) = rt.block_on(async { spawn_with_mailbox_capacity::<B>((log.clone(), 15), 1) });
        let r2 = r.clone();
        let (sent, send_time) = rt.block_on(async move {
            tokio::task::spawn_blocking(move || {
                let t0 = Instant::now();
                let mut ok = 0;
                for k in 0..12u32 {
                    if r2.blocking_tell(W(300 + k), None).is_ok() {
                        ok += 1;
                    }
                }
                (ok, t0.elapsed())
            })
            .await
            .unwrap_or((0, Duration::ZERO))
        });
        // back-pressure: with one slot and a 15 ms handler the twelfth send cannot have been accepted before ten
        // handlers have finished
        if sent == 12 && send_time < Duration::from_millis(140) {
            rep.v("C09 C02 C17", format!("a spawn_blocking sender's 12 blocking_tell(.., None) calls into a capacity-1 mailbox with a 15 ms handler all returned Ok within {send_time:?}: a send into a full mailbox waits for a slot (the twelfth cannot be accepted before ten handlers have finished, >= 150 ms)"));
        }
        std::thread::sleep(Duration::from_millis(400));
        rt.block_on(async {
            let _ = r.stop().await;
            let _ = tokio::time::timeout(Duration::from_secs(10), jh).await;
        });
        calls += 12;
        let seq: Vec<u32> = log.lock().unwrap().iter().copied().filter(|x| (300..320).contains(x)).collect();
        if sent != 12 {
            rep.v("C17 C09", format!("a spawn_blocking sender issued 12 blocking_tell(.., None) to a live actor with a capacity-1 mailbox: only {sent} returned Ok (a blocking send into a full mailbox waits for a slot)"));
        }
        if seq.windows(2).any(|w| w[0] >= w[1]) || seq.len() != sent {
            rep.v("C17 C02 C01", format!("a spawn_blocking sender issued blocking_tell 300..311 in sequence ({sent} returned Ok); handled: {seq:?} (must be the same messages in the same order)"));
        }
    }
    // (b) deadlines: slow actor / full mailbox / stopped actor
    {
        let log = Arc::new(Mutex::new(vec![]));
        let (r, jh) = rt.block_on(async { spawn_with_mailbox_capacity::<B>((log.clone(), 400), 1) });
        // occupy the handler and fill the mailbox
        r.blocking_tell(W(1), None).unwrap();
        std::thread::sleep(Duration::from_millis(30));
        r.blocking_tell(W(2), None).unwrap();
        for (name, d_ms) in [("blocking_tell", 60u64), ("blocking_ask", 60), ("blocking_tell", 0), ("blocking_ask", 0)] {
            let t0 = Instant::now();
            let res = if name == "blocking_tell" {
                r.blocking_tell(W(90), Some(Duration::from_millis(d_ms))).map(|_| 0)
            } else {
                r.blocking_ask(W(91), Some(Duration::from_millis(d_ms)))
            };
            let took = t0.elapsed();
            calls += 1;
            match res {
                Err(rsactor::Error::Timeout { .. }) => {
                    if took < Duration::from_millis(d_ms) {
                        rep.v("C17 C10", format!("{name}({d_ms} ms) on a full mailbox returned Timeout after {took:?}: early"));
                    }
                    if took > Duration::from_millis(d_ms + 300) {
                        rep.v("C17 C10", format!("{name}({d_ms} ms) on a full mailbox returned after {took:?}: later than deadline + 300 ms slack"));
                    }
                }
                other => rep.v("C17 C10", format!("{name}({d_ms} ms) on a full mailbox: expected Err(Timeout), got {other:?} after {took:?}")),
            }
        }
        rt.block_on(async {
            let _ = r.kill();
            let _ = tokio::time::timeout(Duration::from_secs(10), jh).await;
        });
        // stopped actor: every blocking variant fails with Send at once
        for k in 0..4 {
            let t0 = Instant::now();
            let res = match k {
                0 => r.blocking_tell(W(5), None).map(|_| 0),
                1 => r.blocking_ask(W(5), None),
                2 => r.blocking_tell(W(5), Some(Duration::from_secs(2))).map(|_| 0),
                _ => r.blocking_ask(W(5), Some(Duration::from_secs(2))),
            };
            calls += 1;
            match res {
                Err(rsactor::Error::Send { .. }) => {
                    if t0.elapsed() > Duration::from_millis(500) {
                        rep.v("C17 C10", format!("blocking variant {k} on a stopped actor took {:?} to fail (must not wait for the deadline)", t0.elapsed()));
                    }
                }
                other => rep.v("C17", format!("blocking variant {k} on a stopped actor: expected Err(Send), got {other:?}")),
            }
        }
        if log.lock().unwrap().contains(&90) {
            rep.v("C17 C01", "a blocking_tell that timed out was handled".into());
        }
    }
    // (b2) one deadline for the whole call: the mailbox frees a slot after part of the budget has been
    //      spent, and the reply (or, for tell, nothing) is then still 1.5 s away
    for name in ["blocking_ask", "blocking_tell"] {
        note(format!("blocking (b2): {name}(450 ms) with a slot freeing at ~280 ms"));
        let log = Arc::new(Mutex::new(vec![]));
        let (r, jh) = rt.block_on(async { spawn_with_mailbox_capacity::<B>((log.clone(), 300), 1) });
        r.blocking_tell(W(1), None).unwrap(); // in the handler for 300 ms
        std::thread::sleep(Duration::from_millis(20));
        r.blocking_tell(W(2), None).unwrap(); // fills the only slot; will be in the handler from 300 to 600 ms
        let d_ms = 450u64;
        let t0 = Instant::now();
        let res = if name == "blocking_ask" {
            r.blocking_ask(W(3), Some(Duration::from_millis(d_ms))).map(|_| ())
        } else {
            r.blocking_tell(W(3), Some(Duration::from_millis(d_ms)))
        };
        let took = t0.elapsed();
        calls += 1;
        match (name, &res) {
            // the slot frees at ~280 ms: the tell is accepted within its budget
            ("blocking_tell", Ok(())) => {
                if took > Duration::from_millis(d_ms + 200) {
                    rep.v("C17 C10", format!("blocking_tell({d_ms} ms) returned Ok after {took:?}: later than the deadline"));
                }
            }
            // the ask is accepted at ~280 ms but its reply cannot come before ~900 ms: Timeout at 450 ms
            ("blocking_ask", Err(rsactor::Error::Timeout { .. })) => {
                if took < Duration::from_millis(d_ms) || took > Duration::from_millis(d_ms + 200) {
                    rep.v("C17 C10", format!("blocking_ask({d_ms} ms) whose send waited ~280 ms for a slot returned Timeout after {took:?}: the deadline is {d_ms} ms from the call (one deadline for send and reply together)"));
                }
            }
            (_, other) => rep.v("C17 C10", format!("{name}({d_ms} ms) with a slot freeing at ~280 ms and a reply due at ~900 ms: got {other:?} after {took:?}")),
        }
        rt.block_on(async {
            let _ = r.kill();
            let _ = tokio::time::timeout(Duration::from_secs(10), jh).await;
        });
    }
    // (b3) a blocking call that timed out while the mailbox stayed full is over: when the actor later drains
    //      its mailbox the message must not turn up (the async variants drop the pending send at the deadline)
    for name in ["blocking_tell", "blocking_ask"] {
        note(format!("blocking (b3): {name}(100 ms) on a mailbox that stays full for 300 ms, then the actor drains"));
        let log = Arc::new(Mutex::new(vec![]));
        let (r, jh) = rt.block_on(async { spawn_with_mailbox_capacity::<B>((log.clone(), 300), 1) });
        r.blocking_tell(W(1), None).unwrap();
        std::thread::sleep(Duration::from_millis(20));
        r.blocking_tell(W(2), None).unwrap(); // the mailbox is full until W(1) leaves the handler at ~300 ms
        let res = if name == "blocking_tell" {
            r.blocking_tell(W(95), Some(Duration::from_millis(100))).map(|_| 0)
        } else {
            r.blocking_ask(W(95), Some(Duration::from_millis(100)))
        };
        calls += 1;
        let timed_out = matches!(res, Err(rsactor::Error::Timeout { .. }));
        if !timed_out {
            rep.v("C17 C10", format!("{name}(100 ms) on a mailbox full for 300 ms: expected Err(Timeout), got {res:?}"));
        }
        // let the actor drain: W(1) until ~300 ms, W(2) until ~600 ms, anything else after that
        std::thread::sleep(Duration::from_millis(1100));
        let handled = log.lock().unwrap().clone();
        if timed_out && handled.contains(&95) {
            rep.v("C17 C01", format!("{name}(W(95), 100 ms) returned Err(Timeout) while the mailbox was full, yet W(95) was handled later (handled: {handled:?}): a rejected message must never be handled"));
        }
        rt.block_on(async {
            let _ = r.kill();
            let _ = tokio::time::timeout(Duration::from_secs(10), jh).await;
        });
    }
    // (b4) a reply belongs to its request, also after a timeout on the same calling thread: a timed-out
    //      blocking_ask whose reply arrives late must not be handed to the next blocking_ask
    {
        note("blocking (b4): blocking_ask(100 ms) times out, its reply comes late, the next blocking_ask on the same thread".into());
        let log = Arc::new(Mutex::new(vec![]));
        let (r, jh) = rt.block_on(async { spawn_with_mailbox_capacity::<B>((log.clone(), 300), 4) });
        let first = r.blocking_ask(W(61), Some(Duration::from_millis(100)));
        if !matches!(first, Err(rsactor::Error::Timeout { .. })) {
            rep.v("C17 C10", format!("blocking_ask(100 ms) against a 300 ms handler: expected Err(Timeout), got {first:?}"));
        }
        std::thread::sleep(Duration::from_millis(350)); // the late reply to W(61) is produced now
        for id in [62u32, 63] {
            let res = r.blocking_ask(W(id), Some(Duration::from_secs(5)));
            calls += 1;
            match res {
                Ok(v) if v == id => {}
                other => rep.v("C17 C03", format!("blocking_ask(W({id}), 5 s) after a timed-out blocking_ask(W(61)) on the same thread returned {other:?}: a reply must belong to its own request")),
            }
        }
        rt.block_on(async {
            let _ = r.kill();
            let _ = tokio::time::timeout(Duration::from_secs(10), jh).await;
        });
    }
    // (b5) tiny timeouts: shorter than a thread start - the outcome is still Ok or Timeout, never a Send error
    //      on a live actor, and never a panic
    {
        note("blocking (b5): zero and sub-microsecond timeouts on a live actor".into());
        let log = Arc::new(Mutex::new(vec![]));
        let (r, jh) = rt.block_on(async { spawn_with_mailbox_capacity::<B>((log.clone(), 0), 8) });
        for (k, d) in [Duration::ZERO, Duration::from_nanos(1), Duration::from_micros(1)].into_iter().enumerate() {
            let t = r.blocking_tell(W(70 + k as u32), Some(d));
            let a = r.blocking_ask(W(80 + k as u32), Some(d));
            calls += 2;
            if !matches!(t, Ok(()) | Err(rsactor::Error::Timeout { .. })) {
                rep.v("C17 C10", format!("blocking_tell(.., Some({d:?})) on a live actor with a free mailbox returned {t:?}: only Ok or a (retryable) Timeout are possible"));
            }
            if !matches!(a, Ok(_) | Err(rsactor::Error::Timeout { .. })) {
                rep.v("C17 C10", format!("blocking_ask(.., Some({d:?})) on a live actor returned {a:?}: only Ok or a (retryable) Timeout are possible"));
            }
        }
        rt.block_on(async {
            let _ = r.kill();
            let _ = tokio::time::timeout(Duration::from_secs(10), jh).await;
        });
    }
    // (b6) a pending blocking_ask on an actor that ends gets an error whatever the reply type is (unit included)
    {
        note("blocking (b6): blocking_ask(.., None) with a unit reply, the actor is killed while the request is queued".into());
        let log = Arc::new(Mutex::new(vec![]));
        let (r, jh) = rt.block_on(async { spawn_with_mailbox_capacity::<B>((log.clone(), 400), 4) });
        r.blocking_tell(W(1), None).unwrap(); // in the handler for 400 ms
        std::thread::sleep(Duration::from_millis(20));
        let r2 = r.clone();
        let th = std::thread::spawn(move || r2.blocking_ask(U(97), None));
        std::thread::sleep(Duration::from_millis(100));
        let _ = r.kill();
        let res = th.join().unwrap();
        calls += 1;
        rt.block_on(async { let _ = tokio::time::timeout(Duration::from_secs(10), jh).await; });
        let handled = log.lock().unwrap().contains(&97);
        match (&res, handled) {
            (Err(rsactor::Error::Receive { .. }), false) => {}
            (Err(e), false) => rep.v("C17 C13", format!("blocking_ask(.., None) accepted by the mailbox and discarded when the actor was killed: returned {e:?}; ask reports this as Error::Receive (reply dropped), and the blocking variant follows the same error rules")),
            (Ok(()), true) => {}
            other => rep.v("C17 C03", format!("blocking_ask(U(97), None) (unit reply) on an actor killed with the request queued: returned {:?} and the handler {} (an Ok needs the handler to have run; a pending ask on an ended actor returns an error)", other.0, if handled { "ran" } else { "never ran" })),
        }
    }
    // (b7) a blocking_tell parked on a full mailbox when the actor dies: Err(Send) and exactly one dead letter, like tell
    {
        note("blocking (b7): blocking_tell(.., None) parked on a full mailbox, then the actor is killed".into());
        harness::log::install();
        let log = Arc::new(Mutex::new(vec![]));
        let (r, jh) = rt.block_on(async { spawn_with_mailbox_capacity::<B>((log.clone(), 400), 1) });
        r.blocking_tell(W(1), None).unwrap();
        std::thread::sleep(Duration::from_millis(20));
        r.blocking_tell(W(2), None).unwrap(); // fills the only slot
        let before = harness::log::DEAD_LETTER_EVENTS.load(SeqCst);
        let r2 = r.clone();
        let th = std::thread::spawn(move || r2.blocking_tell(W(98), None));
        std::thread::sleep(Duration::from_millis(100));
        let _ = r.kill();
        let res = th.join().unwrap();
        rt.block_on(async { let _ = tokio::time::timeout(Duration::from_secs(10), jh).await; });
        std::thread::sleep(Duration::from_millis(20));
        let delta = harness::log::DEAD_LETTER_EVENTS.load(SeqCst) - before;
        calls += 1;
        if !matches!(res, Err(rsactor::Error::Send { .. })) {
            rep.v("C17 C03", format!("blocking_tell parked on a full mailbox of an actor that is then killed: expected Err(Send), got {res:?}"));
        } else if delta != 1 {
            rep.v("C17 C13", format!("blocking_tell parked on a full mailbox returned Err(Send) when the actor was killed, but {delta} dead letter(s) were recorded for it (exactly one, as for tell)"));
        }
    }
    // (b9) the deprecated aliases ignore their timeout argument: they wait like blocking_tell / blocking_ask(.., None)
    {
        note("blocking (b9): tell_blocking / ask_blocking given Some(30 ms) against a full mailbox / a slow handler (the aliases ignore the timeout)".into());
        let log = Arc::new(Mutex::new(vec![]));
        let (r, _jh) = rt.block_on(async { spawn_with_mailbox_capacity::<B>((log.clone(), 250), 1) });
        r.blocking_tell(W(1), None).unwrap(); // in the handler for 250 ms
        std::thread::sleep(Duration::from_millis(20));
        r.blocking_tell(W(2), None).unwrap(); // fills the only slot
        let t0 = Instant::now();
        #[allow(deprecated)]
        let a = r.tell_blocking(W(3), Some(Duration::from_millis(30)));
        let ta = t0.elapsed();
        let t1 = Instant::now();
        #[allow(deprecated)]
        let b = r.ask_blocking(W(4), Some(Duration::from_millis(30)));
        let tb = t1.elapsed();
        calls += 2;
        if !matches!(a, Ok(())) {
            rep.v("C17", format!("tell_blocking(.., Some(30 ms)) against a mailbox that stays full for ~230 ms returned {a:?} after {ta:?}: the deprecated alias ignores its timeout argument and waits for the slot"));
        }
        if !matches!(b, Ok(4)) {
            rep.v("C17", format!("ask_blocking(.., Some(30 ms)) behind handlers of 250 ms returned {b:?} after {tb:?}: the deprecated alias ignores its timeout argument and waits for the reply"));
        }
        let _ = r.kill();
    }
    // (b10) a blocking call that timed out is over: whatever happens to the actor afterwards, the one operation has
    //       recorded its one dead letter (Timeout) and records nothing else
    {
        note("blocking (b10): blocking_ask / blocking_tell(.., Some(40 ms)) time out behind a busy handler, then the actor is killed".into());
        harness::log::install();
        for kind in ["ask", "tell"] {
            let log = Arc::new(Mutex::new(vec![]));
            let (r, jh) = rt.block_on(async { spawn_with_mailbox_capacity::<B>((log.clone(), 300), 1) });
            r.blocking_tell(W(1), None).unwrap(); // in the handler for 300 ms
            std::thread::sleep(Duration::from_millis(20));
            if kind == "tell" {
                r.blocking_tell(W(2), None).unwrap(); // fills the only slot
            }
            let before = harness::log::DEAD_LETTER_EVENTS.load(SeqCst);
            let res = if kind == "ask" {
                r.blocking_ask(W(5), Some(Duration::from_millis(40))).map(|_| ())
            } else {
                r.blocking_tell(W(5), Some(Duration::from_millis(40)))
            };
            calls += 1;
            let _ = r.kill();
            rt.block_on(async { let _ = tokio::time::timeout(Duration::from_secs(10), jh).await; });
            drop(r);
            std::thread::sleep(Duration::from_millis(150)); // anything the call left behind has had time to finish
            let delta = harness::log::DEAD_LETTER_EVENTS.load(SeqCst) - before;
            if !matches!(res, Err(rsactor::Error::Timeout { .. })) {
                rep.v("C17 C10", format!("blocking_{kind}(.., Some(40 ms)) behind a 300 ms handler returned {res:?} (expected Err(Timeout))"));
            } else if delta != 1 {
                rep.v("C17 C13", format!("blocking_{kind}(.., Some(40 ms)) returned Err(Timeout) and the actor was killed afterwards: {delta} dead letters were recorded for that one failed operation (exactly one, reason timeout)"));
            }
        }
    }
    // (b11) any Duration is a timeout: the largest one means "wait as long as it takes", as for tell_with_timeout
    {
        note("blocking (b11): blocking_tell / blocking_ask given Some(Duration::MAX) and other huge timeouts".into());
        for big in [Duration::MAX, Duration::from_secs(u64::MAX / 4), Duration::from_secs(1 << 40)] {
            let log = Arc::new(Mutex::new(vec![]));
            let (r, _jh) = rt.block_on(async { spawn_with_mailbox_capacity::<B>((log.clone(), 0), 4) });
            let r2 = r.clone();
            let th = std::thread::spawn(move || {
                let a = std::panic::catch_unwind(std::panic::AssertUnwindSafe(|| r2.blocking_tell(W(21), Some(big)).is_ok()));
                let b = std::panic::catch_unwind(std::panic::AssertUnwindSafe(|| matches!(r2.blocking_ask(W(22), Some(big)), Ok(22))));
                (a.map_err(|_| "panicked"), b.map_err(|_| "panicked"))
            });
            let (a, b) = th.join().unwrap_or((Err("thread died"), Err("thread died")));
            let direct = rt.block_on(async { r.ask_with_timeout(W(23), big).await.is_ok() });
            calls += 2;
            if !matches!(a, Ok(true)) || !matches!(b, Ok(true)) || !direct {
                rep.v("C17 C10", format!("timeout {big:?} on a live, idle actor: blocking_tell gave {a:?}, blocking_ask gave {b:?} (Ok(true) = delivered / answered), ask_with_timeout answered = {direct}: the blocking variants follow the same rules as the async ones for every timeout value"));
            }
            let _ = r.kill();
        }
    }
    // (b12) a blocking call leaves nothing behind that refers to the actor: once it has returned and every handle is
    //       dropped, the actor ends like any unreferenced actor
    {
        note("blocking (b12): blocking_tell / blocking_ask (with and without timeout), then the last reference is dropped".into());
        for form in 0..4u32 {
            let log = Arc::new(Mutex::new(vec![]));
            let (r, jh) = rt.block_on(async { spawn_with_mailbox_capacity::<B>((log.clone(), 0), 4) });
            let r2 = r.clone();
            let th = std::thread::spawn(move || match form {
                0 => r2.blocking_tell(W(31), None).is_ok(),
                1 => r2.blocking_tell(W(31), Some(Duration::from_secs(2))).is_ok(),
                2 => r2.blocking_ask(W(31), None).is_ok(),
                _ => r2.blocking_ask(W(31), Some(Duration::from_secs(2))).is_ok(),
            });
            let ok = th.join().unwrap_or(false);
            calls += 1;
            drop(r);
            let ended = rt.block_on(async { tokio::time::timeout(Duration::from_secs(5), jh).await });
            match ended {
                Ok(Ok(res)) if ok && res.is_completed() && !res.was_killed() => {}
                other => {
                    let got = match other {
                        Err(_) => "no end within 5 s".to_string(),
                        Ok(Err(_)) => "a panicked / cancelled task".to_string(),
                        Ok(Ok(r)) => format!("completed={} killed={}", r.is_completed(), r.was_killed()),
                    };
                    rep.v("C07 C17", format!("after one blocking call (form {form} of: blocking_tell None, blocking_tell Some(2 s), blocking_ask None, blocking_ask Some(2 s); it returned ok={ok}) every reference was dropped: the actor must end as completed within 5 s, got: {got}"));
                }
            }
        }
    }
    // (b13) timed blocking calls made at the same time from different threads do not wait for one another
    {
        note("blocking (b13): a timed blocking_ask against a slow actor in flight on one thread, a timed blocking_tell to an idle actor from another".into());
        let log = Arc::new(Mutex::new(vec![]));
        let (slow, _j1) = rt.block_on(async { spawn_with_mailbox_capacity::<B>((log.clone(), 600), 4) });
        let (idle, _j2) = rt.block_on(async { spawn_with_mailbox_capacity::<B>((log.clone(), 0), 4) });
        let s2 = slow.clone();
        let th = std::thread::spawn(move || s2.blocking_ask(W(41), Some(Duration::from_secs(5))).is_ok());
        std::thread::sleep(Duration::from_millis(100)); // the first call is in flight (its handler sleeps 600 ms)
        let t0 = Instant::now();
        let a = idle.blocking_tell(W(42), Some(Duration::from_millis(300)));
        let ta = t0.elapsed();
        let t1 = Instant::now();
        let b = idle.blocking_ask(W(43), Some(Duration::from_millis(300)));
        let tb = t1.elapsed();
        let first = th.join().unwrap_or(false);
        calls += 3;
        if !first || !matches!(a, Ok(())) || !matches!(b, Ok(43)) || ta > Duration::from_millis(300) || tb > Duration::from_millis(300) {
            rep.v("C10 C17", format!("while a blocking_ask(.., Some(5 s)) against a 600 ms handler was in flight on another thread (ok={first}), blocking_tell(.., Some(300 ms)) to an idle actor returned {a:?} after {ta:?} and blocking_ask(.., Some(300 ms)) returned {b:?} after {tb:?}: both complete at once and never later than their deadline"));
        }
        let _ = slow.kill();
        let _ = idle.kill();
        // the same with a timed blocking_tell that is legitimately waiting on a full mailbox in flight
        let (full, _j3) = rt.block_on(async { spawn_with_mailbox_capacity::<B>((log.clone(), 700), 1) });
        let (idle2, _j4) = rt.block_on(async { spawn_with_mailbox_capacity::<B>((log.clone(), 0), 4) });
        full.blocking_tell(W(44), None).unwrap(); // in the handler for 700 ms
        std::thread::sleep(Duration::from_millis(20));
        full.blocking_tell(W(45), None).unwrap(); // fills the only slot
        let f2 = full.clone();
        let th = std::thread::spawn(move || f2.blocking_tell(W(46), Some(Duration::from_secs(5))).is_ok());
        std::thread::sleep(Duration::from_millis(100));
        let t0 = Instant::now();
        let a = idle2.blocking_tell(W(47), Some(Duration::from_millis(300)));
        let ta = t0.elapsed();
        let first = th.join().unwrap_or(false);
        calls += 2;
        if !first || !matches!(a, Ok(())) || ta > Duration::from_millis(300) {
            rep.v("C09 C10 C17", format!("while a blocking_tell(.., Some(5 s)) was waiting for a slot of another actor's full mailbox on another thread (ok={first}), blocking_tell(.., Some(300 ms)) into an EMPTY mailbox returned {a:?} after {ta:?}: a send never waits while a slot is free"));
        }
        let _ = full.kill();
        let _ = idle2.kill();
    }
    // (b14) failures leave nothing behind: after many failed timed blocking calls a timed call to a live actor works as ever
    {
        note("blocking (b14): 80 timed blocking calls to an actor that has ended, then timed calls to a live, idle actor".into());
        let log = Arc::new(Mutex::new(vec![]));
        let (dead, jd) = rt.block_on(async { spawn_with_mailbox_capacity::<B>((log.clone(), 0), 4) });
        let _ = dead.kill();
        rt.block_on(async { let _ = tokio::time::timeout(Duration::from_secs(5), jd).await; });
        let mut fails = 0;
        for k in 0..80u32 {
            let r = if k % 2 == 0 { dead.blocking_tell(W(k), Some(Duration::from_millis(50))).map(|_| 0) } else { dead.blocking_ask(W(k), Some(Duration::from_millis(50))) };
            if matches!(r, Err(rsactor::Error::Send { .. })) {
                fails += 1;
            }
        }
        let (live, _jl) = rt.block_on(async { spawn_with_mailbox_capacity::<B>((log.clone(), 0), 4) });
        let t0 = Instant::now();
        let a = live.blocking_tell(W(61), Some(Duration::from_millis(500)));
        let b = live.blocking_ask(W(62), Some(Duration::from_millis(500)));
        let el = t0.elapsed();
        calls += 82;
        if fails != 80 || !matches!(a, Ok(())) || !matches!(b, Ok(62)) || el > Duration::from_millis(400) {
            rep.v("C17 C10", format!("{fails} of 80 timed blocking calls to an ended actor failed with Err(Send); afterwards blocking_tell(.., Some(500 ms)) to a live idle actor returned {a:?} and blocking_ask returned {b:?}, {el:?} in all (both complete at once: earlier failures leave nothing behind)"));
        }
        let _ = live.kill();
    }
    // (b15) every timed blocking_tell is judged on its own: one that timed out on a full mailbox says nothing about the next
    {
        note("blocking (b15): a timed blocking_tell times out on a full mailbox; the next one, with a long budget, waits for the slot".into());
        let log = Arc::new(Mutex::new(vec![]));
        let (slow, _j) = rt.block_on(async { spawn_with_mailbox_capacity::<B>((log.clone(), 300), 1) });
        slow.blocking_tell(W(71), None).unwrap(); // in the handler for 300 ms
        std::thread::sleep(Duration::from_millis(20));
        slow.blocking_tell(W(72), None).unwrap(); // fills the only slot
        let first = slow.blocking_tell(W(73), Some(Duration::from_millis(50))); // the slot frees only after 300 ms
        let t0 = Instant::now();
        let second = slow.blocking_tell(W(74), Some(Duration::from_secs(5))); // the mailbox is still full; it has room in time
        let el = t0.elapsed();
        let t1 = Instant::now();
        while t1.elapsed() < Duration::from_secs(4) && !log.lock().unwrap().contains(&74) {
            std::thread::sleep(Duration::from_millis(20));
        }
        let l = log.lock().unwrap().clone();
        calls += 4;
        if !matches!(first, Err(rsactor::Error::Timeout { .. })) || l.contains(&73) || !matches!(second, Ok(())) || !l.contains(&74) {
            rep.v("C17 C09 C10", format!("capacity 1, a 300 ms handler running and one message queued: blocking_tell(.., Some(50 ms)) returned {first:?} (a Timeout, its message never handled); the next blocking_tell(.., Some(5 s)) - the mailbox still full, a slot free well within its budget - returned {second:?} after {el:?} (Ok, after waiting for the slot); handled: {l:?}"));
        }
        let _ = slow.kill();
    }
    // (b16) the dead letter of a timed-out blocking call exists when the call returns (as it does for the async variants),
    //       however long the installed subscriber takes to record it
    {
        note("blocking (b16): timed blocking calls that time out, under a subscriber that takes 8-40 ms per event".into());
        harness::log::install();
        harness::log::SLOW_LOG_ALWAYS.store(true, SeqCst);
        harness::log::SLOW_LOG_MS.store(40, SeqCst);
        let mut bad = None;
        for round in 0..4u32 {
            let log = Arc::new(Mutex::new(vec![]));
            let (slow, _j) = rt.block_on(async { spawn_with_mailbox_capacity::<B>((log.clone(), 400), 1) });
            let _ = slow.blocking_tell(W(81), None); // in the handler for 400 ms
            std::thread::sleep(Duration::from_millis(60));
            let _ = slow.blocking_tell(W(82), None); // fills the only slot
            let before = harness::log::DEAD_LETTER_EVENTS.load(SeqCst);
            let res = if round % 2 == 0 { slow.blocking_tell(W(83), Some(Duration::from_millis(30))).map(|_| 0) } else { slow.blocking_ask(W(83), Some(Duration::from_millis(30))) };
            let at_return = harness::log::DEAD_LETTER_EVENTS.load(SeqCst) - before;
            calls += 3;
            if !matches!(res, Err(rsactor::Error::Timeout { .. })) || at_return != 1 {
                bad = Some((round, format!("{res:?}"), at_return));
                let _ = slow.kill();
                break;
            }
            let _ = slow.kill();
            std::thread::sleep(Duration::from_millis(60));
        }
        harness::log::SLOW_LOG_MS.store(0, SeqCst);
        harness::log::SLOW_LOG_ALWAYS.store(false, SeqCst);
        if let Some((round, res, n)) = bad {
            rep.v("C17 C13", format!("a timed blocking call ({}) against a full capacity-1 mailbox / a 400 ms handler, budget 30 ms, under a tracing subscriber that takes 8-40 ms per event: it returned {res}; dead letters recorded when it returned: {n} (Err(Timeout) with its one dead letter already recorded - what tell_with_timeout / ask_with_timeout do)", if round % 2 == 0 { "blocking_tell" } else { "blocking_ask" }));
        }
    }
    // (b8) what a blocking_tell with a timeout returns agrees with what happened to the message, also when the
    //      actor ends right after handling it
    {
        note("blocking (b8): blocking_tell(.., Some(500 ms)) to actors that kill themselves in the handler".into());
        let mut bad = None;
        for k in 0..60u32 {
            let log = Arc::new(Mutex::new(vec![]));
            let (r, jh) = rt.block_on(async { spawn_with_mailbox_capacity::<B>((log.clone(), 0), 4) });
            let res = r.blocking_tell(Q(k), Some(Duration::from_millis(500)));
            rt.block_on(async { let _ = tokio::time::timeout(Duration::from_secs(10), jh).await; });
            let n = log.lock().unwrap().iter().filter(|x| **x == k).count();
            calls += 1;
            if (res.is_ok() && n != 1) || (res.is_err() && n != 0) {
                bad = Some((k, format!("{res:?}"), n));
                break;
            }
        }
        if let Some((k, res, n)) = bad {
            rep.v("C17 C01", format!("blocking_tell(Q({k}), Some(500 ms)) to an actor that ends right after handling the message returned {res} although the message was handled {n} time(s): an error means never handled"));
        }
    }
    // (c) the timeout variants may be called from inside a runtime context
    {
        let ok = rt.block_on(async {
            let log = Arc::new(Mutex::new(vec![]));
            let (r, _jh) = spawn_with_mailbox_capacity::<B>((log, 0), 4);
            let r2 = r.clone();
            let a = tokio::task::spawn_blocking(move || {
                std::panic::catch_unwind(std::panic::AssertUnwindSafe(|| {
                    (r2.blocking_tell(W(1), Some(Duration::from_secs(2))).is_ok(), r2.blocking_ask(W(2), Some(Duration::from_secs(2))).ok())
                }))
            })
            .await;
            // and directly on a worker thread (inside the async context)
            let r3 = r.clone();
            let b = std::panic::catch_unwind(std::panic::AssertUnwindSafe(|| {
                tokio::task::block_in_place(|| (r3.blocking_tell(W(3), Some(Duration::from_secs(2))).is_ok(), r3.blocking_ask(W(4), Some(Duration::from_secs(2))).ok()))
            }));
            let _ = r.kill();
            (a, b)
        });
        calls += 4;
        match ok {
            (Ok(Ok((true, Some(2)))), Ok((true, Some(4)))) => {}
            other => rep.v("C17", format!("blocking_*(…, Some(timeout)) inside a runtime context: {other:?}")),
        }
    }
    // (c2) from inside a single-threaded runtime that cannot make progress while the caller blocks: the call
    //      still returns by its deadline (tell: the mailbox has room; ask: the actor cannot run, so Timeout),
    //      directly on the ActorRef and through Box<dyn TellHandler> / Box<dyn AskHandler>
    for erased in [false, true] {
        let via = if erased { "a Box<dyn TellHandler>/Box<dyn AskHandler>" } else { "the ActorRef" };
        note(format!("blocking (c2): blocking_tell / blocking_ask with a timeout called through {via} directly from async code on a current_thread runtime"));
        let (tx, rx) = std::sync::mpsc::channel();
        std::thread::spawn(move || {
            let rt1 = tokio::runtime::Builder::new_current_thread().enable_time().build().unwrap();
            let out = rt1.block_on(async {
                let log = Arc::new(Mutex::new(vec![]));
                let (r, _jh) = spawn_with_mailbox_capacity::<B>((log, 0), 4);
                let th: Box<dyn rsactor::TellHandler<W>> = Box::new(r.clone());
                let ah: Box<dyn rsactor::AskHandler<W, u32>> = Box::new(r.clone());
                let t0 = Instant::now();
                let a = std::panic::catch_unwind(std::panic::AssertUnwindSafe(|| {
                    if erased { th.blocking_tell(W(1), Some(Duration::from_millis(500))).is_ok() } else { r.blocking_tell(W(1), Some(Duration::from_millis(500))).is_ok() }
                }));
                let ta = t0.elapsed();
                let t1 = Instant::now();
                let b = std::panic::catch_unwind(std::panic::AssertUnwindSafe(|| {
                    let res = if erased { ah.blocking_ask(W(2), Some(Duration::from_millis(300))) } else { r.blocking_ask(W(2), Some(Duration::from_millis(300))) };
                    match res {
                        Ok(_) => "ok",
                        Err(rsactor::Error::Timeout { .. }) => "timeout",
                        Err(_) => "other",
                    }
                }));
                let tb = t1.elapsed();
                let _ = r.kill();
                (a.map_err(|_| "panicked"), ta, b.map_err(|_| "panicked"), tb)
            });
            let _ = tx.send(out);
        });
        calls += 2;
        let tag = if erased { "C16 C17" } else { "C17" };
        match rx.recv_timeout(Duration::from_secs(15)) {
            Ok((a, ta, b, tb)) => {
                if !matches!(a, Ok(true)) || ta > Duration::from_millis(700) {
                    rep.v(tag, format!("blocking_tell(.., Some(500 ms)) through {via} from async code on a current_thread runtime with a free mailbox: {a:?} after {ta:?} (expected Ok well within the deadline, and no panic)"));
                }
                if !matches!(b, Ok("timeout") | Ok("ok")) || tb > Duration::from_millis(600) {
                    rep.v(&format!("{tag} C10"), format!("blocking_ask(.., Some(300 ms)) through {via} from async code on a current_thread runtime: {b:?} after {tb:?} (expected a result by the deadline, and no panic)"));
                }
            }
            Err(_) => rep.v(&format!("{tag} C10"), format!("blocking_tell / blocking_ask with a timeout called through {via} directly from async code on a current_thread runtime did not return within 15 s (deadlines 500 ms and 300 ms)")),
        }
    }
    // (c3) from inside a handler, into the actor's own full mailbox: the timed blocking call gives up at its deadline with
    //      Err(Timeout), exactly like tell_with_timeout in the same spot - in every build
    {
        note("blocking (c3): blocking_tell(.., Some(60 ms)) issued by a handler into its own full capacity-1 mailbox".into());
        let (tx, rx) = std::sync::mpsc::channel();
        std::thread::spawn(move || {
            let rt1 = tokio::runtime::Builder::new_multi_thread().worker_threads(2).enable_time().build().unwrap();
            let out = rt1.block_on(async {
                let (r, jh) = spawn_with_mailbox_capacity::<Sb>((), 1);
                let _ = r.tell(SelfBlock(true)).await; // its handler first fills the mailbox, then blocks on a timed self-send
                let res = tokio::time::timeout(Duration::from_secs(10), r.ask(SelfBlock(false))).await;
                let _ = r.kill();
                let ended = tokio::time::timeout(Duration::from_secs(5), jh).await;
                (res.ok().and_then(|x| x.ok()), ended.map(|x| x.is_ok()).unwrap_or(false))
            });
            let _ = tx.send(out);
        });
        calls += 1;
        match rx.recv_timeout(Duration::from_secs(30)) {
            Ok((Some(code), true)) if code == 2 => {}
            Ok(other) => rep.v("C17 C09", format!("a handler's blocking_tell(.., Some(60 ms)) into its own full mailbox: expected Err(Timeout) (reported by the actor as code 2: 0 = Ok, 1 = other error, 2 = Timeout) and a live actor, got {other:?} (None = the actor did not answer any more, e.g. its task panicked)")),
            Err(_) => rep.v("C17 C10", "a handler's blocking_tell(.., Some(60 ms)) into its own full mailbox did not return within 30 s".into()),
        }
    }
    rep.s("blocking", format!("calls={calls}"));
}

// ------------------------------------------------------------------------------------------------ ids
fn ids(rep: &mut Report) {
    let rt = tokio::runtime::Builder::new_multi_thread().worker_threads(8).build().unwrap();
    let all = Arc::new(Mutex::new(Vec::<u64>::new()));
    let handle = rt.handle().clone();
    let mut ths = vec![];
    for _ in 0..16 {
        let all = all.clone();
        let h = handle.clone();
        ths.push(std::thread::spawn(move || {
            let _g = h.enter();
            let mut mine = vec![];
            for k in 0..2000u32 {
                // every way of creating an actor draws from the one id space
                let (r, _jh) = match k % 3 {
                    0 => spawn::<J>(()),
                    1 => spawn_with_mailbox_capacity::<J>((), 1 + (k as usize % 7)),
                    _ => spawn_with_mailbox_capacity::<J>((), 32),
                };
                let w = ActorRef::downgrade(&r);
                let c = r.clone();
                let id = r.identity().id;
                if w.identity().id != id || c.identity().id != id || w.upgrade().map(|u| u.identity().id) != Some(id) {
                    mine.push(u64::MAX);
                }
                mine.push(id);
            }
            all.lock().unwrap().extend(mine);
        }));
    }
    for t in ths {
        t.join().unwrap();
    }
    let mut v = all.lock().unwrap().clone();
    let n = v.len();
    if v.contains(&u64::MAX) {
        rep.v("C11", "a derived handle reported a different identity".into());
    }
    v.sort();
    v.dedup();
    if v.len() != n {
        rep.v("C11", format!("{} actors created from 16 threads with spawn() and spawn_with_mailbox_capacity() share ids ({} distinct)", n, v.len()));
    }
    rep.s("ids", format!("spawned={n} distinct={}", v.len()));
    drop(rt);
    // ids are never handed out twice, whatever becomes of the actors: start-up failures and panics included
    let rt1 = tokio::runtime::Builder::new_current_thread().enable_time().build().unwrap();
    rt1.block_on(async {
        let mut seen: Vec<(u64, &str)> = vec![];
        let mut keep: Vec<Box<dyn std::any::Any>> = vec![];
        for round in 0..30u32 {
            note(format!("ids: spawn / failing on_start / panicking on_start sequence, round {round}"));
            let (ok, _j0) = spawn::<J>(());
            seen.push((ok.identity().id, "started"));
            let (bad, j1) = spawn::<F>(round % 2 == 0);
            seen.push((bad.identity().id, "failed in on_start"));
            let _ = j1.await; // the failed actor is over; its handle (and identity) is still held
            let (next, _j2) = spawn::<J>(());
            seen.push((next.identity().id, "spawned after the failure"));
            keep.push(Box::new(ok));
            keep.push(Box::new(bad));
            keep.push(Box::new(next));
        }
        let mut ids: Vec<u64> = seen.iter().map(|x| x.0).collect();
        ids.sort();
        if let Some(w) = ids.windows(2).find(|w| w[0] == w[1]) {
            let who: Vec<&str> = seen.iter().filter(|x| x.0 == w[0]).map(|x| x.1).collect();
            rep.v("C11 C12", format!("two actors of one process share id {}: {who:?} (handles of both are still held)", w[0]));
        }
    });
}

/// fails in on_start: by an error (true) or by a panic (false)
struct F;
impl Actor for F {
    type Args = bool;
    type Error = String;
    async fn on_start(by_error: bool, _: &ActorRef<Self>) -> Result<Self, String> {
        tokio::task::yield_now().await;
        if by_error {
            Err("scripted start-up failure".into())
        } else {
            panic!("scripted start-up panic")
        }
    }
}

fn jstr(s: &str) -> String {
    format!("{:?}", s)
}

// ------------------------------------------------------------------------------------------------ idlewin
/// on_run scripts whose last synchronous segment produces mail for the actor itself (or lets other
/// threads' mail land) — the arrival pattern the paused single-thread correspondence cannot produce.
struct I {
    log: Arc<Mutex<Vec<String>>>,
    plan: Vec<(u32, char, bool)>, // per pass: self-tells, outcome c/d/e, yield first
    pass: usize,
}
struct K(u32);
impl Actor for I {
    type Args = (Arc<Mutex<Vec<String>>>, Vec<(u32, char, bool)>);
    type Error = String;
    async fn on_start(a: Self::Args, _: &ActorRef<Self>) -> Result<Self, String> {
        Ok(I { log: a.0, plan: a.1, pass: 0 })
    }
    async fn on_run(&mut self, w: &ActorWeak<Self>) -> Result<bool, String> {
        let k = self.pass;
        self.pass += 1;
        let (n, out, yield_first) = self.plan.get(k).copied().unwrap_or((0, 'c', true));
        self.log.lock().unwrap().push(format!("run {k}"));
        if yield_first {
            tokio::task::yield_now().await;
        }
        if let Some(me) = w.upgrade() {
            for j in 0..n {
                let _ = me.tell(K(1000 * (k as u32 + 1) + j)).await;
            }
        }
        if k >= self.plan.len() {
            // beyond the plan: keep idling slowly
            tokio::time::sleep(Duration::from_millis(1)).await;
        }
        // a pass that loses the select to an arriving message is dropped at an await point above and
        // never gets here: only completed passes count
        self.log.lock().unwrap().push(format!("ret {k} {out}"));
        match out {
            'c' => Ok(true),
            'd' => Ok(false),
            'k' => {
                // a kill requested in the very poll in which the pass fails: the error decides the ending
                if let Some(me) = w.upgrade() {
                    let _ = me.kill();
                }
                Err("scripted on_run error (kill requested in the same poll)".into())
            }
            _ => Err("scripted on_run error".into()),
        }
    }
    async fn on_stop(&mut self, _: &ActorWeak<Self>, k: bool) -> Result<(), String> {
        self.log.lock().unwrap().push(format!("stop {k}"));
        Ok(())
    }
}
impl Message<K> for I {
    type Reply = u32;
    async fn handle(&mut self, m: K, _: &ActorRef<Self>) -> u32 {
        self.log.lock().unwrap().push(format!("h {}", m.0));
        m.0
    }
}

fn idlewin_check(rep: &mut Report, what: &str, plan: &[(u32, char, bool)], log: &[String], served_after: bool) {
    // every actor has its own idle handler: the first pass runs when this actor is first idle, whatever other actors of
    // the same type have done
    if !plan.is_empty() && !log.iter().any(|l| l == "run 0") {
        rep.v("C08", format!("{what}: the actor was idle (every sender had finished, 15 ms passed, an ask was answered) and its on_run body never ran, not even once; plan {:?}; log {log:?}", &plan[..plan.len().min(4)]));
    }
    // (1) after Ok(false) the body never executes again; (2) mail produced during a pass is handled before the next pass
    let runs: Vec<usize> = log.iter().filter_map(|l| l.strip_prefix("run ").map(|x| x.parse().unwrap())).collect();
    let rets: Vec<(usize, char)> = log.iter().filter_map(|l| l.strip_prefix("ret ")).map(|x| { let mut it = x.split(' '); (it.next().unwrap().parse().unwrap(), it.next().unwrap().chars().next().unwrap()) }).collect();
    if let Some(d) = rets.iter().find(|r| r.1 == 'd').map(|r| r.0) {
        if runs.iter().any(|r| *r > d) {
            rep.v("C08", format!("{what}: on_run pass {d} returned Ok(false) but the body executed again (passes {runs:?}); plan {plan:?}; log {log:?}"));
        }
        if served_after && !log.iter().any(|l| l == "h 7") {
            rep.v("C08", format!("{what}: message sent after on_run was disabled was not served; log {log:?}"));
        }
    }
    for (k, p) in plan.iter().enumerate() {
        for j in 0..p.0 {
            let id = format!("h {}", 1000 * (k as u32 + 1) + j);
            let hp = log.iter().position(|l| *l == id);
            let np = log.iter().position(|l| *l == format!("run {}", k + 1));
            if !rets.iter().any(|r| r.0 == k) {
                continue;
            }
            if let (Some(np), hp) = (np, hp) {
                if hp.map_or(true, |hp| hp > np) {
                    rep.v("C08", format!("{what}: message {id} was waiting when pass {k} ended but on_run was polled again first; log {log:?}"));
                }
            }
        }
    }
    if let Some(e) = rets.iter().find(|r| r.1 == 'e' || r.1 == 'k').map(|r| r.0) {
        if !log.iter().any(|l| l == "stop false") {
            rep.v("C08 C04", format!("{what}: on_run pass {e} returned Err but on_stop(killed=false) did not run (an on_run error is not a kill, whatever was requested meanwhile: killed=true iff a kill signal was consumed); log {log:?}"));
        }
    }
}

fn idlewin(rep: &mut Report) {
    let mut cases = 0u64;
    let plans: Vec<Vec<(u32, char, bool)>> = vec![
        vec![(1, 'd', false)],
        vec![(1, 'd', true)],
        vec![(0, 'c', true), (1, 'c', false), (1, 'd', false)],
        vec![(2, 'c', true), (0, 'd', true)],
        vec![(0, 'd', false)],
        vec![(1, 'c', false), (1, 'e', false)],
        vec![(0, 'c', true), (0, 'c', true), (0, 'e', true)],
        vec![(0, 'k', false)],
        vec![(0, 'c', true), (0, 'k', true)],
        vec![(1, 'c', false), (0, 'k', false)],
        // a pass that fails without ever suspending: with senders it lands while some of them are parked
        // on the full mailbox (the freed slot is already promised to one of them)
        {
            let mut p = vec![(0, 'c', true); 3];
            p.extend(vec![(0, 'e', false); 60]);
            p
        },
        {
            let mut p = vec![(0, 'c', true); 2];
            p.extend(vec![(0, 'd', false); 60]);
            p
        },
    ];
    for multi in [false, true] {
        let rt = if multi {
            tokio::runtime::Builder::new_multi_thread().worker_threads(4).enable_time().build().unwrap()
        } else {
            tokio::runtime::Builder::new_current_thread().enable_time().build().unwrap()
        };
        for cap in [1usize, 2, 8, 64] {
            for plan in &plans {
                if plan.iter().any(|p| p.0 as usize > cap) {
                    continue;
                }
                for senders in [0u32, 3] {
                    if senders > 0 && plan.iter().any(|p| p.0 > 0) {
                        continue; // self-tells need the room for themselves
                    }
                    cases += 1;
                    note(format!("idlewin: cap {cap}, {} runtime, {senders} sender task(s), plan (self-tells, outcome, yields first) {:?}", if multi { "multi-thread" } else { "current-thread" }, &plan[..plan.len().min(5)]));
                    let log = Arc::new(Mutex::new(vec![]));
                    let plan2 = plan.clone();
                    let log2 = log.clone();
                    let res = rt.block_on(async move {
                        let (r, jh) = spawn_with_mailbox_capacity::<I>((log2, plan2), cap);
                        let mut tasks = vec![];
                        for t in 0..senders {
                            let r2 = r.clone();
                            tasks.push(tokio::spawn(async move {
                                for k in 0..40u32 {
                                    let _ = r2.tell(K(100 + t * 40 + k)).await;
                                    if k % 5 == 0 { tokio::task::yield_now().await; }
                                }
                            }));
                        }
                        let all_back = tokio::time::timeout(Duration::from_secs(10), async { for t in tasks { let _ = t.await; } }).await.is_ok();
                        if !all_back {
                            return (false, Err(()), false);
                        }
                        tokio::time::sleep(Duration::from_millis(15)).await;
                        let served = matches!(tokio::time::timeout(Duration::from_secs(10), r.ask(K(7))).await, Ok(Ok(_)));
                        tokio::time::sleep(Duration::from_millis(5)).await;
                        let _ = tokio::time::timeout(Duration::from_secs(10), r.stop()).await;
                        let out = tokio::time::timeout(Duration::from_secs(10), jh).await;
                        (served, out.map(|x| x.map(|res| (res.is_completed(), res.is_runtime_failed(), res.was_killed()))).map_err(|_| ()), true)
                    });
                    let (res, senders_back) = ((res.0, res.1), res.2);
                    if !senders_back {
                        let l = log.lock().unwrap().clone();
                        rep.v("C03 C08", format!("idle window (cap {cap}, {} runtime, {senders} senders): tell() calls had not returned 10 s after they were issued (the actor's on_run outcome landed while senders were parked on the full mailbox); plan tail {:?}; log tail {:?}",
                            if multi { "multi-thread" } else { "current-thread" }, &plan[plan.len().saturating_sub(2)..], &l[l.len().saturating_sub(8)..]));
                        continue;
                    }
                    let l = log.lock().unwrap().clone();
                    let what = format!("idle window (cap {cap}, {} runtime, {senders} senders)", if multi { "multi-thread" } else { "current-thread" });
                    match res {
                        (served, Ok(Ok((completed, run_failed, was_killed)))) => {
                            idlewin_check(rep, &what, plan, &l, served);
                            let has_err = l.iter().any(|x| x.starts_with("ret ") && (x.ends_with(" e") || x.ends_with(" k")));
                            if has_err && (completed || !run_failed) {
                                rep.v("C08 C05", format!("{what}: on_run returned Err but the result is not an on_run failure; plan {plan:?}"));
                            }
                            if has_err && was_killed {
                                rep.v("C08 C05", format!("{what}: on_run returned Err (the actor ends as failed after on_stop(killed=false)) but the result says killed; plan {plan:?}; log {l:?}"));
                            }
                            if !has_err && !completed {
                                rep.v("C08 C05", format!("{what}: no on_run error but the actor did not complete; plan {plan:?}"));
                            }
                        }
                        (_, other) => rep.v("C08 C03", format!("{what}: the actor did not end within 10 s of stop() (or panicked) and operations on it are left waiting: {other:?}; plan {:?}; log tail {:?}", &plan[..plan.len().min(6)], &l[l.len().saturating_sub(8)..])),
                    }
                }
            }
        }
    }
    rep.s("idlewin", format!("cases={cases}"));
}

// ------------------------------------------------------------------------------------------------ lazyfut
/// C16 on the dimension the step-by-step correspondence does not vary: a future obtained from a handle is
/// created at one instant and first polled at a later one.  Every future-returning method is run directly
/// and through each trait object on a paused clock; outcomes, virtual elapsed times and handling order
/// must be identical.
struct L {
    log: Arc<Mutex<Vec<u32>>>,
}
struct D(u32, u64); // id, handler duration (virtual ms)
impl Actor for L {
    type Args = Arc<Mutex<Vec<u32>>>;
    type Error = String;
    async fn on_start(a: Self::Args, _: &ActorRef<Self>) -> Result<Self, String> {
        Ok(L { log: a })
    }
}
impl Message<D> for L {
    type Reply = u32;
    async fn handle(&mut self, m: D, _: &ActorRef<Self>) -> u32 {
        self.log.lock().unwrap().push(m.0);
        if m.1 > 0 {
            tokio::time::sleep(Duration::from_millis(m.1)).await;
        }
        m.0
    }
}

fn lazyfut(rep: &mut Report) {
    use rsactor::{ActorControl, AskHandler, TellHandler};
    let rt = tokio::runtime::Builder::new_current_thread().enable_time().start_paused(true).build().unwrap();
    let mut cells = 0u64;
    rt.block_on(async {
        // variants: 0 direct, 1 Box<dyn TellHandler>/AskHandler/ActorControl from &ActorRef, 2 the same after clone_boxed
        for op in ["tellt", "askt", "tell", "ask", "stop"] {
            for delay in [0u64, 60] {
                for timeout in [100u64, 40] {
                    for busy in [120u64, 30] {
                        for fill in [false, true] {
                            let mut outs: Vec<(String, u128, Vec<u32>)> = vec![];
                            for variant in 0..3u32 {
                                note(format!("lazyfut: {op} timeout {timeout} delay {delay} busy {busy} fill {fill} variant {variant}"));
                                let log = Arc::new(Mutex::new(vec![]));
                                let (r, jh) = spawn_with_mailbox_capacity::<L>(log.clone(), 1);
                                r.tell(D(1, busy)).await.unwrap();
                                tokio::time::sleep(Duration::from_millis(1)).await;
                                if fill {
                                    r.tell(D(2, 0)).await.unwrap();
                                }
                                let th: Box<dyn TellHandler<D>> = if variant == 2 { TellHandler::clone_boxed(&r) } else { (&r).into() };
                                let ah: Box<dyn AskHandler<D, u32>> = if variant == 2 { AskHandler::clone_boxed(&r) } else { (&r).into() };
                                let ch: Box<dyn ActorControl> = if variant == 2 { ActorControl::clone_boxed(&r) } else { (&r).into() };
                                let t0 = tokio::time::Instant::now();
                                let to = Duration::from_millis(timeout);
                                let fut: futures::future::BoxFuture<'_, String> = match (op, variant) {
                                    ("tellt", 0) => Box::pin(async { format!("{:?}", r.tell_with_timeout(D(9, 0), to).await.map_err(|e| kind(&e))) }),
                                    ("tellt", _) => { let f = th.tell_with_timeout(D(9, 0), to); Box::pin(async move { format!("{:?}", f.await.map_err(|e| kind(&e))) }) }
                                    ("askt", 0) => Box::pin(async { format!("{:?}", r.ask_with_timeout(D(9, 0), to).await.map_err(|e| kind(&e))) }),
                                    ("askt", _) => { let f = ah.ask_with_timeout(D(9, 0), to); Box::pin(async move { format!("{:?}", f.await.map_err(|e| kind(&e))) }) }
                                    ("tell", 0) => Box::pin(async { format!("{:?}", r.tell(D(9, 0)).await.map_err(|e| kind(&e))) }),
                                    ("tell", _) => { let f = th.tell(D(9, 0)); Box::pin(async move { format!("{:?}", f.await.map_err(|e| kind(&e))) }) }
                                    ("ask", 0) => Box::pin(async { format!("{:?}", r.ask(D(9, 0)).await.map_err(|e| kind(&e))) }),
                                    ("ask", _) => { let f = ah.ask(D(9, 0)); Box::pin(async move { format!("{:?}", f.await.map_err(|e| kind(&e))) }) }
                                    (_, 0) => Box::pin(async { format!("{:?}", r.stop().await.map_err(|e| kind(&e))) }),
                                    (_, _) => { let f = ch.stop(); Box::pin(async move { format!("{:?}", f.await.map_err(|e| kind(&e))) }) }
                                };
                                // between creation and first poll: time passes and another message is sent
                                if delay > 0 {
                                    tokio::time::sleep(Duration::from_millis(delay)).await;
                                }
                                let r2 = r.clone();
                                let side = tokio::spawn(async move { let _ = r2.tell_with_timeout(D(5, 0), Duration::from_millis(500)).await; });
                                tokio::time::sleep(Duration::from_millis(1)).await;
                                let res = fut.await;
                                let took = t0.elapsed().as_millis();
                                let _ = side.await;
                                tokio::time::sleep(Duration::from_millis(300)).await;
                                let _ = r.kill();
                                let _ = jh.await;
                                let l = log.lock().unwrap().clone();
                                outs.push((res, took, l));
                            }
                            cells += 1;
                            for v in 1..3 {
                                if outs[v] != outs[0] {
                                    rep.v(if op.ends_with('t') { "C16 C10" } else { "C16" }, format!(
                                        "{op} (timeout {timeout} ms) created, first polled {delay} ms later, actor busy {busy} ms, mailbox {}: direct ActorRef gives (result {}, {} ms, handled {:?}) but the {} trait object gives (result {}, {} ms, handled {:?})",
                                        if fill { "full" } else { "free" }, outs[0].0, outs[0].1, outs[0].2,
                                        if v == 1 { "From<&ActorRef>" } else { "clone_boxed" }, outs[v].0, outs[v].1, outs[v].2));
                                }
                            }
                        }
                    }
                }
            }
        }
    });
    rep.s("lazyfut", format!("cells={cells} (x3 variants)"));
}

fn kind(e: &rsactor::Error) -> &'static str {
    match e {
        rsactor::Error::Send { .. } => "send",
        rsactor::Error::Receive { .. } => "receive",
        rsactor::Error::Timeout { .. } => "timeout",
        _ => "other",
    }
}

// ------------------------------------------------------------------------------------------------ refs
/// Sequences of handle operations with no yield in between (the paused correspondence lets the actor run to
/// quiescence after every operation, so it never sees "the marker is queued but not yet dequeued").
fn refs(rep: &mut Report) {
    use rsactor::{ActorControl, WeakActorControl};
    let rt = tokio::runtime::Builder::new_current_thread().enable_time().build().unwrap();
    let mut cases = 0u64;
    rt.block_on(async {
        // stop() and then kill() through the very same handle while the actor is busy and has a backlog: the kill is a kill
        // (on_stop(true), the backlog is not worked off), directly and through a Box<dyn ActorControl>
        for erased in [false, true] {
            cases += 1;
            note(format!("refs: stop() then kill() through one handle, busy actor with a backlog (erased={erased})"));
            let log = Arc::new(Mutex::new(vec![]));
            let (r, jh) = spawn_with_mailbox_capacity::<Cx>(log.clone(), 8);
            let (gtx, grx) = tokio::sync::oneshot::channel();
            r.tell(Gate(grx)).await.unwrap();
            tokio::task::yield_now().await;
            for k in 1..=3u32 {
                r.tell(Item(k)).await.unwrap();
            }
            let ctl: Box<dyn ActorControl> = Box::new(r.clone());
            let (s1, k1) = if erased { (ctl.stop().await.is_ok(), ctl.kill().is_ok()) } else { (r.stop().await.is_ok(), r.kill().is_ok()) };
            let _ = gtx.send(());
            let res = tokio::time::timeout(Duration::from_secs(5), jh).await;
            let l = log.lock().unwrap().clone();
            let killed = matches!(&res, Ok(Ok(x)) if x.was_killed());
            let worked = l.iter().filter(|x| x.starts_with("h ")).count();
            if !s1 || !k1 || !killed || !l.iter().any(|x| x == "stop true") || worked > 1 {
                rep.v(if erased { "C16 C06" } else { "C06 C05" }, format!("stop() then kill() {} on an actor parked in a handler with three messages queued: stop ok={s1}, kill ok={k1}; the actor ended with killed={killed}, log {l:?} (a kill pre-empts the backlog and the stop marker: on_stop(killed=true), at most one further handler)", if erased { "through one Box<dyn ActorControl>" } else { "on the ActorRef" }));
            }
            drop(ctl);
        }
        for what in ["stop", "tell", "kill"] {
            for erased in [false, true] {
                cases += 1;
                note(format!("refs: {what} on the last strong handle, drop it, upgrade a weak one at once (erased={erased})"));
                let log = Arc::new(Mutex::new(vec![]));
                let (r, jh) = spawn_with_mailbox_capacity::<B>((log.clone(), 0), 4);
                tokio::task::yield_now().await; // on_start has run
                let weak = r.downgrade();
                let wc: Box<dyn WeakActorControl> = ActorControl::downgrade(&r);
                match what {
                    "stop" => { let _ = r.stop().await; }
                    "tell" => { let _ = r.tell(W(5)).await; }
                    _ => { let _ = r.kill(); }
                }
                drop(r);
                // nothing has been polled since: the queued marker / envelope (or, for kill, nothing) is all that refers to the actor
                let (up, alive) = if erased { (wc.upgrade().is_some(), wc.is_alive()) } else { (weak.upgrade().is_some(), weak.is_alive()) };
                let expect = what != "kill";
                if what != "kill" && (!up || !alive) {
                    rep.v("C11 C07", format!("after {what}() on the last strong handle and its drop, with the {} still queued, upgrade() = {up} and is_alive() = {alive} on a weak handle (erased={erased}): a queued item refers to the actor, so both must be true", if what == "stop" { "stop marker" } else { "message" }));
                }
                let _ = expect;
                let res = tokio::time::timeout(Duration::from_secs(10), jh).await;
                match res {
                    Ok(Ok(r)) => {
                        if what == "kill" && !r.was_killed() {
                            rep.v("C06 C05 C04", "kill() then drop of the last reference: the kill signal was consumed (nothing else could end the actor: its mailbox is empty), yet the result says the actor was not killed".into());
                        }
                        if what != "kill" && r.was_killed() {
                            rep.v("C05 C04", format!("{what}() then drop of the last reference: the result says the actor was killed"));
                        }
                        if what == "tell" && !log.lock().unwrap().contains(&5) {
                            rep.v("C01 C07", "a message accepted before the last reference was dropped was never handled".into());
                        }
                    }
                    Ok(Err(e)) => rep.v("C07", format!("after {what}() and the drop of the last reference the actor's task failed: {e}")),
                    Err(_) => rep.v("C07", format!("after {what}() and the drop of the last reference the actor did not end within 10 s")),
                }
                if weak.upgrade().is_some() {
                    rep.v("C11", "upgrade() succeeded after the actor had ended and no strong reference was left".into());
                }
            }
        }
    });
    // identity and target travel together through every way of copying a handle
    rt.block_on(async {
        note("refs: identity through clone / clone_from / downgrade / upgrade / erased conversions between two actors".into());
        let la = Arc::new(Mutex::new(vec![]));
        let lb = Arc::new(Mutex::new(vec![]));
        let (a, _ja) = spawn_with_mailbox_capacity::<B>((la.clone(), 0), 4);
        let (b, _jb) = spawn_with_mailbox_capacity::<B>((lb.clone(), 0), 4);
        tokio::task::yield_now().await;
        let mut strong_slot = a.clone();
        strong_slot.clone_from(&b);
        let mut weak_slot = ActorRef::downgrade(&a);
        weak_slot.clone_from(&ActorRef::downgrade(&b));
        let mut vec_slots = vec![ActorRef::downgrade(&a)];
        vec_slots.clone_from(&vec![ActorRef::downgrade(&b)]);
        let erased: Box<dyn rsactor::TellHandler<W>> = (&b).into();
        let erased_weak = rsactor::TellHandler::downgrade(&*erased);
        let checks: Vec<(&str, rsactor::Identity, Option<ActorRef<B>>)> = vec![
            ("ActorRef::clone_from", ActorRef::identity(&strong_slot), Some(strong_slot.clone())),
            ("ActorWeak::clone_from", ActorWeak::identity(&weak_slot), ActorWeak::upgrade(&weak_slot)),
            ("Vec<ActorWeak>::clone_from", ActorWeak::identity(&vec_slots[0]), ActorWeak::upgrade(&vec_slots[0])),
            ("ActorRef::clone", ActorRef::identity(&b.clone()), Some(b.clone())),
            ("downgrade+upgrade", ActorWeak::identity(&ActorRef::downgrade(&b)), ActorWeak::upgrade(&ActorRef::downgrade(&b))),
        ];
        cases += checks.len() as u64 + 2;
        for (i, (what, id, target)) in checks.into_iter().enumerate() {
            if id != ActorRef::identity(&b) {
                rep.v("C11", format!("{what}: the handle reports identity {id:?} but it was copied from a handle of {:?}", ActorRef::identity(&b)));
            }
            match target {
                Some(t) => {
                    if ActorRef::identity(&t) != ActorRef::identity(&b) {
                        rep.v("C11", format!("{what}: upgrade()/clone of the handle reports identity {:?}, expected {:?}", ActorRef::identity(&t), ActorRef::identity(&b)));
                    }
                    let _ = t.ask(W(900 + i as u32)).await;
                }
                None => rep.v("C11", format!("{what}: the copied weak handle does not upgrade although its actor is alive and referenced")),
            }
        }
        if rsactor::TellHandler::as_control(&*erased).identity() != ActorRef::identity(&b) || erased_weak.as_weak_control().identity() != ActorRef::identity(&b) {
            rep.v("C11 C16", "a type-erased handle of b reports another identity".into());
        }
        let got_b = lb.lock().unwrap().iter().filter(|x| **x >= 900).count();
        let got_a = la.lock().unwrap().iter().filter(|x| **x >= 900).count();
        if got_b != 5 || got_a != 0 {
            rep.v("C11", format!("messages sent through handles copied from b: {got_b} reached b and {got_a} reached a (expected 5 and 0): identity and target must travel together"));
        }
        let _ = a.kill();
        let _ = b.kill();
    });
    rep.s("refs", format!("cases={cases}"));
}

fn main() {
    harness::quiet_panics();
    let args: Vec<String> = std::env::args().collect();
    let mut scenarios = vec!["askjoin".to_string(), "late".to_string()];
    let mut secs = 10u64;
    let mut report = None;
    let mut i = 1;
    while i < args.len() {
        match args[i].as_str() {
            "--scenario" => { scenarios = args[i + 1].split(',').map(|s| s.to_string()).collect(); i += 1 }
            "--seconds" => { secs = args[i + 1].parse().unwrap(); i += 1 }
            "--seed" => { MIX_SEED.store(args[i + 1].parse().unwrap_or(1), SeqCst); i += 1 }
            "--report" => { report = Some(args[i + 1].clone()); i += 1 }
            o => panic!("unknown argument {o}"),
        }
        i += 1;
    }
    let mut rep = Report::default();
    for s in &scenarios {
        // every scenario runs on its own thread under a watchdog: code under test that makes a scenario wait
        // forever must end in a verdict, not in a hung check
        let (props, budget) = match s.as_str() {
            "hammer" => ("C01 C02 C03 C06", secs + 180),
            "mix" => ("C01 C02 C03 C04 C05 C06 C07 C13", secs + 240),
            "askjoin" => ("C03", 180),
            "late" => ("C01 C10", 360),
            "cancel" => ("C02 C01 C09 C07 C08", 240),
            "backlog" => ("C01 C02 C04 C07 C08", 600),
            "replyclose" => ("C13 C03", 120),
            "hookpanic" => ("C04 C12 C05", 240),
            "selfchain" => ("C01 C07 C11 C05", 240),
            "afterend" => ("C11 C03", 240),
            "queuedask" => ("C03 C06 C11 C01 C07 C13", 240),
            "cyclerace" => ("C14", 600),
            "slowlog" => ("C14 C15", 900),
            "stale" => ("C01 C09 C10 C07", 240),
            "killdrop" => ("C06", 600),
            "dlrace" => ("C13", 120),
            "metabort" => ("C20", 120),
            "erasedblk" => ("C16 C17", 600),
            "blocking" => ("C17 C10 C03", 720),
            "ids" => ("C11", 120),
            "idlewin" => ("C08 C03", 900),
            "lazyfut" => ("C16", 120),
            "refs" => ("C11 C07", 120),
            o => panic!("unknown scenario {o}"),
        };
        note(format!("{s}: starting"));
        let (tx, rx) = std::sync::mpsc::channel();
        let name = s.clone();
        std::thread::spawn(move || {
            let mut r = Report::default();
            // scenarios that measure wall-clock deadlines are repeated when they complain: a defect in the crate
            // fails every time, a stall of this machine does not (a violation is reported only if three
            // consecutive fresh runs of the scenario all produce one)
            let attempts = if matches!(name.as_str(), "late" | "blocking" | "erasedblk") { 3 } else { 1 };
            for attempt in 1..=attempts {
                r = Report::default();
                match name.as_str() {
                    "hammer" => hammer(secs, &mut r),
                    "mix" => mix(secs, &mut r),
                    "askjoin" => askjoin(&mut r),
                    "late" => late(&mut r),
                    "cancel" => cancel(&mut r),
                    "backlog" => backlog(&mut r),
                    "replyclose" => replyclose(&mut r),
                    "hookpanic" => hookpanic(&mut r),
                    "selfchain" => selfchain(&mut r),
                    "afterend" => afterend(&mut r),
                    "queuedask" => queuedask(&mut r),
                    "cyclerace" => cyclerace(&mut r),
                    "slowlog" => slowlog(secs, &mut r),
                    "stale" => stale(&mut r),
                    "killdrop" => killdrop(secs, &mut r),
                    "dlrace" => dlrace(&mut r),
                    "metabort" => metabort(&mut r),
                    "erasedblk" => erasedblk(&mut r),
                    "blocking" => blocking(&mut r),
                    "ids" => ids(&mut r),
                    "idlewin" => idlewin(&mut r),
                    "refs" => refs(&mut r),
                    _ => lazyfut(&mut r),
                }
                if r.violations.is_empty() {
                    break;
                }
                if attempt < attempts {
                    eprintln!("stress: scenario {name} reported {} violation(s) on attempt {attempt}; repeating", r.violations.len());
                } else if attempts > 1 {
                    for v in r.violations.iter_mut() {
                        v.1 = format!("{} [in each of {attempts} consecutive runs of the scenario]", v.1);
                    }
                }
            }
            let _ = tx.send(r);
        });
        match rx.recv_timeout(Duration::from_secs(budget)) {
            Ok(r) => {
                rep.violations.extend(r.violations);
                rep.stats.extend(r.stats);
            }
            Err(_) => {
                let at = NOTE.lock().unwrap().clone();
                rep.v(props, format!("scenario `{s}` did not finish within {budget} s: an operation of the crate under test never returned; it was at: {at}"));
                break;
            }
        }
    }
    let text = format!(
        "{{\"scenarios\":[{}],\"violations\":[{}],\"stats\":{{{}}}}}",
        scenarios.iter().map(|s| jstr(s)).collect::<Vec<_>>().join(","),
        rep.violations.iter().map(|(p, w)| format!("{{\"props\":{},\"what\":{}}}", jstr(p), jstr(w))).collect::<Vec<_>>().join(","),
        rep.stats.iter().map(|(k, v)| format!("{}:{}", jstr(k), jstr(v))).collect::<Vec<_>>().join(",")
    );
    match report {
        Some(p) => std::fs::write(p, &text).unwrap(),
        None => println!("{text}"),
    }
    eprintln!("stress: violations={}", rep.violations.len());
    std::process::exit(if rep.violations.is_empty() { 0 } else { 3 });
}
