//! netdump: multi-actor programs WITHOUT ask cycles (handlers only ask peers with a higher index), run
//! on whatever feature set this harness was built with; prints the history with the feature-specific
//! lines (wait-for graph snapshot, lock poison probe) removed.  Two builds must print the same text (C18).
//!
//! netdump --seed <n> --n <count> --out <file>
use harness::net::{history_oracles, run_with, NetGen};

fn main() {
    harness::quiet_panics();
    let args: Vec<String> = std::env::args().collect();
    let (mut seed, mut n, mut out) = (1u64, 100usize, None);
    let mut general = 0usize;
    let mut i = 1;
    while i < args.len() {
        match args[i].as_str() {
            "--seed" => { seed = args[i + 1].parse().unwrap(); i += 1 }
            "--n" => { n = args[i + 1].parse().unwrap(); i += 1 }
            "--out" => { out = Some(args[i + 1].clone()); i += 1 }
            "--general" => { general = args[i + 1].parse().unwrap(); i += 1 }
            o => panic!("unknown argument {o}"),
        }
        i += 1;
    }
    let mut text = String::new();
    let (mut asks, mut lines) = (0u64, 0u64);
    let verbose = std::env::var("NETDUMP_VERBOSE").is_ok();
    for k in 0..(n + general) {
        if verbose {
            eprintln!("netdump: program {k}");
        }
        let s = seed.wrapping_mul(1_000_003).wrapping_add(k as u64);
        // the first n programs cannot form an ask cycle by construction; the others ("general") may, and are
        // compared only when the build with detection saw no (justified) deadlock
        let acyclic = k < n;
        let mut g = if acyclic { NetGen::new_acyclic(s) } else { NetGen::new(s) };
        g.joins = k % 3 == 2;
        if !acyclic {
            g.back = 12;
        }
        let o = run_with(|n, w| g.next(n, w));
        text.push_str(&format!("trace net-{}:{s}\n", if acyclic { "acyclic" } else { "general" }));
        if cfg!(feature = "deadlock") {
            let had = o.trace.iter().any(|l| l.starts_with("N joined") && l.contains(" deadlock"));
            let bad = history_oracles(&o.trace, acyclic);
            match (had, bad.first()) {
                (_, Some(b)) => text.push_str(&format!("#verdict violation {b}\n")),
                (true, None) => text.push_str("#verdict justified-deadlock\n"),
                (false, None) => text.push_str("#verdict cycle-free\n"),
            }
        }
        for l in &o.script {
            text.push_str(&format!("# {l}\n"));
        }
        for l in &o.trace {
            if l.starts_with("N graph") || l.starts_with("N poisoned") {
                continue;
            }
            if l.contains(" ask ") || l.contains("askIssued") {
                asks += 1;
            }
            lines += 1;
            text.push_str(l);
            text.push('\n');
        }
        text.push_str("endtrace\n");
    }
    match out {
        Some(p) => std::fs::write(p, &text).unwrap(),
        None => print!("{text}"),
    }
    eprintln!("netdump: programs={n} lines={lines} ask-lines={asks} deadlock_detection={}", cfg!(feature = "deadlock"));
}
