//! netdump: multi-actor programs WITHOUT ask cycles (handlers only ask peers with a higher index), run
//! on whatever feature set this harness was built with; prints the history with the feature-specific
//! lines (wait-for graph snapshot, lock poison probe) removed.  Two builds must print the same text (C18).
//!
//! netdump --seed <n> --n <count> --out <file>
use harness::net::{run_with, NetGen};

fn main() {
    harness::quiet_panics();
    let args: Vec<String> = std::env::args().collect();
    let (mut seed, mut n, mut out) = (1u64, 100usize, None);
    let mut i = 1;
    while i < args.len() {
        match args[i].as_str() {
            "--seed" => { seed = args[i + 1].parse().unwrap(); i += 1 }
            "--n" => { n = args[i + 1].parse().unwrap(); i += 1 }
            "--out" => { out = Some(args[i + 1].clone()); i += 1 }
            o => panic!("unknown argument {o}"),
        }
        i += 1;
    }
    let mut text = String::new();
    let (mut asks, mut lines) = (0u64, 0u64);
    for k in 0..n {
        let s = seed.wrapping_mul(1_000_003).wrapping_add(k as u64);
        let mut g = NetGen::new_acyclic(s);
        let o = run_with(|n, w| g.next(n, w));
        text.push_str(&format!("trace net-acyclic:{s}\n"));
        for l in &o.script {
            text.push_str(&format!("# {l}\n"));
        }
        for l in &o.trace {
            if l.starts_with("N graph") || l.starts_with("N poisoned") {
                continue;
            }
            if l.contains(" ask ") || l.contains("askIssued") {
                asks += 1;
            }
            lines += 1;
            text.push_str(l);
            text.push('\n');
        }
        text.push_str("endtrace\n");
    }
    match out {
        Some(p) => std::fs::write(p, &text).unwrap(),
        None => print!("{text}"),
    }
    eprintln!("netdump: programs={n} lines={lines} ask-lines={asks} deadlock_detection={}", cfg!(feature = "deadlock"));
}
