#!/bin/bash
# entry point: run.sh <setup|quick|thorough|replay> [<Cxx>|<replay-file>]
set -u
cd "$(dirname "$0")"
export CARGO_NET_OFFLINE=true
REPO="${VERIF_REPO:-/repo}"
case "${1:-}" in
  setup)
    set -e
    mkdir -p build evidence replays
    (cd tools/extract && cargo build --release --offline)
    tools/extract/target/release/extract "$REPO" lean/Rsactor/Extracted.lean build/extract.json
    (cd lean && lake build Rsactor driver)
    sed "s#@REPO@#$REPO#" harness/Cargo.toml.in > harness/Cargo.toml
    [ -f harness/Cargo.lock ] || cp "$REPO/Cargo.lock" harness/Cargo.lock
    (cd harness && cargo build --release --offline)
    (cd harness && CARGO_TARGET_DIR=target-feat cargo build --release --offline --features deadlock,metrics,testutils,rstracing)
    sed "s#@REPO@#$REPO#" macrocorpus/Cargo.toml.in > macrocorpus/Cargo.toml
    [ -f macrocorpus/Cargo.lock ] || cp "$REPO/Cargo.lock" macrocorpus/Cargo.lock
    (cd macrocorpus && cargo build --offline --lib)
    ;;
  quick|thorough)
    exec python3 tools/check.py "$1" "$2"
    ;;
  replay)
    exec python3 tools/check.py replay "$2"
    ;;
  *)
    echo "usage: run.sh <setup|quick|thorough|replay> [<Cxx>|<replay-file>]"; exit 2;;
esac
