/-
  Shape lemmas: facts about the tables the extractor regenerates from the source on every run.
  Each is discharged by `decide` / `rfl` on the *current* extraction; a source change that alters a
  table makes the lemma false, the build fails at that lemma, and the lemma's name identifies the
  broken obligation.  The hand-written model is valid for the code only while these hold.
  One module per lemma, so that a property only depends on the shapes it uses.
-/
import Rsactor.Ties.select_order
import Rsactor.Ties.lifecycle_arms
import Rsactor.Ties.send_paths_shape
import Rsactor.Ties.timeout_wrappers_shape
import Rsactor.Ties.kill_stop_shape
import Rsactor.Ties.reply_wait_shape
import Rsactor.Ties.handle_message_shape
import Rsactor.Ties.dead_letter_census
import Rsactor.Ties.blocking_dispatch_shape
import Rsactor.Ties.handle_algebra_shape
import Rsactor.Ties.forwarders_verbatim
import Rsactor.Ties.forwarders_strength
import Rsactor.Ties.conversions_shape
import Rsactor.Ties.spawn_shape
import Rsactor.Ties.metrics_guard_shape
import Rsactor.Ties.metrics_placement_shape
import Rsactor.Ties.feature_sites_shape
import Rsactor.Ties.macro_options_shape
import Rsactor.Ties.macro_templates_shape
import Rsactor.Ties.ask_protocol_shape
import Rsactor.Ties.ask_join_shape
