/- Shape lemma about a table the extractor regenerates from the source on every run (see Rsactor/Ties.lean). -/
import Rsactor.Extracted

namespace Rsactor.Ties
open Rsactor.Extracted

/-- the ask-side protocol: the caller is read from the task-local (none ⇒ untracked); the check
    `caller == callee || has_path(callee, caller)` and the insertion happen under one lock; the lock is
    released before the deliberate panic; the reply sender clears the asker's edge (token-matched) before it
    sends and the asker-side guard clears it on every other exit; all four hooks run inside the scope -/
theorem ask_protocol_shape :
    ask_reads_task_local = true ∧ ask_untracked_without_context = true ∧
    ask_check_and_insert_under_one_lock = true ∧ ask_checks_self_or_path_callee_to_caller = true ∧
    ask_unlocks_before_panic = true ∧ edge_removed_at_reply = true ∧ guard_removes_on_drop = true ∧
    hook_scopes_awaited = 5 ∧ on_run_scoped = 1 := by decide

end Rsactor.Ties
