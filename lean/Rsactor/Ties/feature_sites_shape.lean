/- Shape lemma about a table the extractor regenerates from the source on every run (see Rsactor/Ties.lean). -/
import Rsactor.Extracted

namespace Rsactor.Ties
open Rsactor.Extracted

/-- what each feature condition may gate: spans, instrument attributes and log lines for `tracing`
    (with the `Span::none()` twin for its negation); the collector, its plumbing, read-only accessors and the
    one guard for `metrics`; the detector's items, the scope wrappers, the ask guard and the reply wrapper for
    `deadlock-detection` (plain future / plain sender for its negation); the dead-letter counter for `test-utils` -/
def allowed : Feat → SiteKind → Bool
  | .tracing, .instrument | .tracing, .use_ | .tracing, .log | .tracing, .span | .tracing, .clock
  | .tracing, .logMatch => true
  | .notTracing, .spanNone => true
  | .metrics, .modDecl | .metrics, .use_ | .metrics, .field | .metrics, .fieldInit | .metrics, .collectorNew
  | .metrics, .accessor | .metrics, .guardRef | .metrics, .guard => true
  | .deadlock, .use_ | .deadlock, .item | .deadlock, .scope | .deadlock, .askGuard | .deadlock, .replyWrap => true
  | .notDeadlock, .replyAlias | .notDeadlock, .scopeNone => true
  | .testUtils, .use_ | .testUtils, .counter | .testUtils, .counterBump | .testUtils, .accessor => true
  | _, _ => false

def nSites (f : Feat) (k : SiteKind) : Nat := (feature_sites.filter (fun p => p.1 == f && p.2 == k)).length

/-- every feature-gated site of src/*.rs is of a known additive kind; spans come in feature / not-feature
    pairs; there is one metrics guard, two scope wrappers, one ask-side guard, the two reply wrappers, one
    counter bump, and the detector consists of the eleven known items; log arguments call only pure accessors -/
theorem feature_sites_shape :
    feature_sites.all (fun p => allowed p.1 p.2) = true ∧
    nSites .tracing .span = nSites .notTracing .spanNone ∧
    nSites .metrics .guard = 1 ∧ nSites .metrics .guardRef = 1 ∧ nSites .metrics .collectorNew = 1 ∧
    nSites .deadlock .scope = 2 ∧ nSites .notDeadlock .scopeNone = 2 ∧
    nSites .deadlock .askGuard = 1 ∧ nSites .deadlock .replyWrap = 2 ∧ nSites .notDeadlock .replyAlias = 1 ∧
    nSites .deadlock .item = 11 ∧ nSites .testUtils .counterBump = 1 ∧
    feature_log_args_impure = 0 := by decide

end Rsactor.Ties
