/- Shape lemma about a table the extractor regenerates from the source on every run (see Rsactor/Ties.lean). -/
import Rsactor.Extracted

namespace Rsactor.Ties
open Rsactor.Extracted

/-- strong traits are implemented by ActorRef only, weak traits by ActorWeak only -/
theorem forwarders_strength :
    forwarders.all (fun (_, _, _, _, wtr, wty) => wtr == wty) = true := by decide

end Rsactor.Ties
