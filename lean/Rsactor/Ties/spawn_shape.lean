/- Shape lemma about a table the extractor regenerates from the source on every run (see Rsactor/Ties.lean). -/
import Rsactor.Extracted

namespace Rsactor.Ties
open Rsactor.Extracted

/-- ids come from one atomic counter starting at 1, stepping by 1; the task gets a clone of the reference -/
theorem spawn_shape : actor_id_start = 1 ∧ actor_id_step = 1 ∧ spawn_task_gets_clone = true ∧ term_chan_cap = 1 := by decide

end Rsactor.Ties
