/- Shape lemma about a table the extractor regenerates from the source on every run (see Rsactor/Ties.lean). -/
import Rsactor.Extracted

namespace Rsactor.Ties
open Rsactor.Extracted

/-- kill() maps sent / full / closed to Ok; stop() maps sent / closed to Ok; the control channel holds one signal -/
theorem kill_stop_shape :
    kill_arms = [("sent", true), ("full", true), ("closed", true)] ∧
    stop_arms = [("sent", true), ("closed", true)] ∧ term_chan_cap = 1 := by decide

end Rsactor.Ties
