/- Shape lemma about a table the extractor regenerates from the source on every run (see Rsactor/Ties.lean). -/
import Rsactor.Extracted

namespace Rsactor.Ties
open Rsactor.Extracted

/-- ask_join is `ask`, then awaiting the returned JoinHandle, mapping only a JoinError: it returns
    exactly the spawned task's output or its join error, whatever happens to the actor meanwhile -/
theorem ask_join_shape : ask_join_is_ask_then_join = true := by decide

end Rsactor.Ties
