/- Shape lemma about a table the extractor regenerates from the source on every run (see Rsactor/Ties.lean). -/
import Rsactor.Extracted

namespace Rsactor.Ties
open Rsactor.Extracted

/-- dead-letter census: every record call sits in a block that builds exactly one error, of the variant
    matching the reason, with a label of the method's family; ten sites, at the ten failing branches of src/actor_ref.rs, and none anywhere else in the crate; the recorder itself is unconditional (counter bump, one warn! event) -/
theorem dead_letter_census :
    dead_letter_sites.map (fun (f, r, _, errs, fam) => (f, r, errs, fam)) =
      [("tell", "ActorStopped", ["Send"], true), ("tell_with_timeout", "Timeout", ["Timeout"], true),
       ("ask", "ActorStopped", ["Send"], true), ("ask", "ReplyDropped", ["Receive"], true),
       ("ask_with_timeout", "Timeout", ["Timeout"], true),
       ("blocking_tell_no_timeout", "ActorStopped", ["Send"], true),
       ("blocking_tell_with_timeout_impl", "Timeout", ["Timeout"], true),
       ("blocking_ask_no_timeout", "ActorStopped", ["Send"], true),
       ("blocking_ask_no_timeout", "ReplyDropped", ["Receive"], true),
       ("blocking_ask_with_timeout_impl", "Timeout", ["Timeout"], true)] ∧
    dead_letter_sites_elsewhere = 0 ∧ dead_letter_record_unconditional = true := ⟨rfl, rfl, rfl⟩

end Rsactor.Ties
