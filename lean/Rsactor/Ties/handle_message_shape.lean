/- Shape lemma about a table the extractor regenerates from the source on every run (see Rsactor/Ties.lean). -/
import Rsactor.Extracted

namespace Rsactor.Ties
open Rsactor.Extracted

/-- the handler wrapper answers on the envelope's own channel and calls on_tell_result only for tells -/
theorem handle_message_shape :
    handle_calls_handler_once = true ∧ reply_sent_on_own_channel = true ∧
    on_tell_result_only_without_reply_channel = true := by decide

end Rsactor.Ties
