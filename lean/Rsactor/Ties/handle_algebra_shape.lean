/- Shape lemma about a table the extractor regenerates from the source on every run (see Rsactor/Ties.lean). -/
import Rsactor.Extracted

namespace Rsactor.Ties
open Rsactor.Extracted

/-- liveness predicates and identity copying -/
theorem handle_algebra_shape :
    strong_is_alive_both_open = true ∧ weak_is_alive_both_counts = true ∧ upgrade_needs_both_senders = true ∧
    downgrade_copies_id_and_weakens_both = true ∧ clone_copies_id_strong = true ∧ clone_copies_id_weak = true ∧
    identity_returns_id = true := by decide

end Rsactor.Ties
