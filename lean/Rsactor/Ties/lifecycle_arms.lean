/- Shape lemma about a table the extractor regenerates from the source on every run (see Rsactor/Ties.lean). -/
import Rsactor.Extracted

namespace Rsactor.Ties
open Rsactor.Extracted

/-- every exit arm has the shape the model gives it -/
theorem lifecycle_arms :
    lifecycle.termKilledOnSignal = true ∧ lifecycle.termNotKilledOnClosed = true ∧
    lifecycle.termOnStopWithFlag = true ∧ lifecycle.termFailShape = true ∧ lifecycle.termBreaks = true ∧
    lifecycle.mailHandlesInline = true ∧ lifecycle.mailStopOrClosedArm = true ∧ lifecycle.mailRechecksKill = true ∧ lifecycle.mailOnStopWithFlag = true ∧
    lifecycle.mailFailShape = true ∧ lifecycle.mailBreaks = true ∧ lifecycle.runTrueContinues = true ∧
    lifecycle.runFalseDisables = true ∧ lifecycle.runErrOnStopFalse = true ∧ lifecycle.runErrPhases = true ∧
    lifecycle.runErrFailShape = true ∧ lifecycle.startFailShape = true ∧ lifecycle.dropsOwnRefAfterStart = true ∧
    lifecycle.closesBothAfterLoop = true ∧ lifecycle.completedShape = true ∧ lifecycle.initFlags = true ∧
    lifecycle.onStopCallSites = 3 := by decide

end Rsactor.Ties
