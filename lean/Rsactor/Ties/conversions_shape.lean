/- Shape lemma about a table the extractor regenerates from the source on every run (see Rsactor/Ties.lean). -/
import Rsactor.Extracted

namespace Rsactor.Ties
open Rsactor.Extracted

/-- From conversions box the value itself (cloned when taken by reference) and never change strength -/
theorem conversions_shape :
    conversions.all (fun (_, _, srcWeak, dstWeak, ok) => ok && (srcWeak == dstWeak)) = true ∧
    conversions.length = 12 := by decide

end Rsactor.Ties
