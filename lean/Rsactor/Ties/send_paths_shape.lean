/- Shape lemma about a table the extractor regenerates from the source on every run (see Rsactor/Ties.lean). -/
import Rsactor.Extracted

namespace Rsactor.Ties
open Rsactor.Extracted

/-- every push site builds an envelope (or stop marker) that embeds a strong reference, uses the one
    mailbox sender with a waiting send, and asks carry a fresh oneshot -/
theorem send_paths_shape :
    send_paths.map (·.method) = ["tell", "ask", "stop", "blocking_tell_no_timeout", "blocking_ask_no_timeout"] ∧
    send_paths.all (fun p => p.embedsStrongRef && p.freshOneshot) = true ∧
    send_paths.all (fun p => p.replyChannel == (p.kind == .ask)) = true ∧
    (send_paths.filter (fun p => p.call == .send)).map (·.method) = ["tell", "ask", "stop"] := by decide

end Rsactor.Ties
