/- Shape lemma about a table the extractor regenerates from the source on every run (see Rsactor/Ties.lean). -/
import Rsactor.Extracted

namespace Rsactor.Ties
open Rsactor.Extracted

/-- the one metrics guard of the crate is created in the envelope arm of the actor loop, straight before
    the handler call (nothing in between can leave the arm or suspend), on the actor's own collector, and
    lives to the end of the arm; the stop-marker arm has none -/
theorem metrics_placement_shape :
    metrics_guard_sites = 1 ∧ metrics_guard_before_handler_in_envelope_arm = true ∧
    metrics_guard_lives_to_arm_end = true ∧ metrics_guard_straight_to_handler = true := by decide

end Rsactor.Ties
