/- Shape lemma about a table the extractor regenerates from the source on every run (see Rsactor/Ties.lean). -/
import Rsactor.Extracted

namespace Rsactor.Ties
open Rsactor.Extracted

/-- deprecated aliases ignore their timeout; the dispatchers pick the right path -/
theorem blocking_dispatch_shape : blocking_dispatch.all (·.2) = true ∧ blocking_dispatch.length = 4 := by decide

end Rsactor.Ties
