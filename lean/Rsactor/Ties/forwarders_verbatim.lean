/- Shape lemma about a table the extractor regenerates from the source on every run (see Rsactor/Ties.lean). -/
import Rsactor.Extracted

namespace Rsactor.Ties
open Rsactor.Extracted

/-- every method of the six erased traits forwards verbatim to the inherent method; 28 forwarders -/
theorem forwarders_verbatim : forwarders.all (fun (_, _, _, ok, _, _) => ok) = true ∧ forwarders.length = 28 := by decide

end Rsactor.Ties
