/- Shape lemma about a table the extractor regenerates from the source on every run (see Rsactor/Ties.lean). -/
import Rsactor.Extracted

namespace Rsactor.Ties
open Rsactor.Extracted

/-- the select is biased and polls termination, then the mailbox, then on_run guarded by the idle flag -/
theorem select_order : lifecycle.biased = true ∧ lifecycle.order = [.term, .mail, .run] ∧
    lifecycle.guards = ["", "", "idle_enabled"] := by decide

end Rsactor.Ties
