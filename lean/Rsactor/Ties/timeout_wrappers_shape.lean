/- Shape lemma about a table the extractor regenerates from the source on every run (see Rsactor/Ties.lean). -/
import Rsactor.Extracted

namespace Rsactor.Ties
open Rsactor.Extracted

/-- the timeout wrappers wrap the complete inner future with the caller's duration, map only the
    elapsed branch to Timeout and let inner errors through -/
theorem timeout_wrappers_shape :
    timeout_wrappers = [("tell_with_timeout", "tell", true, true, true, true, true),
                        ("ask_with_timeout", "ask", true, true, true, true, true),
                        ("blocking_tell_with_timeout_impl", "tell", true, true, true, true, true),
                        ("blocking_ask_with_timeout_impl", "ask", true, true, true, true, true)] ∧
    timeout_wrappers_exact = [true, true] := ⟨rfl, rfl⟩

end Rsactor.Ties
