/- Shape lemma about a table the extractor regenerates from the source on every run (see Rsactor/Ties.lean). -/
import Rsactor.Extracted

namespace Rsactor.Ties
open Rsactor.Extracted

/-- the reply wait also watches the mailbox being closed (the repair of the stranded-envelope hang) -/
theorem reply_wait_shape : ask_wait_watches_closed = true ∧ blocking_ask_wait_watches_closed = true := by decide

end Rsactor.Ties
