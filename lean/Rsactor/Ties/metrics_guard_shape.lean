/- Shape lemma about a table the extractor regenerates from the source on every run (see Rsactor/Ties.lean). -/
import Rsactor.Extracted

namespace Rsactor.Ties
open Rsactor.Extracted

/-- the metrics guard records exactly once, on drop, with the elapsed time -/
theorem metrics_guard_shape :
    guard_drop_record_calls = 1 ∧ guard_drop_uses_elapsed = true ∧ guard_new_record_calls = 0 := by decide

end Rsactor.Ties
