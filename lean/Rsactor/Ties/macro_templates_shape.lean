/- Shape lemma about a table the extractor regenerates from the source on every run (see Rsactor/Ties.lean). -/
import Rsactor.Extracted

namespace Rsactor.Ties
open Rsactor.Extracted

/-- the `quote!` templates: `type Reply = <declared return type or ()>`; `handle` is
    `self.<method>(msg, actor_ref).await` with the actor's generics and where clause; the generated
    `on_tell_result` is `if let Err(ref e) = result { tracing::error!(..) }` and nothing else;
    `#[derive(Actor)]` gives `Args = Self`, `Error = Infallible`, `on_start = Ok(args)` for structs and enums
    with the type's own generics; the original impl block is kept (minus the `#[handler]` attributes) -/
theorem macro_templates_shape :
    tpl_reply_is_return_type = true ∧ tpl_handle_calls_method = true ∧ tpl_on_tell_result_logs_err_only = true ∧
    tpl_derive_actor = true ∧ tpl_keeps_original_impl = true := by decide

end Rsactor.Ties
