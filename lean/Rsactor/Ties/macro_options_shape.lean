/- Shape lemma about a table the extractor regenerates from the source on every run (see Rsactor/Ties.lean). -/
import Rsactor.Extracted

namespace Rsactor.Ties
open Rsactor.Extracted

/-- `parse_handler_options`: the bare path form is accepted with both flags false; inside a list `result`
    sets force_result, `no_log` sets no_log, anything else is an error; every other attribute form is an
    error; both flags together are an error; and only methods marked `#[handler]` get an impl -/
theorem macro_options_shape :
    opt_path_form_accepted = true ∧ opt_list_result_no_log_else_error = true ∧ opt_other_forms_rejected = true ∧
    opt_exclusive_checked = true ∧ opt_defaults_false = true ∧ only_handler_marked_methods = true := by decide

end Rsactor.Ties
