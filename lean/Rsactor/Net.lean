/-
  The wait-for protocol between actors (deadlock detection), as a labelled transition system over
  the asks issued from inside hooks.  Mailboxes are abstracted away: what matters is the life of
  each ask (in flight → answered → resumed, or abandoned / lost) and what the code does to the
  wait-for map at each of those moments.  The decision functions are the ones translated from
  src/lib.rs (`Extracted.has_path`, `Extracted.format_cycle_path`); where the edge is removed is
  read from the source (`Extracted.edge_removed_at_reply`).
-/
import Rsactor.Basic
import Rsactor.Extracted

namespace Rsactor.Net
open Rsactor Rsactor.Extracted

inductive AskSt
  | none
  | inflight    -- sent, unanswered, the asker is waiting
  | lost        -- the callee died with the envelope unanswered; the asker has not resumed yet
  | answered    -- the reply was sent; the asker has not resumed yet
  | abandoned   -- the asker gave up (timeout / cancellation / its own panic); the envelope may still be answered
  | done
  deriving DecidableEq, Repr, Inhabited

structure AskRec where
  caller : Nat := 0
  callee : Nat := 0
  st : AskSt := .none
  deriving DecidableEq, Repr, Inhabited

inductive NEv
  | asked (a b tok : Nat)
  | deadlock (a b : Nat) (path : List Nat)
  | replied (tok : Nat)
  | resumed (tok : Nat)
  | gaveUp (tok : Nat)
  | died (y : Nat)
  deriving DecidableEq, Repr

structure Net where
  graph : Graph := []                       -- caller ↦ callee
  tokOf : Nat → Nat := fun _ => 0           -- caller ↦ token of its edge
  asks : Nat → AskRec := fun _ => {}        -- by token
  busy : Nat → Option Nat := fun _ => none  -- the ask an actor's hook is currently awaiting
  dead : Nat → Bool := fun _ => false
  nextTok : Nat := 1
  ev : List NEv := []

inductive NLabel
  | ask (a b : Nat)          -- a hook of actor a calls b.ask(..)
  | reply (tok : Nat)        -- the callee's handler finished: the reply is sent
  | resume (tok : Nat)       -- the asker's ask future completes (reply, or Receive after the callee died)
  | giveUp (tok : Nat)       -- timeout / cancellation of the ask future
  | die (y : Nat)            -- actor y ends (any cause); its own ask future is dropped first
  deriving DecidableEq, Repr

def setN {β : Type} (f : Nat → β) (k : Nat) (v : β) : Nat → β := fun x => if x = k then v else f x

/-- `clear_wait_for(caller, token)`: remove the caller's edge if it still belongs to that ask -/
def clear (n : Net) (caller tok : Nat) : Net :=
  if (n.graph.get? caller).isSome ∧ n.tokOf caller = tok then { n with graph := n.graph.remove caller } else n

/-- asks in flight to `y` are lost when `y` dies -/
def loseTo (asks : Nat → AskRec) (y : Nat) : Nat → AskRec :=
  fun t => if (asks t).callee = y ∧ (asks t).st = .inflight then { asks t with st := .lost } else asks t

/-- the protocol with explicit switches: is the asker's edge cleared when the reply is sent; does the
    asker-side guard clear it when the ask future ends -/
def stepWith (atReply guard : Bool) (n : Net) : NLabel → Option Net
  | .ask a b =>
    if n.dead a = true ∨ (n.busy a).isSome then none
    else if a == b || has_path n.graph b a then
      -- the ask that would close the cycle panics instead of waiting: actor a ends
      let n' : Net := { n with ev := n.ev ++ [.deadlock a b (format_cycle_path n.graph a b)] }
      some { n' with dead := setN n'.dead a true, asks := loseTo n'.asks a, ev := n'.ev ++ [.died a] }
    else if n.dead b = true then
      -- edge inserted, send fails at once, guard dropped: no net effect on the map
      some { n with ev := n.ev ++ [.asked a b 0] }
    else
      let t := n.nextTok
      some { n with graph := n.graph.insert a b, tokOf := setN n.tokOf a t,
                    asks := setN n.asks t ⟨a, b, .inflight⟩, busy := setN n.busy a (some t),
                    nextTok := t + 1, ev := n.ev ++ [.asked a b t] }
  | .reply t =>
    match (n.asks t).st with
    | .inflight =>
      let n' := if atReply then clear n (n.asks t).caller t else n
      some { n' with asks := setN n'.asks t { n'.asks t with st := .answered }, ev := n'.ev ++ [.replied t] }
    | .abandoned =>
      -- nobody listens; `ReplySender::send` still calls clear_wait_for with this ask's token (a no-op in every
      -- reachable state: `Inv/NetInv.lean`, `clear_stale`)
      let n' := if atReply then clear n (n.asks t).caller t else n
      some { n' with ev := n'.ev ++ [.replied t] }
    | _ => none
  | .resume t =>
    match (n.asks t).st with
    | .answered | .lost =>
      let a := (n.asks t).caller
      let n' := if guard then clear n a t else n
      some { n' with asks := setN n'.asks t { n'.asks t with st := .done }, busy := setN n'.busy a none,
                     ev := n'.ev ++ [.resumed t] }
    | _ => none
  | .giveUp t =>
    match (n.asks t).st with
    | .inflight | .lost | .answered =>
      let a := (n.asks t).caller
      let n' := if guard then clear n a t else n
      some { n' with asks := setN n'.asks t { n'.asks t with st := .abandoned }, busy := setN n'.busy a none,
                     ev := n'.ev ++ [.gaveUp t] }
    | _ => none
  | .die y =>
    if n.dead y = true then none
    else
      -- unwinding drops y's own ask future (and its guard) before its receivers
      let n1 : Net :=
        match n.busy y with
        | some t =>
          let n' := if guard then clear n y t else n
          { n' with asks := setN n'.asks t { n'.asks t with st := .abandoned }, busy := setN n'.busy y none }
        | none => n
      some { n1 with dead := setN n1.dead y true, asks := loseTo n1.asks y, ev := n1.ev ++ [.died y] }

/-- the protocol as the source implements it (switches read from the source on every run) -/
def step? (n : Net) (l : NLabel) : Option Net := stepWith edge_removed_at_reply guard_removes_on_drop n l

def run? (n : Net) : List NLabel → Option Net
  | [] => some n
  | l :: ls => match step? n l with
    | none => none
    | some n' => run? n' ls

def init : Net := {}

end Rsactor.Net
