/-
  `Exec`: a deterministic label-chooser over `Model.step?` that mirrors "let the paused
  single-thread runtime run until every task is blocked".  It is a scheduling *policy*: every
  state it produces is a `run?` of the labels it chose (`settle_is_run`), so every theorem proved
  for all label lists holds for everything the driver prints.
-/
import Rsactor.Model

namespace Rsactor.Exec
open Rsactor.Model

def blockedAtGate (s : Sys) : Bool :=
  s.gatePermits == 0 &&
  (match s.pc with
   | .starting => true
   | .inHandler _ _ => true
   | .stopping _ _ _ => true
   | .parked => s.runLive
   | _ => false)

def actorLabel (s : Sys) : Option Label :=
  match s.pc with
  | .starting => if 0 < s.gatePermits then some .startDone else none
  | .selTerm => some .pollTerm
  | .selMail => some .pollMail
  | .selRun => some .pollRun
  | .parked =>
    if s.termSlot || s.strongCount == 0 || !s.mbox.isEmpty || (s.runLive && 0 < s.gatePermits)
    then some .wake else none
  | .inHandler _ _ => if 0 < s.gatePermits then some .handlerDone else none
  | .stopping _ _ _ => if 0 < s.gatePermits then some .stopDone else none
  | .ended => none

def clientLabel (s : Sys) (oid : Nat) : Option Label :=
  match s.client oid with
  | .waiting =>
    match s.waiters.find? (fun w => w.oid = oid) with
    | some w =>
      if w.acq then some (.push oid)
      else if !s.rxOpen || w.granted then some (.grantWake oid)
      else none
    | none => none
  | .awaiting =>
    match s.reply oid with
    | .sent => some (.recvReply oid)
    | .dropped => some (.recvReply oid)
    | _ => if !s.rxOpen && Extracted.ask_wait_watches_closed then some (.recvReply oid) else none
  | _ => none

/-- a task of the runtime: `none` = the actor's lifecycle task, `some oid` = a client operation -/
abbrev Task := Option Nat

def taskLabel (s : Sys) : Task → Option Label
  | none => actorLabel s
  | some oid => clientLabel s oid

def runnableClients (s : Sys) : Nat → Nat → List Task
  | 0, _ => []
  | n+1, oid =>
    match clientLabel s oid with
    | some _ => some oid :: runnableClients s n (oid + 1)
    | none => runnableClients s n (oid + 1)

def runnable (s : Sys) : List Task :=
  (match actorLabel s with | some _ => [none] | none => []) ++ runnableClients s s.nextOid 0

/-- Tokio's current-thread scheduler: the running task keeps going until it blocks; tasks it wakes
    are appended to a FIFO run queue; then the head of the queue runs. -/
def settle : Nat → Sys → Option Task → List Task → List Label → Sys × List Label
  | 0, s, _, _, acc => (s, acc.reverse)
  | n+1, s, cur, queue, acc =>
    let go (t : Task) (l : Label) (queue : List Task) : Sys × List Label :=
      match step? s l with
      | none => (s, acc.reverse)
      | some s' =>
        let woken := (runnable s').filter (fun x => x != t && !queue.contains x)
        settle n s' (some t) (queue ++ woken) (l :: acc)
    match cur.bind (fun t => (taskLabel s t).map (fun l => (t, l))) with
    | some (t, l) => go t l queue
    | none =>
      match queue with
      | t :: rest =>
        match taskLabel s t with
        | some l => go t l rest
        | none => settle n s none rest acc
      | [] =>
        match runnable s with
        | t :: _ =>
          match taskLabel s t with
          | some l => go t l []
          | none => (s, acc.reverse)
        | [] => (s, acc.reverse)

theorem run_snoc (s0 s s' : Sys) (acc : List Label) (l : Label)
    (h : run? s0 acc.reverse = some s) (hs : step? s l = some s') :
    run? s0 (l :: acc).reverse = some s' := by
  have : ∀ (ls : List Label) (a b : Sys), run? a ls = some b → run? a (ls ++ [l]) = (step? b l) := by
    intro ls
    induction ls with
    | nil => intro a b h; simp [run?] at h; subst h; simp [run?]; cases step? a l <;> rfl
    | cons x xs ih =>
      intro a b h
      simp only [List.cons_append, run?] at h ⊢
      split at h
      · cases h
      · rename_i a1 ha1; exact ih a1 b h
  rw [List.reverse_cons, this _ _ _ h, hs]

theorem settle_is_run (n : Nat) (s : Sys) (cur : Option Task) (q : List Task) (acc : List Label)
    (s0 : Sys) (h : run? s0 acc.reverse = some s) :
    run? s0 (settle n s cur q acc).2 = some (settle n s cur q acc).1 := by
  induction n generalizing s cur q acc with
  | zero => simpa [settle] using h
  | succ n ih =>
    simp only [settle]
    split
    · -- the current task continues
      split
      · exact h
      · rename_i s' hs; exact ih _ _ _ _ (run_snoc s0 s s' acc _ h hs)
    · split
      · split
        · split
          · exact h
          · rename_i s' hs; exact ih _ _ _ _ (run_snoc s0 s s' acc _ h hs)
        · exact ih _ _ _ _ h
      · split
        · split
          · split
            · exact h
            · rename_i s' hs; exact ih _ _ _ _ (run_snoc s0 s s' acc _ h hs)
          · exact h
        · exact h

def fuel : Nat := 100000

/-- earliest deadline ≤ `target` among operations still in progress -/
def nextDeadline (s : Sys) (target : Nat) : Nat → Nat → Option Nat → Option Nat
  | 0, _, acc => acc
  | n+1, oid, acc =>
    let acc :=
      match s.client oid, s.deadline oid with
      | .waiting, some d | .awaiting, some d =>
        if d ≤ target then
          match acc with
          | some a => some (Nat.min a d)
          | none => some d
        else acc
      | _, _ => acc
    nextDeadline s target n (oid + 1) acc

def fireAt (d : Nat) : Nat → Nat → Sys → Sys
  | 0, _, s => s
  | n+1, oid, s =>
    let s :=
      match s.client oid, s.deadline oid with
      | .waiting, some d' | .awaiting, some d' =>
        if d' = d then
          match step? s (.timeoutFire oid) with
          | some s' => (settle fuel s' (some (some oid)) [] []).1
          | none => s
        else s
      | _, _ => s
    fireAt d n (oid + 1) s

/-- advance the virtual clock to `target`, firing the timers on the way in deadline order -/
def clockTo (s : Sys) (t : Nat) : Sys :=
  match step? s (.advance (t - s.clock)) with
  | some s' => s'
  | none => s

def advanceTo (target : Nat) : Nat → Sys → Sys
  | 0, s => clockTo s target
  | n+1, s =>
    match nextDeadline s target s.nextOid 0 none with
    | some d =>
      let s := clockTo s d
      let s := fireAt d s.nextOid 0 s
      advanceTo target n s
    | none => clockTo s target

/-- the driver's quiescence wait: `sleep` until the next multiple of `tick` -/
def tick : Nat := 10

def afterOp (s : Sys) : Sys :=
  let s := (settle fuel s none [] []).1
  advanceTo (s.clock + tick) (s.nextOid + 1) s

end Rsactor.Exec
