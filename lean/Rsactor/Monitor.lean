/-
  Decidable trace predicates `Cxx.ok : Trace → Bool`: each property written directly on the
  observable history, with no reference to the model's state.  The same predicates are
  (a) evaluated by the driver on every *real* trace produced by the harness, and
  (b) the subject of the theorems in `Props/` (for every run of the model).
-/
import Rsactor.Model

namespace Rsactor.Monitor
open Rsactor.Model

structure Trace where
  cap : Nat
  ev : List Ev

/-! ### generic helpers (positions are indices into the event list) -/

def idxOf? (p : Ev → Bool) : List Ev → Option Nat
  | [] => none
  | e :: es => if p e then some 0 else (idxOf? p es).map (· + 1)

def anyFrom (p : Ev → Bool) (ev : List Ev) (i : Nat) : Bool := (ev.drop i).any p
def anyBefore (p : Ev → Bool) (ev : List Ev) (i : Nat) : Bool := (ev.take i).any p
def countP (p : Ev → Bool) (ev : List Ev) : Nat := (ev.filter p).length

def isStart (mid : Nat) : Ev → Bool | .handlerStart m => m == mid | _ => false
def isAnyStart : Ev → Bool | .handlerStart _ => true | _ => false
def isStopStart : Ev → Bool | .stopStart _ => true | _ => false
def isStopStartF : Ev → Bool | .stopStart false => true | _ => false
def isRunErr : Ev → Bool | .runEnd _ .err => true | _ => false
def isJoined : Ev → Bool | .joined _ => true | _ => false
def isPanicEv : Ev → Bool
  | .startEnd .panic => true | .handlerEnd _ .panic => true | .runEnd _ .panic => true
  | .stopEnd .panic => true | _ => false

def issuedOf (oid : Nat) : Ev → Option (OpKind × Option Nat × Nat)
  | .issued o k t a => if o = oid then some (k, t, a) else none
  | _ => none

/-- (kind, timeout, issue instant) of operation `oid`, read off its `issued` event -/
def opOf (ev : List Ev) (oid : Nat) : Option (OpKind × Option Nat × Nat) :=
  ev.findSome? (issuedOf oid)

def acceptedIdx (ev : List Ev) (oid : Nat) : Option Nat :=
  ev.findSome? fun | .accepted o i => if o == oid then some i else none | _ => none

def isEnvOp (ev : List Ev) (oid : Nat) : Bool :=
  match opOf ev oid with
  | some (.tell, _, _) => true
  | some (.ask, _, _) => true
  | _ => false

def isStopOp (ev : List Ev) (oid : Nat) : Bool :=
  match opOf ev oid with
  | some (.stop, _, _) => true
  | _ => false

/-- (oid, idx) of every `accepted` event among the first `n` events -/
def acceptedBefore (ev : List Ev) (n : Nat) : List (Nat × Nat) :=
  (ev.take n).filterMap fun | .accepted o i => some (o, i) | _ => none

def startedMids (ev : List Ev) : List Nat :=
  ev.filterMap fun | .handlerStart m => some m | _ => none

def minIdx : List Nat → Option Nat
  | [] => none
  | x :: xs => match minIdx xs with | some m => some (Nat.min x m) | none => some x

/-- index of the stop marker that is dequeued first, among those accepted before position `n` -/
def firstMarkerIdx (ev : List Ev) (n : Nat) : Option Nat :=
  minIdx (((acceptedBefore ev n).filter fun p => isStopOp ev p.1).map (·.2))

def increasing : List Nat → Bool
  | [] => true
  | [_] => true
  | a :: b :: rest => decide (a < b) && increasing (b :: rest)

/-! ### C01 — accepted messages handled exactly once; rejected ones never -/
namespace C01

def atMostOnce (ev : List Ev) : Bool := (startedMids ev).Nodup

def rejectedNever (ev : List Ev) : Bool :=
  ev.all fun
    | .ret oid r _ =>
      match opOf ev oid, r with
      | some (.tell, _, _), .send => !(ev.any (isStart oid))
      | some (.tell, _, _), .timeout => !(ev.any (isStart oid))
      | some (.ask, _, _), .send => !(ev.any (isStart oid))
      | _, _ => true
    | _ => true

/-- on a graceful end (first `stopStart false`, not caused by an on_run error): every envelope accepted
    before the stop marker that is dequeued (or, with no marker, every envelope accepted before the
    actor began to stop) was started before on_stop. -/
def gracefulComplete (ev : List Ev) : Bool :=
  match idxOf? isStopStart ev with
  | none => true
  | some p =>
    match ev[p]? with
    | some (.stopStart false) =>
      if anyBefore isRunErr ev p then true
      else
        let bound := firstMarkerIdx ev p
        (acceptedBefore ev p).all fun (oid, idx) =>
          if isEnvOp ev oid then
            match bound with
            | some k => if idx < k then anyBefore (isStart oid) ev p else true
            | none => anyBefore (isStart oid) ev p
          else true
    | _ => true

def ok (t : Trace) : Bool := atMostOnce t.ev && rejectedNever t.ev && gracefulComplete t.ev
end C01

/-! ### C02 — handling order = acceptance order; stop() is in-band -/
namespace C02

def startIdxs (ev : List Ev) : List (Option Nat) := (startedMids ev).map (acceptedIdx ev)

/-- every started message had been accepted, and starts follow acceptance order -/
def fifo (ev : List Ev) : Bool :=
  (startIdxs ev).all Option.isSome && increasing ((startIdxs ev).filterMap id)

/-- an `accepted` is never logged before the previous acceptance index (indices are the push order) -/
def idxInOrder (ev : List Ev) : Bool :=
  increasing (ev.filterMap fun | .accepted _ i => some i | _ => none)

/-- nothing accepted after a stop marker that the (not killed, not crashed) actor dequeued is handled -/
def stopPrefix (ev : List Ev) : Bool :=
  match idxOf? isStopStart ev with
  | none => true
  | some p =>
    match ev[p]?, firstMarkerIdx ev p with
    | some (.stopStart false), some k =>
      if anyBefore isRunErr ev p then true
      else (startedMids ev).all fun m => match acceptedIdx ev m with | some i => decide (i < k) | none => false
    | _, _ => true

def isKillIssued : Ev → Bool | .issued _ .kill _ _ => true | _ => false
def isStopIssued : Ev → Bool | .issued _ .stop _ _ => true | _ => false
def isCrash : Ev → Bool
  | .handlerEnd _ .panic => true | .runEnd _ .err => true | .runEnd _ .panic => true | _ => false

/-- the statement at the level of calls: on an actor that is not killed and does not crash, every message
    accepted before the first `stop()` call began has its handler started before `on_stop` -/
def stopCallOrder (ev : List Ev) : Bool :=
  match idxOf? isStopStart ev with
  | none => true
  | some p =>
    if anyBefore isKillIssued ev p || anyBefore isCrash ev p then true
    else match idxOf? isStopIssued ev with
      | none => true
      | some q =>
        if q < p then
          (ev.take q).all fun
            | .accepted m _ => if isEnvOp ev m then anyBefore (isStart m) ev p else true
            | _ => true
        else true

/-- nothing issued after a `stop()` call returned is ever handled -/
def nothingAfterStopReturned (ev : List Ev) : Bool :=
  match idxOf? (fun | .ret o _ _ => isStopOp ev o | _ => false) ev with
  | none => true
  | some q =>
    (ev.drop q).all fun
      | .issued m _ _ _ => !(ev.any (isStart m))
      | _ => true

def ok (t : Trace) : Bool :=
  fifo t.ev && idxInOrder t.ev && stopPrefix t.ev && stopCallOrder t.ev && nothingAfterStopReturned t.ev
end C02

/-! ### C03 — reply belongs to the request; nothing pending on an ended actor -/
namespace C03

/-- fold state: (requests whose handler has completed normally, ok so far) -/
def riStep (st : List Nat × Bool) : Ev → List Nat × Bool
  | .handlerEnd m .ok => (m :: st.1, st.2)
  | .ret oid (.reply m) _ => (st.1, st.2 && (m == oid) && st.1.contains oid)
  | _ => st

/-- an ask that returns Ok(v) returns the value produced for that very request, after its handler ran -/
def replyIntegrity (ev : List Ev) : Bool := (ev.foldl riStep ([], true)).2

def pendingOps (ev : List Ev) : List Nat :=
  (ev.filterMap fun | .issued o _ _ _ => some o | _ => none).filter fun o =>
    !(ev.any fun | .ret o' _ _ => o' == o | _ => false)

/-- evaluated on settled traces: once the JoinHandle has resolved no operation is still pending -/
def nothingPendingAfterEnd (ev : List Ev) : Bool :=
  if ev.any isJoined then (pendingOps ev).isEmpty else true

/-- an operation issued after the JoinHandle resolved fails at once (tell/ask: Send; stop/kill: Ok) -/
def laterFail (ev : List Ev) : Bool :=
  match idxOf? isJoined ev with
  | none => true
  | some j =>
    (ev.drop j).all fun
      | .ret oid r _ =>
        match opOf ev oid with
        | some (k, _, _) =>
          if anyBefore (fun | .issued o _ _ _ => o == oid | _ => false) ev j then true
          else match k with
            | .tell => r == .send
            | .ask => r == .send
            | .stop => r == .ok
            | .kill => r == .ok
        | none => false
      | _ => true

def ok (t : Trace) : Bool := replyIntegrity t.ev && nothingPendingAfterEnd t.ev && laterFail t.ev

/-- on settled traces (the script's closing sequence released every gate and let every timer fire, and no
    hook is waiting for a gate): every operation has returned - nobody waits forever, whether or not the
    actor has ended -/
def okSettled (t : Trace) : Bool := ok t && (pendingOps t.ev).isEmpty
end C03

/-! ### C04 — hooks in order -/
namespace C04

inductive Ph | init | running | inHandler (m : Nat) | stopping | dead | joined
  deriving DecidableEq, Repr

/-- the lifecycle automaton over the actor's own events; `none` = rejected -/
def step (ph : Ph) : Ev → Option Ph
  | .startEnd .ok => if ph = .init then some .running else none
  | .startEnd _ => if ph = .init then some .dead else none
  | .handlerStart m => if ph = .running then some (.inHandler m) else none
  | .handlerEnd m .ok => if ph = .inHandler m then some .running else none
  | .handlerEnd m .panic => if ph = .inHandler m then some .dead else none
  | .tellResult _ => if ph = .running then some ph else none
  | .runPoll _ => if ph = .running then some ph else none
  | .runEnd _ .panic => if ph = .running then some .dead else none
  | .runEnd _ _ => if ph = .running then some ph else none
  | .stopStart _ => if ph = .running then some .stopping else none
  | .stopEnd .panic => if ph = .stopping then some .dead else none
  | .stopEnd _ => if ph = .stopping then some .dead else none
  | .joined _ => if ph = .dead then some .joined else none
  | _ => some ph

def accepts (ev : List Ev) : Bool :=
  (ev.foldl (fun (st : Option Ph) e => st.bind (fun ph => step ph e)) (some .init)).isSome

end C04

/-! ### C05 — ActorResult truthfully reports how the actor ended -/
namespace C05

/-- what the hook events of a trace say happened -/
structure Summ where
  panic : Bool := false
  startErr : Bool := false
  killed : Option Bool := none       -- the argument on_stop was called with
  stopOut : Option SOut := none
  log : List Hook := []              -- state left on the actor instance by the hooks that ran
  runErr : Bool := false
  joined : List Outcome := []
  stopPanic : Bool := false
  deriving DecidableEq, Repr

def upd (m : Summ) : Ev → Summ
  | .startEnd .ok => { m with log := m.log ++ [.start] }
  | .startEnd .err => { m with startErr := true }
  | .startEnd .panic => { m with panic := true }
  | .handlerStart mid => { m with log := m.log ++ [.handler mid] }
  | .handlerEnd _ .panic => { m with panic := true }
  | .runEnd k .panic => { m with panic := true, log := m.log ++ [.run k] }
  | .runEnd k .err => { m with runErr := true, log := m.log ++ [.run k] }
  | .runEnd k _ => { m with log := m.log ++ [.run k] }
  | .stopStart k => { m with killed := m.killed.or (some k) }
  | .stopEnd .panic => { m with panic := true, stopPanic := true }
  | .stopEnd o => { m with stopOut := m.stopOut.or (some o) }
  | .joined o => { m with joined := m.joined ++ [o] }
  | _ => m

def summ (ev : List Ev) : Summ := ev.foldl upd {}

/-- what the JoinHandle must produce, computed from the hook events alone -/
def expectedOf (m : Summ) : Option Outcome :=
  if m.panic then some none
  else if m.startErr then some (some (.Failed none .start .OnStart false))
  else
    match m.killed, m.stopOut with
    | some k, some so =>
      let log := m.log ++ [.stop k]
      some (some (match m.runErr, so with
        | true, .ok => .Failed (some log) .run .OnRun false
        | true, _ => .Failed (some log) .run .OnRunThenOnStop false
        | false, .ok => .Completed log k
        | false, _ => .Failed (some log) .stop .OnStop k))
    | _, _ => none

def ok (t : Trace) : Bool :=
  let m := summ t.ev
  match m.joined with
  | [] => true
  | [o] => expectedOf m == some o
  | _ => false
end C05

/-! ### C04 (continued): on_stop's argument and on_stop-iff-cause, on the summary of the hook events -/
namespace C04

/-- killed=true only if a kill() had been issued before on_stop began: fold state (kill seen, ok) -/
def killStep (st : Bool × Bool) : Ev → Bool × Bool
  | .issued _ .kill _ _ => (true, st.2)
  | .stopStart true => (st.1, st.2 && st.1)
  | _ => st

def killedOnlyIfKill (ev : List Ev) : Bool := (ev.foldl killStep (false, true)).2

/-- on_stop ran iff the actor ended for one of the four reasons: not after a failed on_start, and
    after a panic only if the panic was in on_stop itself -/
def stopIffCause (ev : List Ev) : Bool :=
  let m := C05.summ ev
  match m.joined with
  | [o] =>
    (match o with
     | some (.Completed _ _) => m.killed.isSome
     | some (.Failed _ _ .OnStart _) => !m.killed.isSome
     | some (.Failed _ _ _ _) => m.killed.isSome
     | none => m.killed.isSome == m.stopPanic)
  | _ => true

def ok (t : Trace) : Bool := accepts t.ev && killedOnlyIfKill t.ev && stopIffCause t.ev
end C04

/-! ### C06 — kill() pre-empts the mailbox and never blocks -/
namespace C06

def isKillRet (ev : List Ev) : Ev → Bool
  | .ret oid _ _ => (match opOf ev oid with | some (.kill, _, _) => true | _ => false)
  | _ => false

/-- every kill() returns Ok, immediately after it was issued -/
def killTotal (ev : List Ev) : Bool :=
  let rec go : List Ev → Bool
    | .issued o .kill _ _ :: rest =>
      (match rest with
       | .ret o' .ok _ :: _ => o' == o
       | _ => false) && go rest
    | _ :: rest => go rest
    | [] => true
  go ev

/-- fold state for `killBound`: has the actor begun to stop; has a kill() been issued while it had
    not; handler starts since then -/
structure KB where
  stopped : Bool := false
  armed : Bool := false
  starts : Nat := 0
  deriving DecidableEq, Repr

def kbStep (m : KB) : Ev → KB
  | .issued _ .kill _ _ => if m.stopped then m else { m with armed := true }
  | .handlerStart _ => if m.armed then { m with starts := m.starts + 1 } else m
  | .stopStart _ => { m with stopped := true }
  | .joined _ => { m with stopped := true }
  | _ => m

def kb (ev : List Ev) : KB := ev.foldl kbStep {}

/-- once kill() has been called on an actor that had not begun to stop, at most one further
    message handler starts, however many messages are queued -/
def killBound (ev : List Ev) : Bool := decide ((kb ev).starts ≤ 1)

/-- on the paused single-thread runtime the kill is consumed before the next dequeue: no further start -/
def killBoundAtomic (ev : List Ev) : Bool := decide ((kb ev).starts = 0)

/-- …and its on_stop sees killed=true unless a crash or a dequeued stop marker intervenes -/
def killOutcome (ev : List Ev) : Bool :=
  match idxOf? (isKillRet ev) ev with
  | none => true
  | some p =>
    if anyBefore isStopStart ev p || anyBefore isJoined ev p || anyBefore isPanicEv ev p
       || anyBefore (fun | .startEnd .err => true | _ => false) ev p then true
    else
      (match idxOf? isStopStart ev with
       | some q =>
         (match ev[q]? with
          | some (.stopStart true) => true
          | _ => anyBefore isRunErr ev q || (firstMarkerIdx ev q).isSome)
       | none => true)

/-- what was left in the mailbox when a killed actor ended is never handled and its asks fail -/
def leftoversFail (ev : List Ev) : Bool :=
  let killedEnd : Bool :=
    match ev.findSome? (fun | .joined o => some o | _ => none) with
    | some (some r) => r.was_killed
    | _ => false
  !killedEnd ||
    ((acceptedBefore ev ev.length).all fun (oid, _) =>
      match opOf ev oid with
      | some (.ask, _, _) =>
        ev.any (isStart oid) ||
        ev.any (fun | .ret o r _ => o == oid && (r == .receive || r == .timeout) | _ => false)
      | _ => true)

def ok (t : Trace) : Bool := killTotal t.ev && killBound t.ev && killOutcome t.ev && leftoversFail t.ev

/-- on settled traces (every gate released, every timer fired, nothing left to run): an actor on which kill()
    has returned has ended - the kill is acted on "as soon as the hook in progress (if any) finishes", not when
    some later message happens to arrive -/
def killEnds (ev : List Ev) : Bool :=
  if ev.any (isKillRet ev) then ev.any isJoined else true

/-- on the single-threaded runtime of the correspondence (a kill() call and the actor's polls do not overlap):
    once kill() has returned on an actor that had not begun to stop, no fresh on_run pass begins and none
    completes - the hook in progress finishes, then on_stop(killed=true) runs -/
def noRunAfterKill (ev : List Ev) : Bool :=
  (ev.foldl (fun (st : Bool × Bool × Bool) e =>
      -- (stopped, armed, ok)
      match e with
      | .issued _ .kill _ _ => if st.1 then st else (st.1, true, st.2.2)
      | .stopStart _ => (true, st.2.1, st.2.2)
      | .joined _ => (true, st.2.1, st.2.2)
      | .runPoll _ => if st.2.1 && !st.1 then (st.1, st.2.1, false) else st
      | .runEnd _ _ => if st.2.1 && !st.1 then (st.1, st.2.1, false) else st
      | _ => st) (false, false, true)).2.2

/-- same setting: once kill() has returned on an actor that had not begun to stop, the on_stop that follows is
    on_stop(killed=true) - a stop marker that is merely queued does not turn the kill into a graceful stop -/
def killWins (ev : List Ev) : Bool :=
  (ev.foldl (fun (st : Bool × Bool × Bool) e =>
      -- (stopped, armed, ok)
      match e with
      | .issued _ .kill _ _ => if st.1 then st else (st.1, true, st.2.2)
      | .stopStart k => if st.2.1 && !st.1 && !k then (true, st.2.1, false) else (true, st.2.1, st.2.2)
      | .joined _ => (true, st.2.1, st.2.2)
      | _ => st) (false, false, true)).2.2

def okAtomic (t : Trace) : Bool := ok t && noRunAfterKill t.ev && killBoundAtomic t.ev && killWins t.ev
def okSettled (t : Trace) : Bool := okAtomic t && killEnds t.ev
end C06

/-! ### C07 — actors end when stopped or unreferenced, and only then -/
namespace C07

/-- strong handles alive after the events (handle 0 is the spawn's reference) -/
def strongHandlesAfter (ev : List Ev) : List Nat :=
  ev.foldl (fun hs e => match e with
    | .handleNew h true => hs ++ [h]
    | .handleDrop h => hs.filter (· != h)
    | _ => hs) [0]

def inflightAfter (ev : List Ev) : Nat :=
  (C03.pendingOps ev).length

/-- a graceful end that is not due to a stop marker or an on_run error happens only when no strong
    handle and no operation in progress remains -/
def neverSpontaneous (ev : List Ev) : Bool :=
  match idxOf? isStopStart ev with
  | none => true
  | some p =>
    match ev[p]? with
    | some (.stopStart false) =>
      anyBefore isRunErr ev p || (firstMarkerIdx ev p).isSome ||
      ((strongHandlesAfter (ev.take p)).isEmpty && inflightAfter (ev.take p) == 0)
    | _ => true

/-- on settled, fully drained traces: an actor that is due to end has ended -/
def endsWhenDue (ev : List Ev) : Bool :=
  let started := ev.any (fun | .startEnd .ok => true | _ => false)
  let stopAccepted := (acceptedBefore ev ev.length).any fun p => isStopOp ev p.1
  let unreferenced := (strongHandlesAfter ev).isEmpty && inflightAfter ev == 0
  if started && (stopAccepted || unreferenced) then ev.any isJoined else true

/-- the actor's own hook events, for `promptEnd` (on_tell_result belongs to the handler that just ended) -/
def isLoopEv : Ev → Bool
  | .startEnd _ | .handlerStart _ | .handlerEnd _ _ | .runPoll _ | .runEnd _ _ | .stopStart _
  | .stopEnd _ | .termConsumed => true
  | _ => false

/-- nothing refers to the running actor any more: no strong handle, no operation in progress, every accepted
    envelope handled, no handler running -/
def unreferencedAfter (pre : List Ev) : Bool :=
  pre.any (fun | .startEnd .ok => true | _ => false) &&
  !(pre.any isStopStart) && !(pre.any isJoined) && !(pre.any isPanicEv) &&
  (strongHandlesAfter pre).isEmpty && inflightAfter pre == 0 &&
  ((acceptedBefore pre pre.length).all fun p => if isEnvOp pre p.1 then pre.any (isStart p.1) else true) &&
  (countP isAnyStart pre == countP (fun | .handlerEnd _ _ => true | _ => false) pre)

/-- `ends when unreferenced`, promptly: from the moment nothing refers to the actor, the next thing its loop
    does is to stop (on_stop, or first the kill signal) - in particular a pending on_run makes no further
    progress and does not keep the actor alive -/
def promptEnd (ev : List Ev) : Bool :=
  (List.range (ev.length + 1)).all fun n =>
    if unreferencedAfter (ev.take n) then
      match (ev.drop n).find? isLoopEv with
      | none => true
      | some (.stopStart _) => true
      | some .termConsumed => true
      | some _ => false
    else true

def ok (t : Trace) : Bool := neverSpontaneous t.ev && promptEnd t.ev
def okSettled (t : Trace) : Bool := neverSpontaneous t.ev && promptEnd t.ev && endsWhenDue t.ev
end C07

/-! ### C08 — on_run is an idle handler -/
namespace C08

/-- at every first poll of a fresh on_run future, everything accepted so far has been taken -/
def runOnlyWhenEmpty (ev : List Ev) : Bool :=
  let rec go (seen : List Ev) : List Ev → Bool
    | [] => true
    | e :: es =>
      (match e with
       | .runPoll _ =>
         let acc := countP (fun | .accepted _ _ => true | _ => false) seen
         let taken := countP isAnyStart seen
         acc == taken
       | _ => true) && go (seen ++ [e]) es
  go [] ev

def isDisable : Ev → Bool | .runEnd _ .disable => true | _ => false
def isRunPoll : Ev → Bool | .runPoll _ => true | _ => false
def isActorEv : Ev → Bool
  | .startEnd _ | .handlerStart _ | .handlerEnd _ _ | .runPoll _ | .runEnd _ _ | .stopStart _
  | .stopEnd _ | .tellResult _ => true
  | _ => false

/-- fold state: on_run has returned Ok(false); an on_run error is waiting for its on_stop; ok so far -/
structure R8 where
  disabled : Bool := false
  pendErr : Bool := false
  ok : Bool := true
  deriving DecidableEq, Repr

def r8Step (m : R8) : Ev → R8
  | .runEnd _ .disable => { m with disabled := true, ok := m.ok && !m.pendErr }
  | .runEnd _ .err => { m with pendErr := true, ok := m.ok && !m.pendErr }
  | .runEnd _ _ => { m with ok := m.ok && !m.pendErr }
  | .runPoll _ => { m with ok := m.ok && !m.disabled && !m.pendErr }
  | .stopStart false => { m with pendErr := false }
  | .stopStart true => { m with ok := m.ok && !m.pendErr }
  | .startEnd _ | .handlerStart _ | .handlerEnd _ _ | .stopEnd _ | .tellResult _ => { m with ok := m.ok && !m.pendErr }
  | _ => m

def r8 (ev : List Ev) : R8 := ev.foldl r8Step {}

/-- after Ok(false) the on_run body never executes again; after Err the very next hook event is
    on_stop(killed = false) -/
def disableForeverAndErrFails (ev : List Ev) : Bool := (r8 ev).ok && !(r8 ev).pendErr

def ok (t : Trace) : Bool := runOnlyWhenEmpty t.ev && disableForeverAndErrFails t.ev
end C08

/-! ### C09 — capacity is a hard bound with waiting back-pressure -/
namespace C09

/-- items taken out of the mailbox: handler starts, plus the stop marker when on_stop(false) began
    because of a marker (a marker exists and the stop was not caused by an on_run error) -/
def takenAt (ev : List Ev) (n : Nat) : Nat :=
  let pre := ev.take n
  countP isAnyStart pre +
  (match idxOf? isStopStartF pre with
   | some q => if !(anyBefore isRunErr pre q) && (firstMarkerIdx pre q).isSome then 1 else 0
   | none => 0)

def occupancyAt (ev : List Ev) (n : Nat) : Nat :=
  countP (fun | .accepted _ _ => true | _ => false) (ev.take n) - takenAt ev n

def bound (t : Trace) : Bool :=
  (List.range (t.ev.length + 1)).all fun n => decide (occupancyAt t.ev n ≤ t.cap)

def closedSign : Ev → Bool
  | .stopEnd _ => true | .joined _ => true | .startEnd .err => true | e => isPanicEv e

def isAcceptedOf (oid : Nat) : Ev → Bool | .accepted o _ => o == oid | _ => false

/-- "a send into a full mailbox waits": a tell or a stop() that returns Ok had been accepted by the
    mailbox before it returned (stop() also returns Ok on a mailbox that is already closed, i.e. after
    the loop has ended: on_stop is over, or the actor's task has failed) -/
def okMeansAccepted (ev : List Ev) : Bool :=
  (List.range ev.length).all fun n =>
    match ev[n]? with
    | some (.ret oid .ok _) =>
      (match opOf ev oid with
       | some (.tell, _, _) => anyBefore (isAcceptedOf oid) ev n
       | some (.stop, _, _) => anyBefore (isAcceptedOf oid) ev n || anyBefore closedSign ev n
       | _ => true)
    | _ => true

/-- "a send waits, it is never refused": Err(Send) is reported only once the actor's loop is over (on_stop has
    ended, the task has failed or has been joined) - never by a running actor, whatever the fill level of its
    mailbox and whatever else is pending (theorem: `C09.send_error_only_after_end`) -/
def failOnlyWhenClosed (ev : List Ev) : Bool :=
  (List.range ev.length).all fun n =>
    match ev[n]? with
    | some (.ret _ .send _) => anyBefore closedSign ev n
    | _ => true

def ok (t : Trace) : Bool := bound t && okMeansAccepted t.ev && failOnlyWhenClosed t.ev
end C09

/-! ### C10 — timeouts are exact -/
namespace C10

/-- `Err(Timeout)` is returned only by an operation that was given a timeout, and never before its
    deadline (issue instant + timeout) -/
def neverEarly (ev : List Ev) : Bool :=
  ev.all fun
    | .ret oid .timeout at_ =>
      (match opOf ev oid with
       | some (_, some d, t0) => decide (t0 + d ≤ at_)
       | _ => false)
    | _ => true

/-- on the virtual clock of the paused runtime: a timeout fires exactly at the deadline, and every
    other outcome of a timed operation arrives no later than the deadline -/
def exact (ev : List Ev) : Bool :=
  ev.all fun
    | .ret oid r at_ =>
      match opOf ev oid with
      | some (_, some d, t0) =>
        (match r with
         | .timeout => decide (at_ = t0 + d)
         | _ => decide (at_ ≤ t0 + d))
      | some (_, none, _) => r != .timeout
      | none => false
    | _ => true

/-- "failures other than a timeout are reported as themselves, as soon as they occur": an operation that returned
    Err(Send) or Err(Receive) is over - its message does not enter a handler afterwards (a failure reported for work
    that is then carried out is not the outcome of that operation) -/
def failureIsFinal (ev : List Ev) : Bool :=
  (List.range ev.length).all fun p =>
    match ev[p]? with
    | some (.ret oid .send _) | some (.ret oid .receive _) => !((ev.drop (p + 1)).any (isStart oid))
    | _ => true

def ok (t : Trace) : Bool := neverEarly t.ev && exact t.ev && failureIsFinal t.ev
end C10

/-! ### C11 — is_alive tells the truth (strong handles) -/
namespace C11

/-- the upgrade clause as a fold (the form the invariant proof uses): the strong handles the script holds,
    and "every failed upgrade so far happened while it held none" -/
def upStep (st : List Nat × Bool) : Ev → List Nat × Bool
  | .handleNew h true => (st.1 ++ [h], st.2)
  | .handleDrop h => (st.1.filter (· != h), st.2)
  | .upgradeFailed _ => (st.1, st.2 && st.1.isEmpty)
  | _ => st

def upgradeTruthful (ev : List Ev) : Bool := (ev.foldl upStep ([0], true)).2

def ok (t : Trace) : Bool :=
  let rec go (seen : List Ev) : List Ev → Bool
    | [] => true
    | e :: es =>
      (match e with
       | .probeAlive h b =>
         if (C07.strongHandlesAfter seen).contains h then
           -- true from spawn until the actor begins to end; false once the JoinHandle resolved
           (if seen.any isJoined then b == false else true) &&
           (if !(seen.any isStopStart) && !(seen.any isPanicEv) &&
               !(seen.any (fun | .startEnd .err => true | _ => false)) then b == true else true)
         else true
       -- upgrade() returns a reference exactly while some strong reference exists: it cannot fail while
       -- the script itself still holds a strong handle (whether or not the actor has ended)
       | .upgradeFailed _ => (C07.strongHandlesAfter seen).isEmpty
       | _ => true) && go (seen ++ [e]) es
  go [] t.ev && upgradeTruthful t.ev
end C11

/-! ### C13 — exactly one dead letter per failed delivery, none per success -/
namespace C13

def reasonOf : Res → Option Reason
  | .send => some .actorStopped
  | .timeout => some .timeout
  | .receive => some .replyDropped
  | _ => none

/-- state: `none` = rejected; `some pend` = accepted so far, `pend` = a dead letter whose failing
    return must be the very next event -/
def step (st : Option (Option (Nat × Reason))) (e : Ev) : Option (Option (Nat × Reason)) :=
  st.bind fun pend =>
    match e, pend with
    | .dead o w, none => some (some (o, w))
    | .dead _ _, some _ => none
    | .ret o r _, some (o', w) => if o = o' ∧ reasonOf r = some w then some none else none
    | .ret _ r _, none => if reasonOf r = none then some none else none
    | _, none => some none
    | _, some _ => none

/-- dead letters and failing returns correspond one to one: every dead letter is immediately
    followed by the failing return of the same operation with the matching reason, and every
    failing return is immediately preceded by its dead letter -/
def paired (ev : List Ev) : Bool := ev.foldl step (some none) == some none

def deadLetters (ev : List Ev) : List (Nat × Reason) :=
  ev.filterMap fun | .dead o w => some (o, w) | _ => none

def failures (ev : List Ev) : List (Nat × Reason) :=
  ev.filterMap fun | .ret o r _ => (reasonOf r).map (fun w => (o, w)) | _ => none

/-- stop()/kill() never record a dead letter -/
def onlyEnvOps (ev : List Ev) : Bool := ev.all (fun | .dead o _ => isEnvOp ev o | _ => true)

def ok (t : Trace) : Bool :=
  paired t.ev && onlyEnvOps t.ev && (deadLetters t.ev == failures t.ev)
end C13

/-! ### C19 — on_tell_result exactly once after a tell, never after an ask -/
namespace C19

def isTellOp (ev : List Ev) (oid : Nat) : Bool :=
  match opOf ev oid with
  | some (.tell, _, _) => true
  | _ => false

/-- walk over adjacent events: a handler of a tell that returns is followed at once by `tellResult` of the
    same message; `tellResult` occurs nowhere else (in particular never for an ask) -/
def adjacent (all : List Ev) : List Ev → Bool
  | .handlerEnd m .ok :: .tellResult m' :: rest => isTellOp all m && (m == m') && adjacent all rest
  | .handlerEnd m .ok :: rest => !isTellOp all m && adjacent all rest
  | .tellResult _ :: _ => false
  | _ :: rest => adjacent all rest
  | [] => true

/-- the same adjacency as an automaton over the actor's events (the form the invariant proof uses):
    `tellResult m` / `replySent m` occur only immediately after the handler of `m` has returned, at most one
    of them, and handlers do not overlap -/
inductive Ph | idle | inH (m : Nat) | ended (m : Nat)
  deriving DecidableEq, Repr

def step (ph : Ph) : Ev → Option Ph
  | .handlerStart m => match ph with | .inH _ => none | _ => some (.inH m)
  | .handlerEnd m .ok => if ph = .inH m then some (.ended m) else none
  | .handlerEnd m .panic => if ph = .inH m then some .idle else none
  | .tellResult m => if ph = .ended m then some .idle else none
  | .replySent m => if ph = .ended m then some .idle else none
  -- anything else closes the window in which the result event may come (real traces do not show the reply
  -- being sent; `adjacent` above checks, with the operation kinds, that a tell's window is never closed this way)
  | _ => match ph with | .ended _ => some .idle | p => some p

def accepts (ev : List Ev) : Bool :=
  (ev.foldl (fun (st : Option Ph) e => st.bind (fun ph => step ph e)) (some .idle)).isSome

def ok (t : Trace) : Bool := adjacent t.ev t.ev && accepts t.ev
end C19

end Rsactor.Monitor
