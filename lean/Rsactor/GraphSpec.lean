/-
  The wait-for graph walk: `Extracted.has_path` (translated from src/lib.rs on every run) decides
  reachability in ≥ 1 step, for every association list — the step bound `graph.len()` suffices
  (pigeonhole on the visited keys).
-/
import Rsactor.Extracted

namespace Rsactor.GraphSpec
open Rsactor Rsactor.Extracted

/-- k-fold successor -/
def iter (g : Graph) : Nat → Nat → Option Nat
  | 0, x => some x
  | k+1, x => (g.get? x).bind (iter g k)

/-- reference walk with explicit fuel -/
def walk (g : Graph) (to : Nat) : Nat → Nat → Bool
  | 0, _ => false
  | fuel+1, cur =>
    match g.get? cur with
    | some nxt => if nxt == to then true else walk g to fuel nxt
    | none => false

/-- the translated loop *is* the reference walk (this lemma is what breaks if the source's loop changes) -/
theorem loop_eq_walk (g : Graph) (frm to ms : Nat) :
    ∀ fuel cur, has_path.loop g frm to fuel cur ms = walk g to fuel cur := by
  intro fuel
  induction fuel with
  | zero => intro cur; rfl
  | succ n ih =>
    intro cur
    simp only [has_path.loop, walk]
    cases g.get? cur with
    | none => rfl
    | some nxt => simp only []; split <;> simp_all

theorem has_path_eq_walk (g : Graph) (frm to : Nat) : has_path g frm to = walk g to g.length frm := by
  simp only [has_path]; exact loop_eq_walk g frm to _ _ _

theorem walk_sound (g : Graph) (to : Nat) :
    ∀ fuel cur, walk g to fuel cur = true → ∃ k, 0 < k ∧ k ≤ fuel ∧ iter g k cur = some to := by
  intro fuel
  induction fuel with
  | zero => intro cur h; simp [walk] at h
  | succ n ih =>
    intro cur h
    simp only [walk] at h
    split at h
    · rename_i nxt hn
      split at h
      · rename_i heq
        refine ⟨1, by omega, by omega, ?_⟩
        simp [iter, hn]; simpa using heq
      · obtain ⟨k, hk0, hkn, hk⟩ := ih nxt h
        refine ⟨k+1, by omega, by omega, ?_⟩
        simp [iter, hn, hk]
    · cases h

theorem iter_add (g : Graph) : ∀ m n x, iter g (m+n) x = (iter g m x).bind (iter g n) := by
  intro m
  induction m with
  | zero => intro n x; simp [iter]
  | succ m ih =>
    intro n x
    have : m + 1 + n = (m + n) + 1 := by omega
    rw [this]
    simp only [iter]
    cases h : g.get? x with
    | none => simp
    | some y => simp [ih]

theorem walk_complete (g : Graph) (to : Nat) :
    ∀ k fuel cur, 0 < k → k ≤ fuel → iter g k cur = some to → walk g to fuel cur = true := by
  intro k
  induction k with
  | zero => intro _ _ h; omega
  | succ k ih =>
    intro fuel cur _ hkf hit
    match fuel, hkf with
    | fuel+1, hkf =>
      simp only [iter] at hit
      cases hg : g.get? cur with
      | none => simp [hg] at hit
      | some nxt =>
        simp only [hg, Option.bind_some] at hit
        simp only [walk, hg]
        by_cases hnt : nxt = to
        · simp [hnt]
        · have hk : 0 < k := by
            cases k with
            | zero => simp [iter] at hit; exact absurd hit hnt
            | succ k => omega
          simp [hnt]
          exact ih fuel nxt hk (by omega) hit

theorem get?_some_mem_keys (g : Graph) (x y : Nat) (h : g.get? x = some y) : x ∈ g.keys := by
  unfold Graph.get? at h
  cases hf : g.find? (·.1 == x) with
  | none => simp [hf] at h
  | some p =>
    have hm := List.mem_of_find?_eq_some hf
    have hp := List.find?_some hf
    simp at hp
    unfold Graph.keys
    exact List.mem_map.mpr ⟨p, hm, hp⟩

/-- nodes visited: x₀ … x_{k-1} -/
def nodes (g : Graph) : Nat → Nat → List Nat
  | 0, _ => []
  | k+1, x => x :: (match g.get? x with | some y => nodes g k y | none => [])

theorem nodes_length (g : Graph) : ∀ k x z, iter g k x = some z → (nodes g k x).length = k := by
  intro k
  induction k with
  | zero => intros; rfl
  | succ k ih =>
    intro x z h
    simp only [iter] at h
    cases hg : g.get? x with
    | none => simp [hg] at h
    | some y =>
      simp only [hg, Option.bind_some] at h
      simp [nodes, hg, ih y z h]

theorem nodes_subset_keys (g : Graph) : ∀ k x z, iter g k x = some z → ∀ n ∈ nodes g k x, n ∈ g.keys := by
  intro k
  induction k with
  | zero => intro x z _ n hn; simp [nodes] at hn
  | succ k ih =>
    intro x z h n hn
    simp only [iter] at h
    cases hg : g.get? x with
    | none => simp [hg] at h
    | some y =>
      simp only [hg, Option.bind_some] at h
      simp only [nodes, hg, List.mem_cons] at hn
      cases hn with
      | inl e => subst e; exact get?_some_mem_keys g _ y hg
      | inr e => exact ih y z h n e

theorem nodes_getElem (g : Graph) : ∀ k x z, iter g k x = some z →
    ∀ i (hi : i < (nodes g k x).length), iter g i x = some ((nodes g k x)[i]) := by
  intro k
  induction k with
  | zero => intro x z _ i hi; simp [nodes] at hi
  | succ k ih =>
    intro x z h i hi
    simp only [iter] at h
    cases hg : g.get? x with
    | none => simp [hg] at h
    | some y =>
      simp only [hg, Option.bind_some] at h
      cases i with
      | zero => simp [nodes, iter]
      | succ i =>
        simp only [nodes, hg, List.length_cons] at hi
        have := ih y z h i (by omega)
        simp [nodes, hg, iter, this]

theorem shorten (g : Graph) (k : Nat) (x to : Nat) (h : iter g k x = some to)
    (i j : Nat) (hij : i < j) (hjk : j < k)
    (hi : iter g i x = iter g j x) : iter g (k - (j - i)) x = some to := by
  have e1 : k = j + (k - j) := by omega
  have e2 : k - (j - i) = i + (k - j) := by omega
  rw [e2, iter_add, hi, ← iter_add, ← e1]; exact h

theorem bound (g : Graph) (to : Nat) :
    ∀ k x, 0 < k → iter g k x = some to → ∃ k', 0 < k' ∧ k' ≤ g.length ∧ iter g k' x = some to := by
  intro k
  induction k using Nat.strongRecOn with
  | _ k ih =>
    intro x hk h
    by_cases hle : k ≤ g.length
    · exact ⟨k, hk, hle, h⟩
    · have hlen := nodes_length g k x to h
      have hsub := nodes_subset_keys g k x to h
      have hnd : ¬ (nodes g k x).Nodup := by
        intro hn
        have := hn.length_le_of_subset (l₂ := g.keys) (fun n hn' => hsub n hn')
        simp [Graph.keys] at this
        omega
      rw [List.Nodup, List.pairwise_iff_getElem] at hnd
      have : ∃ i j, ∃ (hi : i < (nodes g k x).length) (hj : j < (nodes g k x).length), i < j ∧ (nodes g k x)[i] = (nodes g k x)[j] := by
        apply Classical.byContradiction
        intro hne
        apply hnd
        intro i j hi hj hij heq
        exact hne ⟨i, j, hi, hj, hij, heq⟩
      obtain ⟨i, j, hi, hj, hij, heq⟩ := this
      have hi' := nodes_getElem g k x to h i hi
      have hj' := nodes_getElem g k x to h j hj
      have hjk : j < k := by omega
      have := shorten g k x to h i j hij hjk (by rw [hi', hj', heq])
      exact ih (k - (j - i)) (by omega) x (by omega) this

/-- `hasPath_spec`: the translated `has_path` answers exactly "is `to` reachable from `frm` in at least
    one step of the wait-for map", for every graph. -/
theorem hasPath_spec (g : Graph) (frm to : Nat) :
    has_path g frm to = true ↔ ∃ k, 0 < k ∧ iter g k frm = some to := by
  rw [has_path_eq_walk]
  constructor
  · intro h
    obtain ⟨k, h0, _, hk⟩ := walk_sound g to _ _ h
    exact ⟨k, h0, hk⟩
  · intro ⟨k, h0, hk⟩
    obtain ⟨k', h0', hle, hk'⟩ := bound g to k frm h0 hk
    exact walk_complete g to k' _ frm h0' hle hk'

end Rsactor.GraphSpec
