/-
  C11 — Identity is unique and stable; is_alive / upgrade tell the truth.
-/
import Rsactor.Inv.Handles
import Rsactor.Inv.End
import Rsactor.Props.C03
import Rsactor.Ties.handle_algebra_shape
import Rsactor.Ties.spawn_shape
import Rsactor.Ties.forwarders_verbatim

namespace Rsactor.Props.C11
open Rsactor Rsactor.Model Rsactor.Monitor Rsactor.Extracted

/-- the ids handed to the first `n` spawns of a process: one atomic `fetch_add(step)` each on a counter
    that starts at `start` (both read from src/lib.rs on every run); the k-th is `start + k * step` -/
def ids (n : Nat) : List Nat := List.range' actor_id_start n actor_id_step

/-- `ids_unique`: however the spawns of a process are interleaved (each is one atomic fetch_add), the
    ids handed out are pairwise distinct, for any number of actors. -/
theorem ids_unique (n : Nat) : (ids n).Nodup :=
  List.nodup_range' (step := actor_id_step) (h := by decide)

theorem id_of_kth (n k : Nat) (hk : k < n) : (ids n)[k]'(by simp [ids]; exact hk) = actor_id_start + actor_id_step * k := by
  simp [ids, List.getElem_range']

/-- `alive_true`: is_alive() on a strong handle answers `true` as long as the actor has not ended
    (so from spawn until it begins to end), … -/
theorem alive_true (cap : Nat) (sc : Script) (ls : List Label) (s s' : Sys)
    (hr : run? (init cap sc) ls = some s) (h : Nat) (hh : (h, true) ∈ s.handles) (hne : s.pc ≠ .ended)
    (hs : step? s (.probeAlive h) = some s') : Ev.probeAlive h true ∈ s'.ev := by
  have he := (C03.end_ids_run cap sc ls s hr).2
  have hopen := EndInv_live_ne s he hne
  simp only [step?] at hs
  split at hs
  · cases hs; simp [hopen]
  · rename_i hf; cases hs
    -- the handle found under id `h` could be a weak one with the same id only if ids were reused; whatever
    -- was found, a strong entry exists, so the answer `strongCount > 0` is also `true`
    have : 0 < s.strongCount := by
      have : 0 < strongHandles s.handles := by
        unfold strongHandles
        exact List.length_pos_of_mem (List.mem_filter.mpr ⟨hh, rfl⟩)
      unfold Sys.strongCount; omega
    simp [this]
  · cases hs

/-- … and `alive_false`: once the JoinHandle has resolved it answers `false`. -/
theorem alive_false (cap : Nat) (sc : Script) (ls : List Label) (s s' : Sys)
    (hr : run? (init cap sc) ls = some s) (h : Nat) (hf : s.handles.find? (·.1 = h) = some (h, true))
    (he : s.pc = .ended) (hs : step? s (.probeAlive h) = some s') : Ev.probeAlive h false ∈ s'.ev := by
  have hc := ((C03.end_ids_run cap sc ls s hr).2).closedIff.mpr he
  simp only [step?, hf] at hs
  cases hs; simp [hc]

/-- after the JoinHandle has resolved every send fails at once (Send), see `C03.later_fail` -/
theorem sends_fail_after_end (s : Sys) (hc : s.rxOpen = false) (h : Nat) (hh : (h, true) ∈ s.handles) (op : OpSpec) :
    ∃ s', step? s (.issue h op) = some s' ∧
      s'.client s.nextOid = .done (match op.kind with | .tell => .send | .ask => .send | _ => .ok) :=
  C03.later_fail s hc h hh op

/-- `upgrade_iff`: ActorWeak::upgrade returns a reference exactly while some strong reference (handle, queued
    message, …) still exists, and what it returns is an ordinary strong handle. -/
theorem upgrade_iff (s s' : Sys) (h : Nat) (hs : step? s (.upgrade h) = some s') :
    (0 < s.strongCount → s'.handles = s.handles ++ [(s.nextHid, true)]) ∧
    (s.strongCount = 0 → s'.handles = s.handles) := by
  simp only [step?] at hs
  split at hs
  · split at hs
    · cases hs; exact ⟨fun _ => rfl, fun h0 => by omega⟩
    · rename_i hp; cases hs; exact ⟨fun h0 => absurd h0 hp, fun _ => rfl⟩
  · cases hs

/-- `upgrade_truthful_monitor`: in every run, every failed upgrade happened while the script held no strong
    handle - the very predicate (`Monitor.C11.upgradeTruthful`) that is evaluated on real traces - and the
    strong handles read off the trace are exactly those of the handle table -/
theorem upgrade_truthful_monitor (cap : Nat) (sc : Script) (ls : List Label) (s : Sys)
    (hr : run? (init cap sc) ls = some s) :
    Monitor.C11.upgradeTruthful s.ev = true ∧
    (s.ev.foldl Monitor.C11.upStep ([0], true)).1 = strongIds s.handles := by
  have h := run_inv HInv_step (init cap sc) s ls (HInv_init cap sc) hr
  have hf := h.fold
  unfold upFold at hf
  unfold Monitor.C11.upgradeTruthful
  rw [hf]; exact ⟨rfl, rfl⟩

-- non-vacuity
example : ids 5 = [1, 2, 3, 4, 5] := by decide

/-! ### ties to the source: identity is copied into every derived handle; is_alive / upgrade look at both channels -/
-- @tie Rsactor.Ties.handle_algebra_shape
-- @tie Rsactor.Ties.spawn_shape
-- @tie Rsactor.Ties.forwarders_verbatim

end Rsactor.Props.C11
