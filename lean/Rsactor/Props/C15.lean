/-
  C15 — Deadlock detection is sound and leaves no residue.
-/
import Rsactor.Inv.NetInv
import Rsactor.Ties.feature_sites_shape
import Rsactor.Ties.ask_protocol_shape

namespace Rsactor.Props.C15
open Rsactor Rsactor.Net Rsactor.Extracted Rsactor.GraphSpec

/-- `graph_exact`: in every reachable state the wait-for map is exactly the set of asks that are in
    flight and unanswered (or whose callee died and whose asker has not yet observed it): an ask that was
    answered, timed out, was cancelled or failed has no edge. -/
theorem graph_exact (ls : List NLabel) (n : Net) (hr : run? init ls = some n) (a b : Nat) :
    n.graph.get? a = some b ↔
      ∃ t, (n.asks t).caller = a ∧ (n.asks t).callee = b ∧ waiting (n.asks t).st = true := by
  have h := NInv_run ls n hr
  constructor
  · intro hg; exact ⟨n.tokOf a, h.edgeAsk a b hg⟩
  · intro ⟨t, c1, c2, c3⟩
    have := (h.askEdge t c3).1
    rw [c1, c2] at this; exact this

theorem iter_prefix (g : Graph) : ∀ k j x z, iter g k x = some z → j ≤ k → ∃ y, iter g j x = some y ∧ iter g (k - j) y = some z := by
  intro k j x z h hj
  have : k = j + (k - j) := by omega
  rw [this, iter_add] at h
  cases hy : iter g j x with
  | none => simp [hy] at h
  | some y => exact ⟨y, rfl, by simpa [hy] using h⟩

/-- `sound`: a deadlock is reported only if the asker asks itself or a chain of asks leads from the
    asked actor back to the asker in which EVERY link is an ask that is in flight and unanswered at that
    moment — never an answered, abandoned or failed one. -/
theorem sound (ls : List NLabel) (n n' : Net) (hr : run? init ls = some n) (a b : Nat) (path : List Nat)
    (hs : step? n (.ask a b) = some n') (hd : NEv.deadlock a b path ∈ n'.ev) (hnew : NEv.deadlock a b path ∉ n.ev) :
    a = b ∨ ∃ k, 0 < k ∧ iter n.graph k b = some a ∧
      ∀ j x y, j < k → iter n.graph j b = some x → n.graph.get? x = some y →
        (n.asks (n.tokOf x)).caller = x ∧ (n.asks (n.tokOf x)).callee = y ∧ (n.asks (n.tokOf x)).st = .inflight := by
  have h := NInv_run ls n hr
  simp only [step?, stepWith] at hs
  split at hs
  · cases hs
  · rename_i hg
    have halive : n.dead a = false := by
      cases hda : n.dead a with
      | false => rfl
      | true => exact absurd (Or.inl hda) hg
    split at hs
    · rename_i hc
      simp only [Bool.or_eq_true, beq_iff_eq] at hc
      rcases hc with hc | hc
      · exact Or.inl hc
      · right
        obtain ⟨k, hk0, hk⟩ := (GraphSpec.hasPath_spec n.graph b a).mp hc
        refine ⟨k, hk0, hk, ?_⟩
        intro j x y hj hx hxy
        obtain ⟨c1, c2, c3⟩ := h.edgeAsk x y hxy
        refine ⟨c1, c2, ?_⟩
        -- y is alive: it is the asker, or it has an out-edge on the chain
        have hy : iter n.graph (j + 1) b = some y := by
          have : j + 1 = j + 1 := rfl
          rw [iter_add, hx]; simp [iter, hxy]
        have hyalive : n.dead y = false := by
          cases hdy : n.dead y with
          | false => rfl
          | true =>
            obtain ⟨_, dq⟩ := h.deadQuiet y hdy
            by_cases hjk : j + 1 = k
            · rw [hjk, hk] at hy; cases hy; rw [halive] at hdy; cases hdy
            · obtain ⟨y', hy1, hy2⟩ := iter_prefix n.graph k (j + 1) b a hk (by omega)
              rw [hy] at hy1; cases hy1
              have : k - (j + 1) = (k - (j + 1) - 1) + 1 := by omega
              rw [this] at hy2
              simp only [iter, dq, Option.bind_none] at hy2
              cases hy2
        cases hst : (n.asks (n.tokOf x)).st with
        | inflight => rfl
        | lost =>
          have := h.lostDead _ hst
          rw [c2, hyalive] at this; cases this
        | _ => rw [hst] at c3; simp [waiting] at c3
    · split at hs <;> (cases hs; simp at hd; exact absurd hd hnew)

/-- `no_residue`: once every ask has finished — by reply, timeout, cancellation, the callee's death or
    a panic — the wait-for map is empty. -/
theorem no_residue (ls : List NLabel) (n : Net) (hr : run? init ls = some n)
    (hall : ∀ t, waiting (n.asks t).st = false) : n.graph = [] := by
  have h := NInv_run ls n hr
  apply eq_nil_of_get?_none
  intro x
  cases hg : n.graph.get? x with
  | none => rfl
  | some y =>
    have := (h.edgeAsk x y hg).2.2
    rw [hall] at this; cases this

/-- `ended_dont_count`: as soon as an ask future completes or is dropped (reply received, Receive after
    the callee's death, timeout, cancellation) its asker has no edge. -/
theorem ended_dont_count (ls : List NLabel) (n n' : Net) (hr : run? init ls = some n) (t : Nat)
    (hs : step? n (.resume t) = some n' ∨ step? n (.giveUp t) = some n') :
    n'.graph.get? (n.asks t).caller = none := by
  have h := NInv_run ls n hr
  have f2 := flags.2
  have key : ∀ (st' : AskSt), holding (n.asks t).st = true → holding st' = false → st' ≠ .lost →
      (clear n (n.asks t).caller t).graph.get? (n.asks t).caller = none :=
    fun st' hh hs hl => (NInv_release n t _ st' h rfl hh hs hl).2
  rcases hs with hs | hs
  · simp only [step?, stepWith] at hs
    split at hs
    · rename_i hst; cases hs; simp only [f2, if_true]; exact key .done (by rw [hst]; rfl) rfl nofun
    · rename_i hst; cases hs; simp only [f2, if_true]; exact key .done (by rw [hst]; rfl) rfl nofun
    · cases hs
  · simp only [step?, stepWith] at hs
    split at hs
    · rename_i hst; cases hs; simp only [f2, if_true]; exact key .abandoned (by rw [hst]; rfl) rfl nofun
    · rename_i hst; cases hs; simp only [f2, if_true]; exact key .abandoned (by rw [hst]; rfl) rfl nofun
    · rename_i hst; cases hs; simp only [f2, if_true]; exact key .abandoned (by rw [hst]; rfl) rfl nofun
    · cases hs

/-- `answered_no_edge`: with the reply the asker's edge disappears — before the asker is even polled. -/
theorem answered_no_edge (ls : List NLabel) (n n' : Net) (hr : run? init ls = some n) (t : Nat)
    (hst : (n.asks t).st = .inflight) (hs : step? n (.reply t) = some n') :
    n'.graph.get? (n.asks t).caller = none := by
  have h := NInv_run ls n hr
  obtain ⟨_, e2⟩ := h.askEdge t (by rw [hst]; rfl)
  simp only [step?, stepWith, hst, flags.1, if_true] at hs
  cases hs
  simp only [clear_get?, e2, and_self, if_true]

/-- `untracked`: the protocol has no label for a caller without an actor context; the source
    confirms that such callers skip tracking (shape lemma `ask_protocol_shape`).  The scenario of the
    stale edge (DESIGN.md §9.1): B answers A's ask and, before A is polled, asks A — no deadlock. -/
theorem stale_edge_scenario_is_fine :
    ∃ n, run? init [.ask 1 2, .reply 1, .ask 2 1] = some n ∧
      n.ev.all (fun e => match e with | .deadlock _ _ _ => false | _ => true) = true ∧
      n.graph = [(2, 1)] := by
  refine ⟨_, rfl, ?_, ?_⟩ <;> decide

/-! ### ties to the source -/
-- @tie Rsactor.Ties.feature_sites_shape
-- @tie Rsactor.Ties.ask_protocol_shape

end Rsactor.Props.C15
