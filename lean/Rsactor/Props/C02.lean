/-
  C02 — Handling order respects mailbox acceptance order (per sender and global).
-/
import Rsactor.Inv.Fifo
import Rsactor.Inv.Rej
import Rsactor.Ties.send_paths_shape
import Rsactor.Ties.lifecycle_arms

namespace Rsactor.Props.C02
open Rsactor Rsactor.Model Rsactor.Monitor

/-- `fifo`: in every run, the handler starts, in order, are exactly the envelopes among the first
    `taken` items of the acceptance log, and (while the receiver lives) the mailbox is the rest of
    that log: dequeue order = acceptance order for every mix of operations, the stop marker included. -/
theorem fifo (cap : Nat) (sc : Script) (ls : List Label) (s : Sys)
    (hr : run? (init cap sc) ls = some s) :
    startedMids s.ev = envIds (s.accepted.take s.taken) ∧
    (s.rxOpen = true → s.mbox = s.accepted.drop s.taken) := by
  obtain ⟨_, h2, _, h4⟩ := run_inv FifoInv_step (init cap sc) s ls (FifoInv_init cap sc) hr
  exact ⟨h4, h2⟩

/-- the acceptance log never loses or reorders anything: it only grows at its end -/
theorem accepted_grows (s s' : Sys) (l : Label) (hs : step? s l = some s') :
    ∃ suffix, s'.accepted = s.accepted ++ suffix := by
  step_cases l hs
  all_goals first
    | (refine ⟨[], ?_⟩; simp; done)
    | exact ⟨[_], afterPush_accepted _ _⟩
    | (refine ⟨[], ?_⟩; split <;> simp; done)

/-- `per_item_once`: an item is accepted at most once, so positions in the log are well defined -/
theorem accepted_once (cap : Nat) (sc : Script) (ls : List Label) (s : Sys)
    (hr : run? (init cap sc) ls = some s) : (accOids s).Nodup :=
  (ids_rej_run cap sc ls s hr).1.accNodup

-- non-vacuity: two senders, capacity 1: the second push waits for the dequeue and is handled second
example : ∃ s, run? (init 1 {})
    [.gate, .startDone, .issue 0 { kind := .tell }, .push 0, .issue 0 { kind := .ask },
     .pollTerm, .pollMail, .grantWake 1, .push 1, .gate, .handlerDone, .pollTerm, .pollMail] = some s ∧
    startedMids s.ev = [0, 1] := by
  refine ⟨_, rfl, ?_⟩; decide


/-! ### ties to the source: shape lemmas about the tables regenerated from /repo on every run -/
-- @tie Rsactor.Ties.send_paths_shape
-- @tie Rsactor.Ties.lifecycle_arms

end Rsactor.Props.C02
