/-
  C02 — Handling order respects mailbox acceptance order (per sender and global).
-/
import Rsactor.Inv.Fifo
import Rsactor.Inv.Rej
import Rsactor.Inv.Stop
import Rsactor.Props.C01
import Rsactor.Ties.send_paths_shape
import Rsactor.Ties.lifecycle_arms

namespace Rsactor.Props.C02
open Rsactor Rsactor.Model Rsactor.Monitor

/-- `fifo`: in every run, the handler starts, in order, are exactly the envelopes among the first
    `taken` items of the acceptance log, and (while the receiver lives) the mailbox is the rest of
    that log: dequeue order = acceptance order for every mix of operations, the stop marker included. -/
theorem fifo (cap : Nat) (sc : Script) (ls : List Label) (s : Sys)
    (hr : run? (init cap sc) ls = some s) :
    startedMids s.ev = envIds (s.accepted.take s.taken) ∧
    (s.rxOpen = true → s.mbox = s.accepted.drop s.taken) := by
  obtain ⟨_, h2, _, h4⟩ := run_inv FifoInv_step (init cap sc) s ls (FifoInv_init cap sc) hr
  exact ⟨h4, h2⟩

/-- the acceptance log never loses or reorders anything: it only grows at its end -/
theorem accepted_grows (s s' : Sys) (l : Label) (hs : step? s l = some s') :
    ∃ suffix, s'.accepted = s.accepted ++ suffix := by
  step_cases l hs
  all_goals first
    | (refine ⟨[], ?_⟩; simp; done)
    | exact ⟨[_], afterPush_accepted _ _⟩
    | (refine ⟨[], ?_⟩; split <;> simp; done)

/-- `per_item_once`: an item is accepted at most once, so positions in the log are well defined -/
theorem accepted_once (cap : Nat) (sc : Script) (ls : List Label) (s : Sys)
    (hr : run? (init cap sc) ls = some s) : (accOids s).Nodup :=
  (ids_rej_run cap sc ls s hr).1.accNodup

/-- `before_stop_handled`: once the loop has dequeued the stop marker at position k of the acceptance log,
    every message accepted before it (position < k) has had its handler started - stop() takes its place
    in the order. -/
theorem before_stop_handled (cap : Nat) (sc : Script) (ls : List Label) (s : Sys)
    (hr : run? (init cap sc) ls = some s) (k o : Nat) (_hk : s.accepted[k]? = some (.stop o))
    (ht : s.taken = k + 1) (i : Nat) (hi : i < k) (m : Nat) (kd : Kind)
    (ha : s.accepted[i]? = some (.env m kd)) : m ∈ startedMids s.ev :=
  C01.graceful_complete cap sc ls s hr i (by omega) m kd ha

/-- `after_stop_never_handled`: in every reachable state, a message accepted behind a stop marker
    (position > k) has not been handled - and never will be, since this holds in every later state too.
    A stop() call returns when its marker has been accepted, so nothing accepted after stop() returned
    is ever handled. -/
theorem after_stop_never_handled (cap : Nat) (sc : Script) (ls : List Label) (s : Sys)
    (hr : run? (init cap sc) ls = some s) (k o : Nat) (hk : s.accepted[k]? = some (.stop o))
    (i : Nat) (hi : k < i) (m : Nat) (kd : Kind) (ha : s.accepted[i]? = some (.env m kd)) :
    m ∉ startedMids s.ev := by
  obtain ⟨hf, hid, _, hmk⟩ := StopInv_run cap sc ls s hr
  have hbound : s.taken ≤ k + 1 := by rcases hmk k o hk with h | ⟨h, _⟩ <;> omega
  intro hmem
  rw [hf.2.2.2] at hmem
  obtain ⟨it, hit, hoid⟩ := List.mem_filterMap.mp hmem
  obtain ⟨j, hj⟩ := List.getElem?_of_mem hit
  rw [List.getElem?_take] at hj
  split at hj
  · rename_i hjt
    -- the same oid at two different positions of the log
    have hnd := hid.accNodup
    unfold accOids at hnd
    have h1 : (s.accepted.map Item.oid)[j]? = some m := by
      rw [List.getElem?_map, hj]; cases it <;> simp_all [Item.oid]
    have h2 : (s.accepted.map Item.oid)[i]? = some m := by
      rw [List.getElem?_map, ha]; rfl
    have hji : j ≠ i := by omega
    have hjl : j < (s.accepted.map Item.oid).length := by
      rcases List.getElem?_eq_some_iff.mp h1 with ⟨h, _⟩; exact h
    exact hji ((List.getElem?_inj hjl hnd).mp (h1.trans h2.symm))
  · cases hj

/-- `nothing_after_stop_begins`: from the moment the loop leaves its select for good (on_stop is running or
    the task has ended, whatever the cause) no handler starts any more. -/
theorem nothing_after_stop_begins (cap : Nat) (sc : Script) (ls ls' : List Label) (s s' : Sys)
    (hr : run? (init cap sc) ls = some s) (hp : isStopping s.pc = true) (hr' : run? s ls' = some s') :
    startedMids s'.ev = startedMids s.ev := by
  have hrun : run? (init cap sc) (ls ++ ls') = some s' := by rw [run_append, hr]; exact hr'
  have hf := (StopInv_run cap sc ls s hr).1
  have hf' := (StopInv_run cap sc (ls ++ ls') s' hrun).1
  have ht := (taken_frozen_run s s' ls' hr' hp).1
  -- the acceptance log of s is a prefix of that of s'
  have hpre : ∃ suf, s'.accepted = s.accepted ++ suf := by
    clear hrun hf hf' ht hp hr
    induction ls' generalizing s with
    | nil => simp [run?] at hr'; subst hr'; exact ⟨[], by simp⟩
    | cons l ls ih =>
      simp only [run?] at hr'
      split at hr'
      · cases hr'
      · rename_i s1 hs1
        obtain ⟨a, ha⟩ := accepted_grows' s s1 l hs1
        obtain ⟨b, hb⟩ := ih s1 hr'
        exact ⟨a ++ b, by rw [hb, ha, List.append_assoc]⟩
  obtain ⟨suf, hsuf⟩ := hpre
  rw [hf'.2.2.2, hf.2.2.2, ht, hsuf, List.take_append_of_le_length hf.1]

-- non-vacuity: two senders, capacity 1: the second push waits for the dequeue and is handled second
example : ∃ s, run? (init 1 {})
    [.gate, .startDone, .issue 0 { kind := .tell }, .push 0, .issue 0 { kind := .ask },
     .pollTerm, .pollMail, .grantWake 1, .push 1, .gate, .handlerDone, .pollTerm, .pollMail] = some s ∧
    startedMids s.ev = [0, 1] := by
  refine ⟨_, rfl, ?_⟩; decide


/-! ### ties to the source: shape lemmas about the tables regenerated from /repo on every run -/
-- @tie Rsactor.Ties.send_paths_shape
-- @tie Rsactor.Ties.lifecycle_arms

end Rsactor.Props.C02
