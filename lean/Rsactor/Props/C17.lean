/-
  C17 — Blocking API is the async API seen from a thread.
-/
import Rsactor.Props.C01
import Rsactor.Props.C03
import Rsactor.Props.C13
import Rsactor.Ties.blocking_dispatch_shape
import Rsactor.Ties.send_paths_shape
import Rsactor.Ties.timeout_wrappers_shape
import Rsactor.Ties.reply_wait_shape
import Rsactor.Ties.dead_letter_census

namespace Rsactor.Props.C17
open Rsactor Rsactor.Model Rsactor.Extracted

/-- `aliases`: tell_blocking / ask_blocking delegate to blocking_tell / blocking_ask with the timeout
    ignored, and the dispatchers select the timeout / no-timeout implementation (extracted). -/
theorem aliases : blocking_dispatch.all (·.2) = true := by decide

/-- `blocking_same_paths`: the no-timeout blocking variants build the same envelope (same reply channel
    discipline, same embedded strong reference) and push into the same mailbox sender as tell / ask; the
    timeout variants run the very same `tell` / `ask` under `tokio::time::timeout` on a helper thread that
    has a timer runtime.  Hence a blocking operation is, for the actor and the mailbox, an `issue` label of
    the model like any other: -/
theorem blocking_same_paths :
    (send_paths.filter (fun p => p.call == .blockingSend)).map (fun p => (p.kind, p.replyChannel, p.embedsStrongRef)) =
      [(.tell, false, true), (.ask, true, true)] ∧
    (send_paths.filter (fun p => p.call == .send)).map (fun p => (p.kind, p.replyChannel, p.embedsStrongRef)) =
      [(.tell, false, true), (.ask, true, true), (.stop, false, true)] ∧
    (timeout_wrappers.filter (fun w => w.1 == "blocking_tell_with_timeout_impl" || w.1 == "blocking_ask_with_timeout_impl")).map
      (fun w => (w.2.1, w.2.2.1, w.2.2.2.2.2.2)) = [("tell", true, true), ("ask", true, true)] := by decide

/-- hence every theorem about delivery, order, reply integrity, errors and dead letters — stated for
    every label list, i.e. for every mix of clients whatever thread they run on — covers the blocking
    callers too; instances: -/
theorem blocking_inherits (cap : Nat) (sc : Script) (ls : List Label) (s : Sys)
    (hr : run? (init cap sc) ls = some s) :
    Monitor.C01.atMostOnce s.ev = true ∧ Monitor.C01.rejectedNever s.ev = true ∧
    Monitor.C03.replyIntegrity s.ev = true ∧ Monitor.C13.paired s.ev = true :=
  ⟨C01.at_most_once cap sc ls s hr, C01.rejected_never_monitor cap sc ls s hr,
   C03.reply_integrity cap sc ls s hr, (C13.dead_exact cap sc ls s hr).1⟩

/-! ### ties to the source -/
-- @tie Rsactor.Ties.blocking_dispatch_shape
-- @tie Rsactor.Ties.send_paths_shape
-- @tie Rsactor.Ties.timeout_wrappers_shape
-- @tie Rsactor.Ties.reply_wait_shape
-- @tie Rsactor.Ties.dead_letter_census

end Rsactor.Props.C17
