/-
  C13 — Exactly one dead letter per failed delivery, none per success.
-/
import Rsactor.Inv.Dead
import Rsactor.Ties.dead_letter_census
import Rsactor.Ties.timeout_wrappers_shape
import Rsactor.Ties.forwarders_verbatim

namespace Rsactor.Props.C13
open Rsactor Rsactor.Model Rsactor.Monitor

/-- `dead_exact`: in every run, the dead letters recorded are exactly the failing returns
    (Send ↔ actor stopped, Timeout ↔ timeout, Receive ↔ reply dropped), in the same order, each dead
    letter immediately followed by the failing return of the same operation; a successful return
    records none. -/
theorem dead_exact (cap : Nat) (sc : Script) (ls : List Label) (s : Sys)
    (hr : run? (init cap sc) ls = some s) :
    C13.paired s.ev = true ∧ s.dead = C13.failures s.ev ∧ C13.deadLetters s.ev = C13.failures s.ev := by
  obtain ⟨h1, h2, h3⟩ := run_inv DeadInv_step (init cap sc) s ls (DeadInv_init cap sc) hr
  exact ⟨by simp [C13.paired, h1], by rw [h2, h3], h3⟩

/-- `count_exact`: the dead-letter counter equals the number of failed deliveries. -/
theorem count_exact (cap : Nat) (sc : Script) (ls : List Label) (s : Sys)
    (hr : run? (init cap sc) ls = some s) :
    s.dead.length = (C13.failures s.ev).length := by
  rw [(dead_exact cap sc ls s hr).2.1]

/-- the reason always matches the returned error -/
theorem reason_table :
    C13.reasonOf .send = some .actorStopped ∧ C13.reasonOf .timeout = some .timeout ∧
    C13.reasonOf .receive = some .replyDropped ∧ C13.reasonOf .ok = none ∧ ∀ m, C13.reasonOf (.reply m) = none :=
  ⟨rfl, rfl, rfl, rfl, fun _ => rfl⟩

-- non-vacuity: a run with one success, one Send failure, one Timeout and one ReplyDropped
example : ∃ s, run? (init 1 {})
    [.gate, .startDone, .issue 0 { kind := .ask }, .push 0, .pollTerm, .pollMail,
     .issue 0 { kind := .tell, timeout := some 5 }, .push 1, .issue 0 { kind := .ask },
     .issue 0 { kind := .tell, timeout := some 5 }, .advance 5, .timeoutFire 3,
     .issue 0 { kind := .kill }, .gate, .handlerDone, .recvReply 0, .pollTerm, .gate, .stopDone,
     .grantWake 2, .issue 0 { kind := .tell }] = some s ∧
    s.dead = [(3, .timeout), (2, .actorStopped), (5, .actorStopped)] := by
  refine ⟨_, rfl, ?_⟩; decide


/-! ### ties to the source: shape lemmas about the tables regenerated from /repo on every run -/
-- @tie Rsactor.Ties.dead_letter_census
-- @tie Rsactor.Ties.timeout_wrappers_shape
-- @tie Rsactor.Ties.forwarders_verbatim

end Rsactor.Props.C13
