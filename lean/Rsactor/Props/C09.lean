/-
  C09 — Mailbox capacity is a hard bound with waiting (not dropping) back-pressure.
  Property theorems only; helper lemmas live in `Rsactor/Inv/`.
-/
import Rsactor.Inv.Cap
import Rsactor.Ties.send_paths_shape
import Rsactor.Inv.Progress
import Rsactor.Inv.OkAcc
import Rsactor.Inv.SendErr
import Rsactor.Inv.OkStop

namespace Rsactor.Props.C09
open Rsactor Rsactor.Model Rsactor.Extracted

/-- `bound`: for every schedule, every number of senders and every capacity, the items accepted
    but not yet taken (stop markers included) plus the slots reserved by senders that hold a permit
    never exceed the capacity the actor was spawned with. -/
theorem bound (cap : Nat) (sc : Script) (ls : List Label) (s : Sys)
    (hr : run? (init cap sc) ls = some s) :
    s.mbox.length + grantedCount s.waiters ≤ cap := by
  have h := capacity_bound cap sc ls s hr
  have hc : s.cap = cap := by
    have := run_inv (P := fun s => s.cap = cap) (fun s s' l h hs => by rw [cap_const s s' l hs]; exact h)
      (init cap sc) s ls rfl hr
    exact this
  omega

/-- the channel is created with exactly the requested capacity (translated from `spawn_with_mailbox_capacity`) -/
theorem cap_is_request (n : Nat) : mailbox_chan_cap n = n := rfl

/-- `spawn` uses the configured default, else 32 -/
theorem default_capacity (cfg : Option Nat) : spawn_capacity cfg = cfg.getD 32 := rfl

/-- capacity 0 is rejected at spawn (the `assert!`), every other capacity is accepted -/
theorem zero_rejected (n : Nat) : spawn_guard n = true ↔ 0 < n := by
  simp [spawn_guard]

/-- the process-wide default can be set exactly once, with a non-zero value -/
theorem set_once (cfg : Option Nat) (n : Nat) :
    (set_default_mailbox_capacity cfg n).1 = .ok () ↔ (0 < n ∧ cfg = none) := by
  unfold set_default_mailbox_capacity
  cases cfg <;> cases n <;> simp

/-- a successful call stores the value; a failed one leaves the cell untouched -/
theorem set_effect (cfg : Option Nat) (n : Nat) :
    (set_default_mailbox_capacity cfg n).2 = (if 0 < n ∧ cfg = none then some n else cfg) := by
  unfold set_default_mailbox_capacity
  cases cfg <;> cases n <;> simp

/-- once set, no sequence of later calls changes it -/
theorem set_stable (m : Nat) (ns : List Nat) :
    ns.foldl (fun c n => (set_default_mailbox_capacity c n).2) (some m) = some m := by
  induction ns with
  | nil => rfl
  | cons n ns ih =>
    simp only [List.foldl_cons]
    rw [set_effect]
    simpa using ih

/-- `free_slot_no_wait`: "a send never waits while a slot is free" - a tell / ask / stop() issued on an open mailbox
    with a free slot (and nobody queued ahead of it without a permit) holds its permit at once: its next step
    is the push. -/
theorem free_slot_no_wait (s : Sys) (h : Nat) (op : OpSpec) (it : Item) (hh : (h, true) ∈ s.handles)
    (hit : opItem s.nextOid op.kind = some it) (ho : s.rxOpen = true)
    (hroom : s.mbox.length + grantedCount s.waiters < s.cap) (hall : s.waiters.all (·.granted) = true) :
    ∃ s', step? s (.issue h op) = some s' ∧ ⟨s.nextOid, it, true, true⟩ ∈ s'.waiters ∧
      s'.client s.nextOid = .waiting ∧ s'.dead = s.dead := by
  simp only [step?, Sys.issue, hh, if_true, hit, ho, not_true_eq_false, if_false, hroom, hall, and_self]
  exact ⟨_, rfl, by simp, by simp [setF], rfl⟩

/-- `full_mailbox_waits`: "a send into a full mailbox waits rather than failing, overwriting or dropping" - issued
    on an open mailbox without a free slot, the operation is queued (FIFO, behind earlier senders), nothing is
    recorded as failed, and the mailbox content is untouched. -/
theorem full_mailbox_waits (s : Sys) (h : Nat) (op : OpSpec) (it : Item) (hh : (h, true) ∈ s.handles)
    (hit : opItem s.nextOid op.kind = some it) (ho : s.rxOpen = true)
    (hfull : ¬ (s.mbox.length + grantedCount s.waiters < s.cap ∧ s.waiters.all (·.granted) = true)) :
    ∃ s', step? s (.issue h op) = some s' ∧ s'.waiters = s.waiters ++ [⟨s.nextOid, it, false, false⟩] ∧
      s'.client s.nextOid = .waiting ∧ s'.dead = s.dead ∧ s'.mbox = s.mbox := by
  simp only [step?, Sys.issue, hh, if_true, hit, ho, not_true_eq_false, if_false, hfull]
  exact ⟨_, rfl, by simp, by simp [setF], rfl, rfl⟩

/-- `no_idle_slot`: "a send never waits while a slot is free", as a fact about every reachable state: while the mailbox is
    open, if any sender is queued without a permit then every slot is occupied or promised - items in the mailbox plus
    permits handed out equal the capacity. -/
theorem no_idle_slot (cap : Nat) (sc : Script) (ls : List Label) (s : Sys)
    (hr : run? (init cap sc) ls = some s) (ho : s.rxOpen = true) (hu : ∃ w ∈ s.waiters, w.granted = false) :
    s.mbox.length + grantedCount s.waiters = cap := by
  obtain ⟨⟨_, _, hc, hn, _⟩, hcap⟩ := AllInv_run cap sc ls s hr
  have h1 := hn ho hu
  have h2 := hc.1
  omega

/-- `ok_tell_was_accepted`: "a send waits, it is not dropped", seen from the caller: in every reachable state, a tell
    that has returned Ok went into the channel - its `accepted` event is in the history - or, in the one window in
    which that cannot be (the actor dropped its receivers while the sender already held its slot), the actor has
    ended and the message lies in the closed channel.  No Ok is ever reported for a message that is nowhere.
    (The trace monitor `C09.okMeansAccepted` checks the same, with the order of the two events, on every real trace.) -/
theorem ok_tell_was_accepted (cap : Nat) (sc : Script) (ls : List Label) (s : Sys)
    (hr : run? (init cap sc) ls = some s) (oid a : Nat) (hret : Ev.ret oid .ok a ∈ s.ev)
    (hk : (s.spec oid).kind = .tell) :
    (∃ i, Ev.accepted oid i ∈ s.ev) ∨ (s.rxOpen = false ∧ Item.env oid .tell ∈ s.stranded) := by
  obtain ⟨⟨_, _, _, _, hp⟩, _⟩ := AllInv_run cap sc ls s hr
  rcases ok_run cap sc ls s hr oid a hret hk with h | h
  · exact Or.inl h
  · refine Or.inr ⟨hp.2.2 ?_, h⟩
    intro h0; rw [h0] at h; cases h

-- the premises are satisfiable: a tell accepted by a running actor has returned Ok after its `accepted` event
example : ∃ s, run? (init 1 {}) [.gate, .startDone, .issue 0 { kind := .tell }, .push 0] = some s ∧
    Ev.ret 0 .ok 0 ∈ s.ev ∧ Ev.accepted 0 0 ∈ s.ev := by
  refine ⟨_, rfl, ?_, ?_⟩ <;> decide

/-- `send_error_only_after_end`: "a send waits, it is never refused": in every reachable state, an operation that was
    answered with Err(Send) was answered after the actor's task had finished (`joined` is in the history). A running
    actor - full mailbox or not, stop pending or not - never turns a sender away; it makes it wait.
    (The trace monitor `C09.failOnlyWhenClosed` checks the same, with the order of the events, on every real trace.) -/
theorem send_error_only_after_end (cap : Nat) (sc : Script) (ls : List Label) (s : Sys)
    (hr : run? (init cap sc) ls = some s) (oid a : Nat) (hret : Ev.ret oid .send a ∈ s.ev) :
    ∃ o, Ev.joined o ∈ s.ev :=
  (send_run cap sc ls s hr).2 oid a hret

/-- `ok_stop_was_accepted_or_closed`: stop() is a send like any other: in every reachable state, a stop() that has
    returned Ok put its marker into the mailbox (its `accepted` event is in the history) or met an actor whose task
    had already finished (`joined` is in the history; that covers the marker pushed into a channel whose receivers
    were just dropped).  A stop() never reports Ok for a marker that went nowhere while the actor runs on.
    (This is the stop() clause of the trace monitor `C09.okMeansAccepted`.) -/
theorem ok_stop_was_accepted_or_closed (cap : Nat) (sc : Script) (ls : List Label) (s : Sys)
    (hr : run? (init cap sc) ls = some s) (oid a : Nat) (hret : Ev.ret oid .ok a ∈ s.ev)
    (hk : (s.spec oid).kind = .stop) :
    (∃ i, Ev.accepted oid i ∈ s.ev) ∨ (∃ o, Ev.joined o ∈ s.ev) := by
  obtain ⟨⟨_, _, _, _, hp⟩, _⟩ := AllInv_run cap sc ls s hr
  rcases stop_ok_run cap sc ls s hr oid a hret hk with h | h | h
  · exact Or.inl h
  · refine Or.inr ((send_run cap sc ls s hr).1 (hp.2.2 ?_))
    intro h0; rw [h0] at h; cases h
  · exact Or.inr h

/-- the control channel holds exactly one signal -/
theorem term_channel_capacity : term_chan_cap = 1 := rfl

-- the premises are satisfiable: a capacity-1 mailbox with one queued item and a blocked sender
example : ∃ s, run? (init 1 {}) [.gate, .startDone, .issue 0 { kind := .tell }, .push 0,
      .issue 0 { kind := .tell }] = some s ∧ s.mbox.length = 1 ∧ s.waiters.length = 1 := by
  refine ⟨_, rfl, ?_, ?_⟩ <;> decide


/-! ### ties to the source: shape lemmas about the tables regenerated from /repo on every run -/
-- @tie Rsactor.Ties.send_paths_shape

end Rsactor.Props.C09
