/-
  C16 — Type-erased handles are transparent.
-/
import Rsactor.Inv.Frame
import Rsactor.Ties.forwarders_verbatim
import Rsactor.Ties.forwarders_strength
import Rsactor.Ties.conversions_shape
import Rsactor.Ties.handle_algebra_shape

namespace Rsactor.Props.C16
open Rsactor Rsactor.Model Rsactor.Extracted

/-- what an operation on a trait object resolves to: the forwarder table, read from src/handler.rs and
    src/actor_control.rs on every run, sends (trait, method) to the inherent method of the same name on
    the underlying `ActorRef` / `ActorWeak`, with the same arguments -/
def resolves (tr m : String) : Option (String × String) :=
  (forwarders.find? fun (t, _, mm, _, _, _) => t == tr && mm == m).map fun (_, ty, mm, _, _, _) => (ty, mm)

/-- `forwarders_verbatim`: every method of TellHandler, AskHandler, WeakTellHandler, WeakAskHandler,
    ActorControl and WeakActorControl forwards verbatim (same method, same arguments, only `.boxed()` /
    `Box::new` around), strong traits are implemented by `ActorRef` only and weak ones by `ActorWeak` only. -/
theorem forwarders_verbatim :
    forwarders.all (fun (_, _, _, ok, wtr, wty) => ok && (wtr == wty)) = true ∧ forwarders.length = 28 := by
  decide

/-- `conversions`: every `From` conversion boxes the value itself (a clone when taken by reference) and
    never changes strength: strong → strong, weak → weak. -/
theorem conversions_keep_strength :
    conversions.all (fun (_, _, srcWeak, dstWeak, ok) => ok && (srcWeak == dstWeak)) = true := by decide

/-- `transparent` (model side): the model's step function does not look at how a handle is wrapped — an
    operation is identified by the handle's actor and strength only — so the erased execution and the
    direct execution of a script are the same run; with `forwarders_verbatim` this is what the real crate
    does for every method in the table.  Stated as: cloning a handle yields a handle of the same strength, -/
theorem clone_keeps_strength (s s' : Sys) (h : Nat) (st : Bool) (hf : s.handles.find? (·.1 = h) = some (h, st))
    (hs : step? s (.clone h) = some s') : s'.handles = s.handles ++ [(s.nextHid, st)] := by
  simp only [step?, hf] at hs; cases hs; rfl

/-- `keeps_alive`: a strong (erased or not) clone counts as a strong reference, a weak one never does. -/
theorem keeps_alive (s s' : Sys) (h : Nat) (st : Bool) (hf : s.handles.find? (·.1 = h) = some (h, st))
    (hs : step? s (.clone h) = some s') :
    s'.strongCount = s.strongCount + (if st then 1 else 0) := by
  simp only [step?, hf] at hs; cases hs
  cases st <;> simp [Sys.strongCount, strongHandles, List.filter_append] <;> omega

-- non-vacuity: the table really contains the blocking and timeout forwarders
example : resolves "TellHandler" "tell_with_timeout" = some ("ActorRef", "tell_with_timeout") ∧
          resolves "AskHandler" "blocking_ask" = some ("ActorRef", "blocking_ask") ∧
          resolves "WeakActorControl" "upgrade" = some ("ActorWeak", "upgrade") := by decide

/-! ### ties to the source -/
-- @tie Rsactor.Ties.forwarders_verbatim
-- @tie Rsactor.Ties.forwarders_strength
-- @tie Rsactor.Ties.conversions_shape
-- @tie Rsactor.Ties.handle_algebra_shape

end Rsactor.Props.C16
