/-
  C04 — Lifecycle hooks run in order: on_start once, work, then on_stop at most once.
-/
import Rsactor.Inv.Life
import Rsactor.Inv.Result
import Rsactor.Inv.Kill
import Rsactor.Ties.lifecycle_arms
import Rsactor.Ties.select_order

namespace Rsactor.Props.C04
open Rsactor Rsactor.Model Rsactor.Monitor

/-- `hook_language`: in every run the actor's hook events are a word of the lifecycle automaton
    start(ok)·(handler | run)*·stop?·joined  |  start(err|panic)·joined  — on_start completes first,
    handlers never overlap, on_stop is entered at most once and nothing but its end and the join
    follows it; a panic is followed by nothing but the join. -/
theorem hook_language (cap : Nat) (sc : Script) (ls : List Label) (s : Sys)
    (hr : run? (init cap sc) ls = some s) : C04.accepts s.ev = true := by
  have h := run_inv LifeInv_step (init cap sc) s ls (LifeInv_init cap sc) hr
  unfold LifeInv phFold at h
  simp [C04.accepts, h]

/-- the automaton state is determined by the actor's program counter: the model never is "in two hooks" -/
theorem phase_of_pc (cap : Nat) (sc : Script) (ls : List Label) (s : Sys)
    (hr : run? (init cap sc) ls = some s) : phFold s.ev = some (phOf s.pc) :=
  run_inv LifeInv_step (init cap sc) s ls (LifeInv_init cap sc) hr

/-- `killed_only_if_kill`: on_stop receives killed = true only after a kill() was issued. -/
theorem killed_only_if_kill (cap : Nat) (sc : Script) (ls : List Label) (s : Sys)
    (hr : run? (init cap sc) ls = some s) : C04.killedOnlyIfKill s.ev = true :=
  (run_inv KInv_step (init cap sc) s ls (KInv_init cap sc) hr).1

/-- `killed_iff_consumed`: on_stop(killed = true) begins in exactly the step that consumes the kill
    signal - the poll of the control channel, or the second look at it when the loop has just found the stop
    marker or the closed mailbox; every other way of reaching on_stop passes killed = false. -/
theorem killed_iff_consumed (s s' : Sys) (l : Label) (hs : step? s l = some s')
    (k r m : Bool) (hpc : s'.pc = .stopping k r m) (hnot : ∀ k r m, s.pc ≠ .stopping k r m) :
    (k = true ↔ ((l = .pollTerm ∨ l = .pollMail) ∧ s.termSlot = true)) := by
  step_cases l hs
  all_goals (try (simp at hpc; done))
  all_goals (try (exfalso; simp at hpc; exact hnot _ _ _ hpc; done))
  all_goals (try (exfalso; split at hpc <;> simp at hpc <;> exact hnot _ _ _ hpc; done))
  all_goals (simp at hpc; simp_all)

/-- `stop_iff_cause`: when the JoinHandle resolves, on_stop has run iff the actor ended by graceful
    stop, kill, loss of references or on_run error — not after a failed on_start, and after a panic only
    if the panic happened inside on_stop. -/
theorem stop_iff_cause (cap : Nat) (sc : Script) (ls : List Label) (s : Sys)
    (hr : run? (init cap sc) ls = some s) : C04.stopIffCause s.ev = true := by
  obtain ⟨h1, h2, _⟩ := run_inv ResInv_step (init cap sc) s ls (ResInv_init cap sc) hr
  unfold C04.stopIffCause
  by_cases he : s.pc = .ended
  · obtain ⟨o, _, hj, hexp, hf1, hf2⟩ := h2 he
    simp only [hj]
    unfold C05.expectedOf at hexp
    cases hp : (C05.summ s.ev).panic
    · rw [hp] at hexp
      cases hse : (C05.summ s.ev).startErr
      · rw [hse] at hexp
        cases hk : (C05.summ s.ev).killed with
        | none => rw [hk] at hexp; simp at hexp
        | some k =>
          cases hso : (C05.summ s.ev).stopOut with
          | none => rw [hk, hso] at hexp; simp at hexp
          | some so =>
            rw [hk, hso] at hexp
            have ho := (Option.some.inj hexp).symm
            rw [ho]
            cases (C05.summ s.ev).runErr <;> cases so <;> simp
      · rw [hse] at hexp
        have ho := (Option.some.inj hexp).symm
        rw [ho]; simp [hf1 hse]
    · rw [hp] at hexp
      have ho := (Option.some.inj hexp).symm
      rw [ho]; simpa using hf2 hp
  · obtain ⟨a, _⟩ := h1 he
    simp [a, summOf]

-- non-vacuity: stop during on_start, then the marker is dequeued and on_stop(false) runs once
example : ∃ s, run? (init 2 {})
    [.issue 0 { kind := .stop }, .push 0, .gate, .startDone, .pollTerm, .pollMail, .gate, .stopDone] = some s ∧
    C04.accepts s.ev = true ∧ Ev.stopStart false ∈ s.ev := by
  refine ⟨_, rfl, ?_, ?_⟩ <;> decide


/-! ### ties to the source: shape lemmas about the tables regenerated from /repo on every run -/
-- @tie Rsactor.Ties.lifecycle_arms
-- @tie Rsactor.Ties.select_order

end Rsactor.Props.C04
