/-
  C14 — Deadlock detection is complete for sequential ask cycles.
-/
import Rsactor.Inv.NetInv
import Rsactor.Ties.feature_sites_shape
import Rsactor.Ties.ask_protocol_shape
import Rsactor.Ties.timeout_wrappers_shape

namespace Rsactor.Props.C14
open Rsactor Rsactor.Net Rsactor.Extracted Rsactor.GraphSpec

/-- `hasPath_spec`: the function translated from `has_path` in src/lib.rs decides reachability in at
    least one step of the wait-for map, for every graph (the step bound `len()` always suffices). -/
theorem hasPath_spec (g : Graph) (frm to : Nat) :
    has_path g frm to = true ↔ ∃ k, 0 < k ∧ iter g k frm = some to :=
  GraphSpec.hasPath_spec g frm to

/-- `graph_covers`: in every reachable state of the protocol, every ask that is in flight and
    unanswered has its edge in the wait-for map (so a cycle of such asks is always visible). -/
theorem graph_covers (ls : List NLabel) (n : Net) (hr : run? init ls = some n) (t : Nat)
    (hst : (n.asks t).st = .inflight) :
    n.graph.get? (n.asks t).caller = some (n.asks t).callee :=
  ((NInv_run ls n hr).askEdge t (by rw [hst]; rfl)).1

/-- `closes_panics`: whenever the ask a hook of `a` is about to make would close a cycle — `a` asks
    itself, or a chain of in-flight asks of any length leads from `b` back to `a` — the ask does not
    wait: it is reported as a deadlock (with the cycle path), `a` ends, no edge is inserted. This holds
    for every cycle length and every order in which the edges of the cycle were created. -/
theorem closes_panics (ls : List NLabel) (n : Net) (_hr : run? init ls = some n) (a b : Nat)
    (halive : n.dead a = false) (hidle : n.busy a = none)
    (hcyc : a = b ∨ ∃ k, 0 < k ∧ iter n.graph k b = some a) :
    ∃ n', step? n (.ask a b) = some n' ∧
      NEv.deadlock a b (format_cycle_path n.graph a b) ∈ n'.ev ∧ n'.dead a = true ∧
      n'.graph = n.graph ∧ n'.busy a = none := by
  have hc : (a == b || has_path n.graph b a) = true := by
    rcases hcyc with h | h
    · simp [h]
    · simp [(GraphSpec.hasPath_spec n.graph b a).mpr h]
  simp only [step?, stepWith, halive, hidle]
  simp only [hc]
  refine ⟨_, by simp; rfl, ?_, ?_, ?_, ?_⟩ <;> simp [setN, hidle]

/-- `waits_otherwise`: if no cycle would close (and the callee lives) the ask is admitted and its edge
    is inserted under the same lock as the check. -/
theorem waits_otherwise (n : Net) (a b : Nat) (halive : n.dead a = false) (hidle : n.busy a = none)
    (hb : n.dead b = false) (hne : a ≠ b) (hno : ¬ ∃ k, 0 < k ∧ iter n.graph k b = some a) :
    ∃ n', step? n (.ask a b) = some n' ∧ n'.graph = n.graph.insert a b ∧ n'.busy a = some n.nextTok := by
  have hc : (a == b || has_path n.graph b a) = false := by
    have h1 : has_path n.graph b a = false := by
      cases hh : has_path n.graph b a with
      | false => rfl
      | true => exact absurd ((GraphSpec.hasPath_spec n.graph b a).mp hh) hno
    simp [hne, h1]
  simp only [step?, stepWith, halive, hidle, hc, hb]
  exact ⟨_, by simp; rfl, rfl, by simp [setN]⟩

/-- `no_one_left_waiting`: after the panic the other participants do not wait forever: an ask whose
    callee has died, and an ask that has been answered, can always be resumed by its asker. -/
theorem no_one_left_waiting (n : Net) (t : Nat) (h : (n.asks t).st = .lost ∨ (n.asks t).st = .answered) :
    ∃ n', step? n (.resume t) = some n' ∧ (n'.asks t).st = .done ∧ n'.busy (n.asks t).caller = none := by
  rcases h with h | h <;> simp [step?, stepWith, h, setN, clear] <;> split <;> simp [setN]

/-- and asks in flight to an actor that dies are marked lost in the very step in which it dies -/
theorem asks_to_dead_are_lost (n n' : Net) (y : Nat) (hs : step? n (.die y) = some n') (t : Nat)
    (hc : (n.asks t).callee = y) (hst : (n.asks t).st = .inflight) (hnb : n.busy y ≠ some t) :
    (n'.asks t).st = .lost := by
  simp only [step?, stepWith] at hs
  split at hs
  · cases hs
  · cases hs
    cases hb : n.busy y with
    | none => simp [loseTo, hc, hst]
    | some t0 =>
      have : t ≠ t0 := by intro he; subst he; exact hnb hb
      simp only [flags.2, if_true, loseTo, clear_asks, setN, this, if_false, hc, hst, and_self]

/-- `late_reply_keeps_newer_edge`: a reply that arrives after its asker has given up (timeout, cancellation) still
    calls `clear_wait_for` with the old ask's token; in every reachable state that call changes nothing - in
    particular an edge the same asker has registered since, for its next ask, stays in the map (so a cycle through
    it is still seen: `graph_covers` holds after the step as before it). -/
theorem late_reply_keeps_newer_edge (ls : List NLabel) (n n' : Net) (hr : run? init ls = some n) (t : Nat)
    (hst : (n.asks t).st = .abandoned) (hs : step? n (.reply t) = some n') :
    n'.graph = n.graph ∧ n'.tokOf = n.tokOf ∧ n'.asks = n.asks ∧ n'.busy = n.busy := by
  simp only [step?, stepWith, hst] at hs
  cases hs
  simp only [flags.1, if_true]
  rw [clear_stale (NInv_run ls n hr) hst]
  exact ⟨rfl, rfl, rfl, rfl⟩

-- non-vacuity: actor 1 asks 2, gives up, asks 3; the late reply of 2 arrives; 3 asking 1 is still reported
example : ∃ n, run? init [.ask 1 2, .giveUp 1, .ask 1 3, .reply 1, .ask 3 1] = some n ∧
    NEv.deadlock 3 1 [3, 1, 3] ∈ n.ev := by
  refine ⟨_, rfl, ?_⟩; decide

/-- the cycle path in the panic message starts with the asking actor -/
theorem path_starts_with_caller (g : Graph) (a b : Nat) : (format_cycle_path g a b).head? = some a := by
  have hloop : ∀ fuel path cur ms, path.head? = some a →
      (format_cycle_path.loop g a b fuel path cur ms).head? = some a := by
    intro fuel
    induction fuel with
    | zero => intro path cur ms hp; simpa [format_cycle_path.loop, format_cycle_path.after] using hp
    | succ n ih =>
      intro path cur ms hp
      simp only [format_cycle_path.loop]
      cases g.get? cur with
      | none => simpa [format_cycle_path.after] using hp
      | some idn =>
        have hp' : (path ++ [idn]).head? = some a := by
          cases path with
          | nil => simp at hp
          | cons x xs => simpa using hp
        simp only []
        split
        · simpa [format_cycle_path.after] using hp'
        · exact ih _ _ _ hp'
  simp only [format_cycle_path]
  split
  · rfl
  · exact hloop _ _ _ _ rfl

-- non-vacuity: a three-actor cycle 1 → 2 → 3 → 1 created in order; the closing ask panics and names the cycle
example : ∃ n, run? init [.ask 1 2, .ask 2 3, .ask 3 1] = some n ∧
    NEv.deadlock 3 1 [3, 1, 2, 3] ∈ n.ev ∧ n.dead 3 = true := by
  refine ⟨_, rfl, ?_, ?_⟩ <;> decide

/-! ### ties to the source -/
-- @tie Rsactor.Ties.feature_sites_shape
-- @tie Rsactor.Ties.ask_protocol_shape
-- a timed ask is `timeout(d, self.ask(msg))`: the protocol above (check, insert, panic) applies to it whatever the budget
-- @tie Rsactor.Ties.timeout_wrappers_shape

end Rsactor.Props.C14
