/-
  C01 — Accepted messages are handled exactly once; rejected ones never.
-/
import Rsactor.Inv.Fifo
import Rsactor.Inv.Progress
import Rsactor.Inv.Stop
import Rsactor.Inv.Rej
import Rsactor.Inv.Time
import Rsactor.Ties.send_paths_shape
import Rsactor.Ties.timeout_wrappers_shape
import Rsactor.Ties.lifecycle_arms

namespace Rsactor.Props.C01
open Rsactor Rsactor.Model Rsactor.Monitor

theorem envIds_sublist (l : List Item) : (envIds l).Sublist (l.map Item.oid) := by
  induction l with
  | nil => simp [envIds]
  | cons x xs ih =>
    cases x with
    | env m k => simpa [envIds, Item.oid] using ih
    | stop o => simp only [envIds, List.filterMap_cons, List.map_cons] at ih ⊢; exact ih.cons _

/-- handler starts are a sub-sequence of the acceptance log -/
theorem started_sub_accepted (cap : Nat) (sc : Script) (ls : List Label) (s : Sys)
    (hr : run? (init cap sc) ls = some s) : (startedMids s.ev).Sublist (accOids s) := by
  obtain ⟨_, _, _, h4⟩ := run_inv FifoInv_step (init cap sc) s ls (FifoInv_init cap sc) hr
  rw [h4]
  exact (envIds_sublist _).trans (List.Sublist.map _ (List.take_sublist _ _))

/-- `at_most_once`: in every run, every message is handled at most once. -/
theorem at_most_once (cap : Nat) (sc : Script) (ls : List Label) (s : Sys)
    (hr : run? (init cap sc) ls = some s) : C01.atMostOnce s.ev = true := by
  have hi := (ids_rej_run cap sc ls s hr).1
  simp only [C01.atMostOnce, decide_eq_true_eq]
  exact (started_sub_accepted cap sc ls s hr).nodup hi.accNodup

/-- `handled_were_accepted`: only accepted messages are ever handled. -/
theorem handled_were_accepted (cap : Nat) (sc : Script) (ls : List Label) (s : Sys)
    (hr : run? (init cap sc) ls = some s) (mid : Nat) (h : Ev.handlerStart mid ∈ s.ev) :
    mid ∈ accOids s := by
  apply (started_sub_accepted cap sc ls s hr).subset
  simp only [startedMids, List.mem_filterMap]
  exact ⟨_, h, rfl⟩

/-- `rejected_never`: a tell that returned Send or Timeout, and an ask that returned Send, is not
    handled in this state — and, the statement holding for every run, in no later state either. -/
theorem rejected_never (cap : Nat) (sc : Script) (ls : List Label) (s : Sys)
    (hr : run? (init cap sc) ls = some s) (oid a : Nat)
    (h : Ev.ret oid .send a ∈ s.ev ∨ (Ev.ret oid .timeout a ∈ s.ev ∧ (s.spec oid).kind = .tell)) :
    Ev.handlerStart oid ∉ s.ev ∧ oid ∉ accOids s ∧ oid ∉ keysOf s := by
  obtain ⟨_, hj⟩ := ids_rej_run cap sc ls s hr
  obtain ⟨r1, r2⟩ := hj.rej oid ⟨a, h⟩
  exact ⟨fun hm => r1 (handled_were_accepted cap sc ls s hr oid hm), r1, r2⟩

/-- the same on the monitor predicate that is evaluated on real traces -/
theorem rejected_never_monitor (cap : Nat) (sc : Script) (ls : List Label) (s : Sys)
    (hr : run? (init cap sc) ls = some s) : C01.rejectedNever s.ev = true := by
  obtain ⟨hi, hj⟩ := ids_rej_run cap sc ls s hr
  obtain ⟨t1, t2, t3, t4⟩ := run_inv TI_step (init cap sc) s ls (TI_init cap sc) hr
  unfold C01.rejectedNever
  rw [List.all_eq_true]
  intro e he
  cases e with
  | ret oid r a =>
    have hlt := hi.retLt oid r a he
    obtain ⟨a0, ha0, _⟩ := t2 oid hlt
    simp only [ha0]
    have nostart : ∀ (hrej : Ev.ret oid .send a ∈ s.ev ∨ (Ev.ret oid .timeout a ∈ s.ev ∧ (s.spec oid).kind = .tell)),
        (!(s.ev.any (isStart oid))) = true := by
      intro hrej
      have := (rejected_never cap sc ls s hr oid a hrej).1
      simp only [Bool.not_eq_true', List.any_eq_false]
      intro e' he'
      cases e' <;> simp [isStart]
      rename_i m
      intro hm; subst hm; exact this he'
    cases hk : (s.spec oid).kind <;> cases r <;> simp only [] <;>
      first
      | rfl
      | exact nostart (Or.inl he)
      | exact nostart (Or.inr ⟨he, hk⟩)
  | _ => rfl

/-- `graceful_complete`: in every reachable state, every envelope among the first `taken` entries of the
    acceptance log - everything the loop has dequeued - has had its handler started (with `at_most_once`:
    exactly once).  `taken` only stops growing when the loop stops (kill, stop marker, crash, no reference). -/
theorem graceful_complete (cap : Nat) (sc : Script) (ls : List Label) (s : Sys)
    (hr : run? (init cap sc) ls = some s) (i : Nat) (hi : i < s.taken) (m : Nat) (k : Kind)
    (ha : s.accepted[i]? = some (.env m k)) : m ∈ startedMids s.ev := by
  obtain ⟨_, _, _, h4⟩ := (StopInv_run cap sc ls s hr).1
  rw [h4]
  have : (s.accepted.take s.taken)[i]? = some (Item.env m k) := by
    rw [List.getElem?_take, if_pos hi, ha]
  exact List.mem_filterMap.mpr ⟨_, List.mem_of_getElem? this, rfl⟩

/-- `marker_is_next`: when the loop is about to dequeue a stop marker, the marker sits at position `taken`
    of the acceptance log: everything accepted before it has been dequeued, hence (graceful_complete)
    handled before on_stop begins. -/
theorem marker_is_next (cap : Nat) (sc : Script) (ls : List Label) (s : Sys)
    (hr : run? (init cap sc) ls = some s) (hpc : s.pc = .selMail) (o : Nat) (rest : List Item)
    (hm : s.mbox = .stop o :: rest) : s.accepted[s.taken]? = some (.stop o) := by
  obtain ⟨hf, _, he, _⟩ := StopInv_run cap sc ls s hr
  have hopen : s.rxOpen = true := by
    cases hro : s.rxOpen
    · have := he.closedIff.mp hro; rw [hpc] at this; cases this
    · rfl
  have hdrop : s.accepted.drop s.taken = .stop o :: rest := by rw [← hf.2.1 hopen, hm]
  have := congrArg List.head? hdrop
  simpa [List.head?_drop] using this

-- non-vacuity: capacity 1, a handled ask, a queued tell, a blocked timed tell that times out
example : ∃ s, run? (init 1 {})
    [.gate, .startDone, .issue 0 { kind := .ask }, .push 0, .pollTerm, .pollMail,
     .issue 0 { kind := .tell }, .push 1, .issue 0 { kind := .tell, timeout := some 5 }, .advance 5,
     .timeoutFire 2] = some s ∧ Ev.ret 2 .timeout 5 ∈ s.ev ∧ (s.spec 2).kind = .tell := by
  refine ⟨_, rfl, ?_, ?_⟩ <;> decide


/-- `accepted_message_is_not_left_waiting`: in a state in which the runtime has nothing left to run, no accepted message
    sits in the mailbox of an idle actor: if the mailbox is not empty the actor has ended (then the mailbox is empty:
    `C03.ended_clean`) or is inside a hook that waits for its own external event. -/
theorem accepted_message_is_not_left_waiting (s : Sys) (hq : quiescent s) (hm : s.mbox ≠ []) :
    s.pc = .ended ∨
    (s.gatePermits = 0 ∧ (s.pc = .starting ∨ (∃ m k, s.pc = .inHandler m k) ∨ ∃ a b c, s.pc = .stopping a b c)) :=
  quiescent_due_has_ended s hq (Or.inr (Or.inr hm))

/-! ### ties to the source: shape lemmas about the tables regenerated from /repo on every run -/
-- @tie Rsactor.Ties.send_paths_shape
-- @tie Rsactor.Ties.timeout_wrappers_shape
-- @tie Rsactor.Ties.lifecycle_arms

end Rsactor.Props.C01
