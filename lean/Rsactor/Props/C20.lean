/-
  C20 — Metrics count what happened.
  The collector (`Metrics`, `record_message`, the accessors and `snapshot_`) is the translation of
  src/metrics/collector.rs regenerated on every run; the guard's behaviour (records exactly once, on drop,
  with the elapsed time; nothing at creation) is the extracted `metrics_guard_shape`.
-/
import Rsactor.Inv.Life
import Rsactor.Ties.metrics_guard_shape
import Rsactor.Ties.metrics_placement_shape

namespace Rsactor.Props.C20
open Rsactor Rsactor.Model Rsactor.Monitor Rsactor.Extracted

/-- the collector after recording the given durations (nanoseconds), in order -/
def recordAll (ds : List Nat) (m : Metrics := {}) : Metrics := ds.foldl Metrics.record_message m

@[simp] theorem recordAll_nil (m : Metrics) : recordAll [] m = m := rfl
@[simp] theorem recordAll_cons (d : Nat) (ds : List Nat) (m : Metrics) :
    recordAll (d :: ds) m = recordAll ds (m.record_message d) := rfl

theorem record_count (m : Metrics) (d : Nat) : (m.record_message d).message_count = m.message_count + 1 := rfl
theorem record_errors (m : Metrics) (d : Nat) : (m.record_message d).error_count = m.error_count := rfl

/-- `count_len`: message_count is the number of recorded messages, for every sequence of durations -/
theorem count_len (ds : List Nat) (m : Metrics) :
    (recordAll ds m).message_count = m.message_count + ds.length := by
  induction ds generalizing m with
  | nil => simp
  | cons d ds ih => simp [ih, record_count]; omega

/-- `count_monotone`: recording never decreases the count (so no reader ever sees it go down) -/
theorem count_monotone (ds : List Nat) (m : Metrics) : m.message_count ≤ (recordAll ds m).message_count := by
  rw [count_len]; omega

/-- the collector's invariant: total ≤ count × max (saturation only lowers the total) -/
def MInv (m : Metrics) : Prop := m.total_processing_nanos ≤ m.message_count * m.max_processing_nanos

theorem satAdd_le (a b : Nat) : satAdd a b ≤ a + b := by unfold satAdd; exact Nat.min_le_left _ _

theorem record_inv (m : Metrics) (d : Nat) (h : MInv m) : MInv (m.record_message d) := by
  unfold MInv at *
  show satAdd m.total_processing_nanos (Nat.min d U64MAX)
      ≤ (m.message_count + 1) * Nat.max m.max_processing_nanos (Nat.min d U64MAX)
  have h1 := satAdd_le m.total_processing_nanos (Nat.min d U64MAX)
  have h2 : m.max_processing_nanos ≤ Nat.max m.max_processing_nanos (Nat.min d U64MAX) := Nat.le_max_left _ _
  have h3 : Nat.min d U64MAX ≤ Nat.max m.max_processing_nanos (Nat.min d U64MAX) := Nat.le_max_right _ _
  have h4 : m.message_count * m.max_processing_nanos
      ≤ m.message_count * Nat.max m.max_processing_nanos (Nat.min d U64MAX) := Nat.mul_le_mul_left _ h2
  rw [Nat.add_mul, Nat.one_mul]
  omega

theorem recordAll_inv (ds : List Nat) (m : Metrics) (h : MInv m) : MInv (recordAll ds m) := by
  induction ds generalizing m with
  | nil => simpa
  | cons d ds ih => exact ih _ (record_inv m d h)

/-- `avg_le_max`: for every sequence of handler durations, avg_processing_time ≤ max_processing_time -/
theorem avg_le_max (ds : List Nat) :
    (recordAll ds).avg_processing_time_ ≤ (recordAll ds).max_processing_time_ := by
  have h := recordAll_inv ds {} (by simp [MInv])
  unfold MInv at h
  unfold Metrics.avg_processing_time_ Metrics.max_processing_time_
  simp only []
  split
  · rename_i hc
    have hc' : 0 < (recordAll ds).message_count := by simpa using hc
    exact Nat.div_le_of_le_mul h
  · exact Nat.zero_le _

theorem max_mono (ds : List Nat) (m : Metrics) : m.max_processing_nanos ≤ (recordAll ds m).max_processing_nanos := by
  induction ds generalizing m with
  | nil => simp
  | cons d ds ih => exact Nat.le_trans (Nat.le_max_left _ _) (ih (m.record_message d))

/-- `max_ge_each`: max_processing_time is at least every recorded duration (capped at u64::MAX ns ≈ 584 years) -/
theorem max_ge_each (ds : List Nat) (m : Metrics) (d : Nat) (hd : d ∈ ds) :
    Nat.min d U64MAX ≤ (recordAll ds m).max_processing_time_ := by
  induction ds generalizing m with
  | nil => cases hd
  | cons x xs ih =>
    rcases List.mem_cons.mp hd with rfl | h
    · exact Nat.le_trans (Nat.le_max_right m.max_processing_nanos _) (max_mono xs (m.record_message d))
    · exact ih _ h

/-- `snapshot_agrees`: the snapshot is the four accessors, in every state of the collector -/
theorem snapshot_agrees (m : Metrics) :
    m.snapshot_.message_count = m.message_count_ ∧ m.snapshot_.avg_processing_time = m.avg_processing_time_ ∧
    m.snapshot_.max_processing_time = m.max_processing_time_ ∧ m.snapshot_.error_count = m.error_count_ := by
  refine ⟨rfl, rfl, rfl, rfl⟩

/-! ### placement: what the actor loop records -/

/-- the guard is dropped when the handler is left (normally or by a panic): one record per `handlerEnd` -/
def recorded (dur : Nat → Nat) (ev : List Ev) : List Nat :=
  ev.filterMap fun | .handlerEnd m _ => some (dur m) | _ => none

def metricsOf (dur : Nat → Nat) (ev : List Ev) : Metrics := recordAll (recorded dur ev)

def inH : C04.Ph → Nat | .inHandler _ => 1 | _ => 0
def isStartN : Ev → Nat | .handlerStart _ => 1 | _ => 0
def isEndN : Ev → Nat | .handlerEnd _ _ => 1 | _ => 0
def nStarts (ev : List Ev) : Nat := (startedMids ev).length
def nEnds (ev : List Ev) : Nat := (recorded (fun _ => 0) ev).length

theorem recorded_length (dur : Nat → Nat) (ev : List Ev) : (recorded dur ev).length = nEnds ev := by
  unfold nEnds recorded
  induction ev with
  | nil => rfl
  | cons e es ih => cases e <;> simp [List.filterMap_cons, ih]

theorem nStarts_cons (e : Ev) (es : List Ev) : nStarts (e :: es) = isStartN e + nStarts es := by
  cases e <;> simp [nStarts, startedMids, isStartN, List.filterMap_cons] <;> omega

theorem nEnds_cons (e : Ev) (es : List Ev) : nEnds (e :: es) = isEndN e + nEnds es := by
  cases e <;> simp [nEnds, recorded, isEndN, List.filterMap_cons] <;> omega

/-- one automaton step keeps `starts + (in a handler before) = ends + (in a handler after)` -/
theorem step_count (p0 p1 : C04.Ph) (e : Ev) (hs : C04.step p0 e = some p1) :
    isStartN e + inH p0 = isEndN e + inH p1 := by
  cases e with
  | handlerStart m => simp only [C04.step] at hs; split at hs <;> simp_all [inH, isStartN, isEndN]; subst hs; simp [inH]
  | handlerEnd m o =>
    cases o <;> simp only [C04.step] at hs <;> split at hs <;> simp_all [inH, isStartN, isEndN] <;> subst hs <;> simp [inH]
  | startEnd o =>
    cases o <;> simp only [C04.step] at hs <;> split at hs <;> simp_all [inH, isStartN, isEndN] <;> subst hs <;> simp [inH]
  | runEnd k o =>
    cases o <;> simp only [C04.step] at hs <;> split at hs <;> simp_all [inH, isStartN, isEndN] <;> subst hs <;> simp [inH]
  | stopEnd o =>
    cases o <;> simp only [C04.step] at hs <;> split at hs <;> simp_all [inH, isStartN, isEndN] <;> subst hs <;> simp [inH]
  | tellResult m => simp only [C04.step] at hs; split at hs <;> simp_all [inH, isStartN, isEndN]
  | runPoll k => simp only [C04.step] at hs; split at hs <;> simp_all [inH, isStartN, isEndN]
  | stopStart k => simp only [C04.step] at hs; split at hs <;> simp_all [inH, isStartN, isEndN]; subst hs; simp [inH]
  | joined o => simp only [C04.step] at hs; split at hs <;> simp_all [inH, isStartN, isEndN]; subst hs; simp [inH]
  | _ => simp only [C04.step] at hs; cases hs; simp [isStartN, isEndN]

theorem phRun_none (l : List Ev) : phRun none l = none := by
  induction l with
  | nil => rfl
  | cons _ _ ih => simpa [phRun] using ih

theorem starts_ends (ev : List Ev) (p0 p : C04.Ph) (h : phRun (some p0) ev = some p) :
    nStarts ev + inH p0 = nEnds ev + inH p := by
  induction ev generalizing p0 with
  | nil => simp [phRun] at h; subst h; simp [nStarts, nEnds, startedMids, recorded]
  | cons e es ih =>
    have hcons : phRun (some p0) (e :: es) = phRun (C04.step p0 e) es := by simp [phRun]
    rw [hcons] at h
    cases hs : C04.step p0 e with
    | none => rw [hs, phRun_none] at h; cases h
    | some p1 =>
      rw [hs] at h
      have := ih p1 h
      have := step_count p0 p1 e hs
      rw [nStarts_cons, nEnds_cons]
      omega

/-- `count_exact`: in every reachable state, message_count is the number of handlers entered, minus the
    one still running (none at quiescence); stop markers and leftovers never enter a handler -/
theorem count_exact (cap : Nat) (sc : Script) (ls : List Label) (s : Sys) (dur : Nat → Nat)
    (hr : run? (init cap sc) ls = some s) :
    (metricsOf dur s.ev).message_count + inH (phOf s.pc) = (startedMids s.ev).length := by
  have hl : LifeInv s := run_inv LifeInv_step (init cap sc) s ls (LifeInv_init cap sc) hr
  have h := starts_ends s.ev .init (phOf s.pc) (by unfold LifeInv phFold at hl; exact hl)
  unfold metricsOf
  rw [count_len, recorded_length]
  simp [inH, nStarts] at h ⊢
  omega

/-- `never_decreases`: along any run the count only grows -/
theorem never_decreases (dur : Nat → Nat) (ev chunk : List Ev) :
    (metricsOf dur ev).message_count ≤ (metricsOf dur (ev ++ chunk)).message_count := by
  unfold metricsOf recorded
  rw [List.filterMap_append, count_len, count_len]
  simp

/-- at quiescence the derived statistics obey the laws above -/
theorem avg_le_max_run (dur : Nat → Nat) (ev : List Ev) :
    (metricsOf dur ev).avg_processing_time_ ≤ (metricsOf dur ev).max_processing_time_ := avg_le_max _

theorem max_ge_handler (dur : Nat → Nat) (ev : List Ev) (m : Nat) (o : HOut) (h : Ev.handlerEnd m o ∈ ev) :
    Nat.min (dur m) U64MAX ≤ (metricsOf dur ev).max_processing_time_ := by
  apply max_ge_each
  unfold recorded
  exact List.mem_filterMap.mpr ⟨_, h, rfl⟩

-- non-vacuity: three handlers of 5, 9 and 2 ns
example : (recordAll [5, 9, 2]).message_count = 3 ∧ (recordAll [5, 9, 2]).avg_processing_time_ = 5 ∧
          (recordAll [5, 9, 2]).max_processing_time_ = 9 := by decide

/-! ### ties to the source -/
-- @tie Rsactor.Ties.metrics_guard_shape
-- @tie Rsactor.Ties.metrics_placement_shape

end Rsactor.Props.C20
