/-
  C18 — Optional features never change messaging or lifecycle behaviour.
-/
import Rsactor.Net
import Rsactor.Props.C07
import Rsactor.Props.C20
import Rsactor.Ties.feature_sites_shape
import Rsactor.Ties.metrics_placement_shape
import Rsactor.Ties.ask_protocol_shape
import Rsactor.Ties.lifecycle_arms

namespace Rsactor.Props.C18
open Rsactor Rsactor.Extracted

/-! ### metrics: the guard's extra reference clone -/
section metrics
open Rsactor.Model

/-- `extra_ref_neutral`: the metrics build keeps one more strong reference (`metrics_ref`) from just before
    the handler call to the end of the arm.  While a handler runs the envelope's own reference is alive, so
    the count of strong references is positive with or without it: every test the model makes on that count
    (`= 0` when the loop looks at the closed control channel, `> 0` for `upgrade` and `is_alive`) has the same
    outcome with any number of extra references. -/
theorem extra_ref_neutral (s : Sys) (m : Nat) (k : Kind) (hpc : s.pc = .inHandler m k) (extra : Nat) :
    (decide (s.strongCount + extra > 0) = decide (s.strongCount > 0)) ∧
    ((s.strongCount + extra = 0) ↔ (s.strongCount = 0)) := by
  have h : s.strongCount > 0 := by simp [Sys.strongCount, hpc, inHandlerRef]; omega
  refine ⟨by simp [h]; omega, ?_⟩
  constructor <;> intro h0 <;> omega

end metrics

/-! ### deadlock-detection: silent unless an ask closes a cycle -/
section detection
open Rsactor.Net

/-- what a program can observe of the protocol state: everything except the wait-for map and its tokens -/
structure Obs where
  asks : Nat → AskRec
  busy : Nat → Option Nat
  dead : Nat → Bool
  nextTok : Nat
  ev : List NEv

def obs (n : Net) : Obs := ⟨n.asks, n.busy, n.dead, n.nextTok, n.ev⟩

/-- the protocol with detection compiled out: no map, no check, a plain reply sender -/
def stepOff (n : Net) : NLabel → Option Net
  | .ask a b =>
    if n.dead a = true ∨ (n.busy a).isSome then none
    else if n.dead b = true then some { n with ev := n.ev ++ [.asked a b 0] }
    else
      let t := n.nextTok
      some { n with asks := setN n.asks t ⟨a, b, .inflight⟩, busy := setN n.busy a (some t),
                    nextTok := t + 1, ev := n.ev ++ [.asked a b t] }
  | .reply t =>
    match (n.asks t).st with
    | .inflight => some { n with asks := setN n.asks t { n.asks t with st := .answered }, ev := n.ev ++ [.replied t] }
    | .abandoned => some { n with ev := n.ev ++ [.replied t] }
    | _ => none
  | .resume t =>
    match (n.asks t).st with
    | .answered | .lost =>
      some { n with asks := setN n.asks t { n.asks t with st := .done }, busy := setN n.busy (n.asks t).caller none,
                    ev := n.ev ++ [.resumed t] }
    | _ => none
  | .giveUp t =>
    match (n.asks t).st with
    | .inflight | .lost | .answered =>
      some { n with asks := setN n.asks t { n.asks t with st := .abandoned }, busy := setN n.busy (n.asks t).caller none,
                    ev := n.ev ++ [.gaveUp t] }
    | _ => none
  | .die y =>
    if n.dead y = true then none
    else
      let n1 : Net :=
        match n.busy y with
        | some t => { n with asks := setN n.asks t { n.asks t with st := .abandoned }, busy := setN n.busy y none }
        | none => n
      some { n1 with dead := setN n1.dead y true, asks := loseTo n1.asks y, ev := n1.ev ++ [.died y] }

/-- the ask would close a cycle of in-flight asks (the only situation in which the detector acts) -/
def closes (n : Net) : NLabel → Bool
  | .ask a b => a == b || has_path n.graph b a
  | _ => false

theorem obs_clear (n : Net) (c t : Nat) : obs (clear n c t) = obs n := by
  unfold clear; split <;> rfl

theorem clear_fields (n : Net) (c t : Nat) :
    (clear n c t).asks = n.asks ∧ (clear n c t).busy = n.busy ∧ (clear n c t).dead = n.dead ∧
    (clear n c t).nextTok = n.nextTok ∧ (clear n c t).ev = n.ev := by
  unfold clear; split <;> exact ⟨rfl, rfl, rfl, rfl, rfl⟩

/-- `detection_silent_without_cycle`: from states that look the same to the program, a step that closes no
    cycle has the same observable effect with detection compiled in (whatever the two switches are) and with
    detection compiled out; in particular it never panics. -/
theorem detection_silent_without_cycle (atReply guard : Bool) (n m : Net) (l : NLabel)
    (ho : obs n = obs m) (hc : closes n l = false) :
    (stepWith atReply guard n l).map obs = (stepOff m l).map obs := by
  have ha : n.asks = m.asks := congrArg Obs.asks ho
  have hb : n.busy = m.busy := congrArg Obs.busy ho
  have hd : n.dead = m.dead := congrArg Obs.dead ho
  have ht : n.nextTok = m.nextTok := congrArg Obs.nextTok ho
  have he : n.ev = m.ev := congrArg Obs.ev ho
  cases l with
  | ask a b =>
    simp only [closes] at hc
    simp only [stepWith, stepOff, hc, ← hb, ← hd]
    split
    · rfl
    · simp only [Bool.false_eq_true, if_false]
      split
      · simp [obs, ha, hb, hd, ht, he]
      · simp [obs, ha, hb, hd, ht, he]
  | reply t =>
    simp only [stepWith, stepOff, ← ha]
    cases hst : (n.asks t).st <;> simp only [] <;> try rfl
    · cases atReply <;> simp [obs, clear_fields, ha, hb, hd, ht, he]
    · cases atReply <;> simp [obs, clear_fields, ha, hb, hd, ht, he]
  | resume t =>
    simp only [stepWith, stepOff, ← ha]
    cases hst : (n.asks t).st <;> simp only [] <;> try rfl
    all_goals cases guard <;> simp [obs, clear_fields, ha, hb, hd, ht, he]
  | giveUp t =>
    simp only [stepWith, stepOff, ← ha]
    cases hst : (n.asks t).st <;> simp only [] <;> try rfl
    all_goals cases guard <;> simp [obs, clear_fields, ha, hb, hd, ht, he]
  | die y =>
    simp only [stepWith, stepOff, ← hd, ← hb]
    split
    · rfl
    · cases hby : n.busy y <;> cases guard <;> simp [obs, clear_fields, ha, hb, hd, ht, he, hby]

/-- hence along any run in which no ask closes a cycle the two protocols stay observably equal, step by step -/
theorem detection_silent_run (ls : List NLabel) (n m : Net) (ho : obs n = obs m)
    (hfree : ∀ (pre : List NLabel) (l : NLabel) (n' : Net), pre ++ [l] <+: ls → Net.run? n pre = some n' → closes n' l = false) :
    ∀ n', Net.run? n ls = some n' → ∃ m', (ls.foldlM (fun s l => stepOff s l) m) = some m' ∧ obs n' = obs m' := by
  induction ls generalizing n m with
  | nil => intro n' h; simp [Net.run?] at h; subst h; exact ⟨m, rfl, ho⟩
  | cons l ls ih =>
    intro n' h
    simp only [Net.run?] at h
    cases hs : Net.step? n l with
    | none => simp [hs] at h
    | some n1 =>
      simp only [hs] at h
      have hc : closes n l = false := hfree [] l n (by simp) rfl
      have hstep := detection_silent_without_cycle edge_removed_at_reply guard_removes_on_drop n m l ho hc
      have hs' : stepWith edge_removed_at_reply guard_removes_on_drop n l = some n1 := hs
      rw [hs'] at hstep
      cases hm : stepOff m l with
      | none => simp [hm] at hstep
      | some m1 =>
        simp only [hm, Option.map_some, Option.some.injEq] at hstep
        have hfree' : ∀ (pre : List NLabel) (l' : NLabel) (n'' : Net), pre ++ [l'] <+: ls → Net.run? n1 pre = some n'' → closes n'' l' = false := by
          intro pre l' n'' hp hr
          apply hfree (l :: pre) l' n''
          · simpa using (List.prefix_cons_inj l).mpr hp
          · simp [Net.run?, hs, hr]
        obtain ⟨m', hm', ho'⟩ := ih n1 m1 hstep hfree' n' h
        exact ⟨m', by simp [List.foldlM, hm, hm'], ho'⟩

end detection

-- non-vacuity: A asks B, B answers, A resumes, then B asks A: no cycle at any point, and both protocols agree
example : closes Net.init (Net.NLabel.ask 1 2) = false ∧
    (Net.run? Net.init [Net.NLabel.ask 1 2, Net.NLabel.reply 1, Net.NLabel.resume 1, Net.NLabel.ask 2 1]).isSome = true ∧
    ((Net.run? Net.init [Net.NLabel.ask 1 2, Net.NLabel.reply 1, Net.NLabel.resume 1]).map
      (fun n => closes n (Net.NLabel.ask 2 1))) = some false := by decide

/-! ### ties to the source -/
-- @tie Rsactor.Ties.feature_sites_shape
-- @tie Rsactor.Ties.metrics_placement_shape
-- @tie Rsactor.Ties.ask_protocol_shape
-- @tie Rsactor.Ties.lifecycle_arms

end Rsactor.Props.C18
