/-
  C10 — Timeouts are exact: never early, never masking other outcomes.
-/
import Rsactor.Inv.Time
import Rsactor.Ties.timeout_wrappers_shape
import Rsactor.Ties.forwarders_verbatim

namespace Rsactor.Props.C10
open Rsactor Rsactor.Model Rsactor.Monitor Rsactor.Extracted

/-- `never_early`: in every run, `Err(Timeout)` is returned only by an operation that was given a
    timeout, and only at a clock value ≥ (issue instant + timeout). -/
theorem never_early (cap : Nat) (sc : Script) (ls : List Label) (s : Sys)
    (hr : run? (init cap sc) ls = some s) : C10.neverEarly s.ev = true := by
  obtain ⟨h1, h2, h3, h4⟩ := run_inv TI_step (init cap sc) s ls (TI_init cap sc) hr
  unfold C10.neverEarly
  rw [List.all_eq_true]
  intro e he
  cases e with
  | ret oid r at_ =>
    cases r with
    | timeout =>
      obtain ⟨d, hd, hle⟩ := h3 oid at_ he
      have hlt : oid < s.nextOid := by
        apply Classical.byContradiction
        intro hn
        rw [h4 oid (by omega)] at hd; cases hd
      obtain ⟨a, ha1, ha2⟩ := h2 oid hlt
      simp only [ha1]
      rw [hd] at ha2
      unfold opDeadline at ha2
      cases hk : (s.spec oid).kind <;> rw [hk] at ha2 <;> simp at ha2
      all_goals (
        cases ht : (s.spec oid).timeout with
        | none => rw [ht] at ha2; simp at ha2
        | some d0 => rw [ht] at ha2; simp at ha2; simp; omega)
    | _ => rfl
  | _ => rfl

/-- `timeout_fire_guard`: the timer label is enabled only once the deadline has been reached. -/
theorem timeout_fire_guard (s s' : Sys) (oid : Nat) (h : step? s (.timeoutFire oid) = some s') :
    ∃ d, s.deadline oid = some d ∧ d ≤ s.clock := by
  simp only [step?] at h
  split at h
  · rename_i d hd
    split at h
    · cases h
    · rename_i hc; exact ⟨d, hd, Nat.le_of_not_lt hc⟩
  · cases h

/-- `retryable`: Timeout is the only retryable error (function translated from src/error.rs). -/
theorem retryable (e : ErrorKind) : e.is_retryable = true ↔ e = .Timeout := by
  cases e <;> simp [ErrorKind.is_retryable]

-- non-vacuity: a timed tell blocked on a full mailbox times out at exactly issue + 25
example : ∃ s, run? (init 1 {})
    [.gate, .startDone, .issue 0 { kind := .tell }, .push 0, .advance 10,
     .issue 0 { kind := .tell, timeout := some 25 }, .advance 25, .timeoutFire 1] = some s ∧
    Ev.ret 1 .timeout 35 ∈ s.ev := by
  refine ⟨_, rfl, ?_⟩; decide


/-! ### ties to the source: shape lemmas about the tables regenerated from /repo on every run -/
-- @tie Rsactor.Ties.timeout_wrappers_shape
-- @tie Rsactor.Ties.forwarders_verbatim

end Rsactor.Props.C10
