/-
  C10 — Timeouts are exact: never early, never masking other outcomes.
-/
import Rsactor.Inv.Time
import Rsactor.Ties.timeout_wrappers_shape
import Rsactor.Ties.forwarders_verbatim

namespace Rsactor.Props.C10
open Rsactor Rsactor.Model Rsactor.Monitor Rsactor.Extracted

/-- `never_early`: in every run, `Err(Timeout)` is returned only by an operation that was given a
    timeout, and only at a clock value ≥ (issue instant + timeout). -/
theorem never_early (cap : Nat) (sc : Script) (ls : List Label) (s : Sys)
    (hr : run? (init cap sc) ls = some s) : C10.neverEarly s.ev = true := by
  obtain ⟨h1, h2, h3, h4⟩ := run_inv TI_step (init cap sc) s ls (TI_init cap sc) hr
  unfold C10.neverEarly
  rw [List.all_eq_true]
  intro e he
  cases e with
  | ret oid r at_ =>
    cases r with
    | timeout =>
      obtain ⟨d, hd, hle⟩ := h3 oid at_ he
      have hlt : oid < s.nextOid := by
        apply Classical.byContradiction
        intro hn
        rw [h4 oid (by omega)] at hd; cases hd
      obtain ⟨a, ha1, ha2⟩ := h2 oid hlt
      simp only [ha1]
      rw [hd] at ha2
      unfold opDeadline at ha2
      cases hk : (s.spec oid).kind <;> rw [hk] at ha2 <;> simp at ha2
      all_goals (
        cases ht : (s.spec oid).timeout with
        | none => rw [ht] at ha2; simp at ha2
        | some d0 => rw [ht] at ha2; simp at ha2; simp; omega)
    | _ => rfl
  | _ => rfl

/-- `timeout_fire_guard`: the timer label is enabled only once the deadline has been reached. -/
theorem timeout_fire_guard (s s' : Sys) (oid : Nat) (h : step? s (.timeoutFire oid) = some s') :
    ∃ d, s.deadline oid = some d ∧ d ≤ s.clock := by
  simp only [step?] at h
  split at h
  · rename_i d hd
    split at h
    · cases h
    · rename_i hc; exact ⟨d, hd, Nat.le_of_not_lt hc⟩
  · cases h

/-- `retryable`: Timeout is the only retryable error (function translated from src/error.rs). -/
theorem retryable (e : ErrorKind) : e.is_retryable = true ↔ e = .Timeout := by
  cases e <;> simp [ErrorKind.is_retryable]

/-- `timeout_only_while_pending` ("never masking"): whatever the schedule, the step that produces `Err(Timeout)` is
    enabled only while the operation itself is incomplete - a send still queued for a permit on an open mailbox, or an
    ask whose reply has neither been sent nor been lost.  An operation that completed before its caller is polled
    (reply there, permit assigned, mailbox closed) reports that outcome, however late the poll and however long ago
    the deadline passed: `tokio::time::timeout` polls the operation before the timer (timeout_wrappers_shape). -/
theorem timeout_only_while_pending (s s' : Sys) (oid : Nat) (h : step? s (.timeoutFire oid) = some s') :
    (s.client oid = .waiting ∧ s.rxOpen = true ∧
      ∃ w, s.waiters.find? (fun w => w.oid = oid) = some w ∧ w.granted = false) ∨
    (s.client oid = .awaiting ∧ s.reply oid ≠ .sent ∧ s.reply oid ≠ .dropped ∧
      ¬ (s.rxOpen = false ∧ Extracted.ask_wait_watches_closed = true)) := by
  simp only [step?] at h
  split at h
  · split at h
    · cases h
    · split at h
      · rename_i hc
        split at h
        · rename_i w hf
          split at h
          · cases h
          · rename_i hg
            refine Or.inl ⟨hc, ?_, w, hf, ?_⟩
            · cases hr : s.rxOpen <;> simp_all
            · cases hw : w.granted <;> simp_all
        · cases h
      · rename_i hc
        split at h
        · cases h
        · rename_i hg
          refine Or.inr ⟨hc, ?_, ?_, ?_⟩
          · intro h1; exact hg (Or.inl h1)
          · intro h1; exact hg (Or.inr (Or.inl h1))
          · intro h1; exact hg (Or.inr (Or.inr ⟨by simp [h1.1], h1.2⟩))
      · cases h
  · cases h

/-- `timeout_only_from_timer`: no other step makes an operation return `Err(Timeout)` -/
theorem timeout_only_from_timer (s s' : Sys) (l : Label) (oid t : Nat) (hs : step? s l = some s')
    (hnew : Ev.ret oid .timeout t ∈ s'.ev) (hold : Ev.ret oid .timeout t ∉ s.ev) : l = .timeoutFire oid := by
  step_cases l hs
  all_goals first
    | exact absurd hnew hold
    | (exfalso
       simp only [Sys.complete, Sys.failSend, Sys.afterPush, Sys.afterStrand, Sys.finish] at hnew
       (repeat' split at hnew) <;> simp_all
       done)
    | (simp [Sys.complete, hold] at hnew
       rw [hnew.1])
    | trace_state

/-- failures other than a timeout are reported as themselves, at once: on a closed mailbox the queued sender's next
    poll returns Err(Send) whether or not a deadline is set or has passed -/
theorem send_failure_not_delayed (s : Sys) (oid : Nat) (w : Waiter) (mid : Nat) (k : Kind)
    (hf : s.waiters.find? (fun w => decide (w.oid = oid) && !w.acq) = some w) (hc : s.rxOpen = false)
    (hi : w.item = .env mid k) :
    step? s (.grantWake oid) = some ({ s with waiters := s.waiters.erase w }.complete oid .send (some .actorStopped)) := by
  simp [step?, hf, hc, Sys.failSend, hi]

/-- ... and a lost reply is reported as Err(Receive) at the asker's next poll, before any deadline -/
theorem lost_reply_not_delayed (s : Sys) (oid : Nat) (hc : s.client oid = .awaiting) (hr : s.reply oid = .dropped) :
    step? s (.recvReply oid) = some (s.complete oid .receive (some .replyDropped)) := by
  simp [step?, hc, hr]

-- non-vacuity of "never masking": the reply to a timed ask is sent before the deadline, the asker is polled long
-- after it: the timer step is refused, the asker's poll returns the reply
example : ∃ s, run? (init 1 {})
    [.gate, .startDone, .issue 0 { kind := .ask, timeout := some 5 }, .push 0, .pollTerm, .pollMail,
     .gate, .handlerDone, .advance 50] = some s ∧
    step? s (.timeoutFire 0) = none ∧
    ∃ s', step? s (.recvReply 0) = some s' ∧ Ev.ret 0 (.reply 0) 50 ∈ s'.ev := by
  refine ⟨_, rfl, by decide, _, rfl, by decide⟩

-- non-vacuity: a timed tell blocked on a full mailbox times out at exactly issue + 25
example : ∃ s, run? (init 1 {})
    [.gate, .startDone, .issue 0 { kind := .tell }, .push 0, .advance 10,
     .issue 0 { kind := .tell, timeout := some 25 }, .advance 25, .timeoutFire 1] = some s ∧
    Ev.ret 1 .timeout 35 ∈ s.ev := by
  refine ⟨_, rfl, ?_⟩; decide


/-! ### ties to the source: shape lemmas about the tables regenerated from /repo on every run -/
-- @tie Rsactor.Ties.timeout_wrappers_shape
-- @tie Rsactor.Ties.forwarders_verbatim

end Rsactor.Props.C10
