/-
  C03 — ask: the reply belongs to the request, and ask never hangs on a dead actor.
-/
import Rsactor.Inv.End
import Rsactor.Inv.Rej
import Rsactor.Ties.timeout_wrappers_shape
import Rsactor.Ties.blocking_dispatch_shape
import Rsactor.Ties.reply_wait_shape
import Rsactor.Ties.ask_join_shape
import Rsactor.Ties.send_paths_shape
import Rsactor.Ties.handle_message_shape
import Rsactor.Ties.lifecycle_arms
import Rsactor.Inv.Progress

namespace Rsactor.Props.C03
open Rsactor Rsactor.Model Rsactor.Monitor

theorem end_ids_run (cap : Nat) (sc : Script) (ls : List Label) (s : Sys)
    (hr : run? (init cap sc) ls = some s) : IdsInv s ∧ EndInv s :=
  run_inv (P := fun s => IdsInv s ∧ EndInv s)
    (fun s s' l ⟨hi, he⟩ hs => ⟨IdsInv_step s s' l hi hs, EndInv_step s s' l he hi hs⟩)
    (init cap sc) s ls ⟨IdsInv_init cap sc, EndInv_init cap sc⟩ hr

/-- `reply_integrity`: in every run, an ask that returns Ok(v) returns the value produced for that very
    request (the token of its own id), and only after its handler completed normally. -/
theorem reply_integrity (cap : Nat) (sc : Script) (ls : List Label) (s : Sys)
    (hr : run? (init cap sc) ls = some s) : C03.replyIntegrity s.ev = true :=
  (end_ids_run cap sc ls s hr).2.riOk

/-- `ended_clean`: once the actor has ended — for whatever reason — its mailbox is closed and empty and no
    reply is pending any more, except for envelopes that were pushed after the receivers had been dropped. -/
theorem ended_clean (cap : Nat) (sc : Script) (ls : List Label) (s : Sys)
    (hr : run? (init cap sc) ls = some s) (he : s.pc = .ended) :
    s.rxOpen = false ∧ s.mbox = [] ∧ ∀ m, s.reply m = .pending → Item.env m .ask ∈ s.stranded := by
  obtain ⟨_, h⟩ := end_ids_run cap sc ls s hr
  refine ⟨h.closedIff.mpr he, h.endedEmpty he, ?_⟩
  intro m hm
  rcases h.pendingWhere m hm with hq | hq | hq
  · rw [h.endedEmpty he] at hq; cases hq
  · rw [he] at hq; cases hq
  · exact hq

/-- `later_fail`: every tell / ask issued once the actor has ended fails with Send within its own
    label (no waiting), and stop() / kill() return Ok. -/
theorem later_fail (s : Sys) (hc : s.rxOpen = false) (h : Nat) (hh : (h, true) ∈ s.handles) (op : OpSpec) :
    ∃ s', step? s (.issue h op) = some s' ∧
      s'.client s.nextOid = .done (match op.kind with | .tell => .send | .ask => .send | _ => .ok) := by
  simp only [step?, Sys.issue, hh, if_true]
  cases hk : op.kind <;> simp [opItem, hc, Sys.failSend, setF]

/-- `completes`: once the actor has ended, every operation still in flight — queued for a permit,
    holding a permit, or awaiting a reply (its envelope queued, in the handler that panicked, or
    stranded) — completes within at most two of its own steps. With the reply wait that also
    watches the mailbox being closed (`Extracted.ask_wait_watches_closed`), this includes an ask whose
    envelope was pushed after the receivers were dropped. -/
theorem completes (cap : Nat) (sc : Script) (ls : List Label) (s : Sys)
    (hr : run? (init cap sc) ls = some s) (he : s.pc = .ended) (oid : Nat)
    (hc : s.client oid = .waiting ∨ s.client oid = .awaiting) :
    ∃ ls' s', ls'.length ≤ 2 ∧ run? s ls' = some s' ∧ ∃ r, s'.client oid = .done r := by
  obtain ⟨hi, h⟩ := end_ids_run cap sc ls s hr
  have hclosed : s.rxOpen = false := h.closedIff.mpr he
  have hw : Extracted.ask_wait_watches_closed = true := rfl
  -- an awaiting operation always has recvReply enabled
  have await_done : ∀ t : Sys, t.rxOpen = false → t.client oid = .awaiting →
      ∃ t', step? t (.recvReply oid) = some t' ∧ ∃ r, t'.client oid = .done r := by
    intro t hcl hta
    simp only [step?, hta]
    cases hrp : t.reply oid <;> simp [hcl, hw, setF]
  rcases hc with hc | hc
  · -- it has a waiter
    have hmem := h.waitingHas oid hc
    simp only [List.mem_map] at hmem
    obtain ⟨w, hwm, hwo⟩ := hmem
    cases hacq : w.acq
    · -- not yet polled: the poll sees the closed mailbox
      have hfind : ∃ w', s.waiters.find? (fun w => decide (w.oid = oid ∧ ¬ w.acq = true)) = some w' := by
        cases hf : s.waiters.find? (fun w => decide (w.oid = oid ∧ ¬ w.acq = true)) with
        | some w' => exact ⟨w', rfl⟩
        | none =>
          have := List.find?_eq_none.mp hf w hwm
          simp [hwo, hacq] at this
      obtain ⟨w', hf⟩ := hfind
      have hstep : step? s (.grantWake oid) =
          some ({ s with waiters := s.waiters.erase w' }.failSend oid w'.item) := by
        simp only [step?]; rw [hf]; simp [hclosed]
      refine ⟨[.grantWake oid], { s with waiters := s.waiters.erase w' }.failSend oid w'.item, by simp, ?_, ?_⟩
      · simp only [run?, hstep]
      · cases w'.item <;> simp [Sys.failSend, setF]
    · -- holds a permit: the push strands the item
      have hfind : ∃ w', s.waiters.find? (fun w => decide (w.oid = oid ∧ w.acq = true)) = some w' := by
        cases hf : s.waiters.find? (fun w => decide (w.oid = oid ∧ w.acq = true)) with
        | some w' => exact ⟨w', rfl⟩
        | none =>
          have := List.find?_eq_none.mp hf w hwm
          simp [hwo, hacq] at this
      obtain ⟨w', hf⟩ := hfind
      obtain ⟨hw'm, hq⟩ := find_waiter hf
      have hw'o : w'.oid = oid := by simp at hq; exact hq.1
      have hk : (w'.oid, w'.item) ∈ wkeys s.waiters := by
        simp only [wkeys, List.mem_map]; exact ⟨w', hw'm, rfl⟩
      have k1 : w'.item.oid = oid := by rw [(hi.wOk _ hk).1, hw'o]
      have hpush : step? s (.push oid) = some ({ s with waiters := s.waiters.erase w' }.afterStrand w'.item) := by
        simp only [step?]; rw [hf]; simp [hclosed]
      cases hit : w'.item with
      | env mid k =>
        rw [hit] at k1; simp only [Item.oid] at k1; subst k1
        cases k
        · refine ⟨[.push mid], { s with waiters := s.waiters.erase w' }.afterStrand w'.item, by simp,
            by simp only [run?, hpush], ?_⟩
          simp [hit, Sys.afterStrand, setF]
        · -- an ask: one more step, the reply wait notices the closed mailbox
          have ht := await_done ({ s with waiters := s.waiters.erase w' }.afterStrand (.env mid .ask))
            (by simp [Sys.afterStrand, hclosed]) (by simp [Sys.afterStrand, setF])
          obtain ⟨t', ht1, ht2⟩ := ht
          refine ⟨[.push mid, .recvReply mid], t', by simp, ?_, ht2⟩
          simp only [run?, hpush, hit, ht1]
      | stop o =>
        rw [hit] at k1; simp only [Item.oid] at k1; subst k1
        refine ⟨[.push o], { s with waiters := s.waiters.erase w' }.afterStrand w'.item, by simp,
          by simp only [run?, hpush], ?_⟩
        simp [hit, Sys.afterStrand, setF]
  · obtain ⟨t', ht1, ht2⟩ := await_done s hclosed hc
    exact ⟨[.recvReply oid], t', by simp, by simp only [run?, ht1], ht2⟩

-- non-vacuity: the hang scenario of DESIGN.md §9.2 — permit taken, actor stops and exits, push lands
-- afterwards: with the repaired reply wait the asker still completes (Err(Receive))
example : ∃ s, run? (init 1 {})
    [.gate, .startDone, .issue 0 { kind := .ask }, .issue 0 { kind := .kill }, .pollTerm, .gate, .stopDone,
     .push 0, .recvReply 0] = some s ∧ s.client 0 = .done .receive ∧ s.stranded = [.env 0 .ask] := by
  refine ⟨_, rfl, ?_, ?_⟩ <;> decide


/-- `no_operation_left_hanging`: whenever the runtime has nothing left to run (neither the actor's task nor any client
    operation can take a step) and the actor is idle - parked in its select with an empty mailbox - or has ended,
    every operation ever issued has returned: no tell or stop() still waits for a slot, no ask still waits for its
    reply.  A live, idle actor owes nobody an answer; an ended one has failed everything that was pending.  (What can
    still be outstanding in a quiescent state is exactly the work of a hook that is waiting for its own external
    event - here: a gate.) -/
theorem no_operation_left_hanging (cap : Nat) (sc : Script) (ls : List Label) (s : Sys) (hcap : 0 < cap)
    (hr : run? (init cap sc) ls = some s) (hq : quiescent s) (hidle : s.pc = .parked ∨ s.pc = .ended) (oid : Nat) :
    s.client oid ≠ .waiting ∧ s.client oid ≠ .awaiting :=
  quiescent_all_returned cap sc ls s hcap hr hq hidle oid

/-- ... and that is all that can keep an operation outstanding: in a quiescent state the actor is parked, ended, or inside
    a hook that waits for its own external event; unless it is inside such a hook, every operation has returned. -/
theorem outstanding_only_behind_a_waiting_hook (cap : Nat) (sc : Script) (ls : List Label) (s : Sys) (hcap : 0 < cap)
    (hr : run? (init cap sc) ls = some s) (hq : quiescent s)
    (hnohook : s.pc ≠ .starting ∧ (∀ m k, s.pc ≠ .inHandler m k) ∧ ∀ a b c, s.pc ≠ .stopping a b c) (oid : Nat) :
    s.client oid ≠ .waiting ∧ s.client oid ≠ .awaiting := by
  rcases quiescent_actor_where s hq with h | h | ⟨_, h | ⟨m, k, h⟩ | ⟨a, b, c, h⟩⟩
  · exact quiescent_all_returned cap sc ls s hcap hr hq (Or.inl h) oid
  · exact quiescent_all_returned cap sc ls s hcap hr hq (Or.inr h) oid
  · exact absurd h hnohook.1
  · exact absurd h (hnohook.2.1 m k)
  · exact absurd h (hnohook.2.2 a b c)

/-- the same in the scheduler's own terms: whenever the deterministic runtime of the correspondence has emptied its run
    queue (`Exec.runnable s = []`, the condition under which a macro-step ends) and the actor is not inside a hook, every
    operation has returned - this is what "settled" means for the traces the monitors read -/
theorem settled_scheduler_all_returned (cap : Nat) (sc : Script) (ls : List Label) (s : Sys) (hcap : 0 < cap)
    (hr : run? (init cap sc) ls = some s) (hq : Exec.runnable s = [])
    (hnohook : s.pc ≠ .starting ∧ (∀ m k, s.pc ≠ .inHandler m k) ∧ ∀ a b c, s.pc ≠ .stopping a b c) (oid : Nat) :
    s.client oid ≠ .waiting ∧ s.client oid ≠ .awaiting :=
  outstanding_only_behind_a_waiting_hook cap sc ls s hcap hr
    (runnable_nil_quiescent s (end_ids_run cap sc ls s hr).1 hq) hnohook oid

-- non-vacuity: after a tell and an ask were served the actor is parked, nothing can run, both have returned
example : ∃ s, run? (init 1 {})
    [.gate, .startDone, .pollTerm, .pollMail, .pollRun,
     .issue 0 { kind := .tell }, .push 0, .issue 0 { kind := .ask }, .wake, .pollTerm, .pollMail, .grantWake 1, .push 1, .gate, .handlerDone,
     .pollTerm, .pollMail, .gate, .handlerDone, .recvReply 1, .pollTerm, .pollMail, .pollRun] = some s ∧
    s.pc = .parked ∧ Exec.actorLabel s = none ∧ Exec.clientLabel s 0 = none ∧ Exec.clientLabel s 1 = none ∧
    s.client 0 = .done .ok ∧ s.client 1 = .done (.reply 1) := by
  refine ⟨_, rfl, ?_⟩; decide

/-! ### ties to the source: shape lemmas about the tables regenerated from /repo on every run -/
-- @tie Rsactor.Ties.timeout_wrappers_shape
-- @tie Rsactor.Ties.blocking_dispatch_shape
-- @tie Rsactor.Ties.reply_wait_shape
-- @tie Rsactor.Ties.ask_join_shape
-- @tie Rsactor.Ties.send_paths_shape
-- @tie Rsactor.Ties.handle_message_shape
-- @tie Rsactor.Ties.lifecycle_arms

end Rsactor.Props.C03
