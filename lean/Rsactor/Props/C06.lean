/-
  C06 — kill() pre-empts the mailbox and never blocks.
-/
import Rsactor.Inv.KillBound
import Rsactor.Inv.Progress
import Rsactor.Ties.select_order
import Rsactor.Ties.kill_stop_shape
import Rsactor.Ties.lifecycle_arms

namespace Rsactor.Props.C06
open Rsactor Rsactor.Model Rsactor.Monitor

/-- `kill_total`: in every state — full mailbox, busy actor, dead actor, repeated calls — kill() through
    any live strong handle is enabled, completes within its own label with Ok, queues no waiter, and
    records no dead letter. -/
theorem kill_total (s : Sys) (h : Nat) (hh : (h, true) ∈ s.handles) (t : Option Nat) (o : HOut) :
    ∃ s', step? s (.issue h { kind := .kill, timeout := t, hout := o }) = some s' ∧
      s'.client s.nextOid = .done .ok ∧ s'.waiters = s.waiters ∧ s'.dead = s.dead ∧ s'.mbox = s.mbox := by
  simp only [step?, Sys.issue, hh, if_true, opItem]
  refine ⟨_, rfl, ?_, ?_, ?_, ?_⟩
  · simp [setF]
  · split <;> rfl
  · split <;> rfl
  · split <;> rfl

/-- `kill_bound`: in every run, once kill() has been called on an actor that had not begun to stop,
    at most one further message handler starts, no matter how many messages are queued (the one is the
    poll that had already passed the termination branch when the signal landed). -/
theorem kill_bound (cap : Nat) (sc : Script) (ls : List Label) (s : Sys)
    (hr : run? (init cap sc) ls = some s) : C06.killBound s.ev = true := by
  have h := run_inv KBInv_step (init cap sc) s ls (KBInv_init cap sc) hr
  simp only [C06.killBound, decide_eq_true_eq]
  cases ha : (C06.kb s.ev).armed
  · rw [h.unarmed ha]; omega
  · have := (h.armed ha).1; omega

/-- while the kill signal is pending and the actor has not begun to stop, the signal is still in the
    control slot: it cannot be lost -/
theorem kill_not_lost (cap : Nat) (sc : Script) (ls : List Label) (s : Sys)
    (hr : run? (init cap sc) ls = some s) (ha : (C06.kb s.ev).armed = true)
    (hn : pcStopped s.pc = false) : s.termSlot = true := by
  have h := run_inv KBInv_step (init cap sc) s ls (KBInv_init cap sc) hr
  cases ht : s.termSlot with
  | true => rfl
  | false => have := (h.armed ha).2 ht; rw [hn] at this; cases this

/-- `kill_prompt`: at the next poll of the select the pending signal wins over any number of queued
    messages and over on_run: on_stop(killed = true) begins. -/
theorem kill_prompt (s : Sys) (hpc : s.pc = .selTerm) (ht : s.termSlot = true) :
    ∃ s', step? s .pollTerm = some s' ∧ s'.pc = .stopping true false false ∧ s'.mbox = s.mbox ∧
      s'.ev = s.ev ++ [.termConsumed, .stopStart true] := by
  simp [step?, hpc, ht]

/-- `kill_wins`: "it then runs on_stop(killed=true) ... reports killed=true": from any state in which a kill signal is
    pending and the actor has not begun to stop, whichever step takes the actor into on_stop does so with
    killed = true - also when that step is the loop finding the stop marker or the closed mailbox right after it had
    polled the control channel (it looks at the control channel once more).  The only other way into on_stop is an
    on_run error, a cause of its own.  With `kill_not_lost` (the signal stays pending until then) this holds from the
    moment kill() returns.  Before the repair recorded in known_findings.txt (C06) the marker / closed-mailbox steps
    entered on_stop(killed=false) here; the schedule is in DESIGN.md §13.3. -/
theorem kill_wins (s s' : Sys) (l : Label) (hs : step? s l = some s')
    (hlive : pcStopped s.pc = false) (hkill : s.termSlot = true) (k r m : Bool) (hpc : s'.pc = .stopping k r m) :
    k = true ∨ (l = .pollRun ∧ r = true) := by
  step_cases l hs
  all_goals (try (simp at hpc; done))
  all_goals (try (exfalso; simp at hpc; rw [hpc] at hlive; simp [pcStopped] at hlive; done))
  all_goals (try (exfalso; split at hpc <;> simp at hpc <;> (rw [hpc] at hlive; simp [pcStopped] at hlive); done))
  all_goals (simp at hpc; simp_all [Sys.strongCount])

-- non-vacuity: a kill that lands after the control channel was polled, with a stop marker at the head of the mailbox
example : ∃ s, run? (init 2 {}) [.gate, .startDone, .issue 0 { kind := .stop }, .push 0, .pollTerm,
      .issue 0 { kind := .kill }, .pollMail] = some s ∧ s.pc = .stopping true false true := by
  refine ⟨_, rfl, ?_⟩; decide

/-- the one exception is reachable (so the bound of one is tight): kill lands after the term branch was polled -/
theorem one_further_handler_reachable :
    ∃ s, run? (init 2 {}) [.gate, .startDone, .issue 0 { kind := .tell }, .push 0, .pollTerm,
      .issue 0 { kind := .kill }, .pollMail] = some s ∧ (C06.kb s.ev).starts = 1 := by
  refine ⟨_, rfl, ?_⟩; decide


/-- `killed_actor_does_not_idle`: in a state in which the runtime has nothing left to run, an actor whose kill signal is
    still pending is not parked in its select and not waiting for mail: it has ended or is inside the hook that was in
    progress (which waits for its own external event).  Together with `kill_not_lost` and `kill_prompt` this is the
    progress half of "runs on_stop(killed=true) as soon as the hook in progress finishes". -/
theorem killed_actor_does_not_idle (s : Sys) (hq : quiescent s) (hk : s.termSlot = true) :
    s.pc = .ended ∨
    (s.gatePermits = 0 ∧ (s.pc = .starting ∨ (∃ m k, s.pc = .inHandler m k) ∨ ∃ a b c, s.pc = .stopping a b c)) :=
  quiescent_due_has_ended s hq (Or.inl hk)

/-! ### ties to the source: shape lemmas about the tables regenerated from /repo on every run -/
-- @tie Rsactor.Ties.select_order
-- @tie Rsactor.Ties.kill_stop_shape
-- @tie Rsactor.Ties.lifecycle_arms

end Rsactor.Props.C06
