/-
  C07 — Actors end when stopped or unreferenced, and only then.
-/
import Rsactor.Inv.KillBound
import Rsactor.Inv.End
import Rsactor.Inv.Progress
import Rsactor.Ties.lifecycle_arms
import Rsactor.Ties.send_paths_shape
import Rsactor.Ties.handle_algebra_shape

namespace Rsactor.Props.C07
open Rsactor Rsactor.Model Rsactor.Monitor

/-- `never_spontaneous`: a live actor begins to stop only in one of five steps — the kill signal is
    consumed; the control channel is observed closed with no strong reference left; the stop marker is
    dequeued; the mailbox is observed closed and empty with no strong reference left (in these two, killed is true
    exactly if a kill signal has arrived meanwhile: the loop looks at the control channel once more); on_run
    returned an error.  Nothing else (in particular not on_run returning Ok(false), not a weak handle operation)
    takes it there. -/
theorem never_spontaneous (s s' : Sys) (l : Label) (hs : step? s l = some s')
    (hlive : pcStopped s.pc = false) (k r m : Bool) (hpc : s'.pc = .stopping k r m) :
    (l = .pollTerm ∧ s.termSlot = true ∧ k = true) ∨
    (l = .pollTerm ∧ s.termSlot = false ∧ s.strongCount = 0 ∧ k = false) ∨
    (l = .pollMail ∧ (∃ o rest, s.mbox = .stop o :: rest) ∧ k = s.termSlot ∧ m = true) ∨
    (l = .pollMail ∧ s.mbox = [] ∧ s.strongCount = 0 ∧ k = s.termSlot) ∨
    (l = .pollRun ∧ r = true ∧ k = false) := by
  step_cases l hs
  all_goals (try (simp at hpc; done))
  all_goals (try (exfalso; simp at hpc; rw [hpc] at hlive; simp [pcStopped] at hlive; done))
  all_goals (try (exfalso; split at hpc <;> simp at hpc <;> (rw [hpc] at hlive; simp [pcStopped] at hlive); done))
  all_goals (simp at hpc; simp_all [Sys.strongCount])

/-- an actor ends (its JoinHandle resolves) only out of on_stop, or by a failed / panicking hook -/
theorem ends_only_after_stop_or_crash (s s' : Sys) (l : Label) (hs : step? s l = some s')
    (hlive : s.pc ≠ .ended) (hend : s'.pc = .ended) :
    (l = .stopDone ∧ ∃ k r m, s.pc = .stopping k r m) ∨
    (l = .startDone ∧ s.script.startOut ≠ .ok) ∨
    (l = .handlerDone ∧ ∃ mid kk, s.pc = .inHandler mid kk ∧ (s.spec mid).hout = .panic) ∨
    (l = .pollRun ∧ runOutAt s.script (if s.runLive then s.runIdx - 1 else s.runIdx) = .panic) := by
  step_cases l hs
  all_goals (try (simp at hend; done))
  all_goals (try (exfalso; simp at hend; exact hlive hend; done))
  all_goals (try (exfalso; split at hend <;> simp at hend <;> exact hlive hend; done))
  all_goals (simp_all)

/-- `weak_dont_count`: creating, cloning or dropping a weak handle never changes the number of strong
    references the actor sees; a weak handle is never counted. -/
theorem weak_dont_count (s s' : Sys) (h : Nat) (hs : step? s (.downgrade h) = some s') :
    s'.strongCount = s.strongCount := by
  simp only [step?] at hs
  split at hs
  · cases hs; simp [Sys.strongCount, strongHandles, List.filter_append]
  · cases hs

/-- `upgrade_iff`: upgrading a weak handle yields a new strong handle exactly while a strong reference
    (handle, queued item, waiter, running handler, operation in flight) still exists. -/
theorem upgrade_iff (s s' : Sys) (h : Nat) (hs : step? s (.upgrade h) = some s') :
    (0 < s.strongCount → s'.handles = s.handles ++ [(s.nextHid, true)]) ∧
    (s.strongCount = 0 → s'.handles = s.handles ∧ Ev.upgradeFailed h ∈ s'.ev) := by
  simp only [step?] at hs
  split at hs
  · split at hs
    · rename_i hp; cases hs; exact ⟨fun _ => rfl, fun h0 => by omega⟩
    · rename_i hp; cases hs; exact ⟨fun h0 => absurd h0 hp, fun _ => ⟨rfl, by simp⟩⟩
  · cases hs

/-- `closed_means_unreferenced`: the loop observes "all references dropped" only when the count of
    strong references — client handles, queued envelopes and stop markers, senders blocked for a slot,
    the reference inside the running handler, operations in flight, the task's own reference during
    on_start — is zero; in particular not while anything is queued. -/
theorem closed_means_unreferenced (s : Sys) (h : s.strongCount = 0) :
    s.mbox = [] ∧ s.waiters = [] ∧ strongHandles s.handles = 0 ∧ s.inflight = 0 ∧ s.taskRef = false := by
  unfold Sys.strongCount at h
  refine ⟨List.eq_nil_of_length_eq_zero (by omega), List.eq_nil_of_length_eq_zero (by omega), by omega, by omega, ?_⟩
  cases ht : s.taskRef
  · rfl
  · simp [ht] at h

/-- `ends_when_unreferenced` (progress): a parked actor with no strong reference left and no pending
    kill runs on_stop(killed = false) at its next wake-up. -/
theorem ends_when_unreferenced (s : Sys) (hpc : s.pc = .parked) (h0 : s.strongCount = 0) (ht : s.termSlot = false) :
    ∃ s', run? s [.wake, .pollTerm] = some s' ∧ s'.pc = .stopping false false false ∧
      s'.ev = s.ev ++ [.stopStart false] := by
  have h0' : ({ s with pc := .selTerm } : Sys).strongCount = 0 := by
    simpa [Sys.strongCount, hpc, inHandlerRef] using h0
  have h1 : step? s .wake = some { s with pc := .selTerm } := by simp [step?, hpc]
  have h2 : step? { s with pc := .selTerm } .pollTerm =
      some { s with pc := .stopping false false false, runLive := false, ev := s.ev ++ [.stopStart false] } := by
    simp only [step?]
    rw [if_pos trivial, if_neg (by simp [ht]), if_pos h0']
  exact ⟨{ s with pc := .stopping false false false, runLive := false, ev := s.ev ++ [.stopStart false] },
    by simp only [run?, h1, h2], rfl, rfl⟩

/-- `ends_when_stopped` (progress): with the stop marker at the head of the mailbox and no kill pending,
    the next poll runs on_stop(killed = false). -/
theorem ends_when_stopped (s : Sys) (hpc : s.pc = .selTerm) (ht : s.termSlot = false) (o : Nat) (rest : List Item)
    (hm : s.mbox = .stop o :: rest) :
    ∃ s', run? s [.pollTerm, .pollMail] = some s' ∧ s'.pc = .stopping false false true := by
  have hsc : s.strongCount ≠ 0 := by simp [Sys.strongCount, hm]
  simp [run?, step?, hpc, ht, hsc, hm]

-- non-vacuity: the last reference is a queued envelope; the actor handles it, then stops gracefully
example : ∃ s, run? (init 2 {})
    [.gate, .startDone, .issue 0 { kind := .tell }, .push 0, .dropH 0, .pollTerm, .pollMail, .gate, .handlerDone,
     .pollTerm] = some s ∧ s.pc = .stopping false false false ∧ startedMids s.ev = [0] := by
  refine ⟨_, rfl, ?_, ?_⟩ <;> decide

/-- `unreferenced_actor_does_not_idle`: in a state in which the runtime has nothing left to run, an actor to which no strong
    reference remains (none in a handle, none in a queued message, none in a running hook) is not parked in its select:
    it has ended, or it is inside a hook that waits for its own external event.  With `ends_when_unreferenced` (the
    step it takes) and `never_spontaneous` (the only steps that begin a stop) this is "ends when unreferenced, and only
    then" without a fairness assumption. -/
theorem unreferenced_actor_does_not_idle (s : Sys) (hq : quiescent s) (h0 : s.strongCount = 0) :
    s.pc = .ended ∨
    (s.gatePermits = 0 ∧ (s.pc = .starting ∨ (∃ m k, s.pc = .inHandler m k) ∨ ∃ a b c, s.pc = .stopping a b c)) :=
  quiescent_due_has_ended s hq (Or.inr (Or.inl h0))

/-- ... and conversely an actor that idles (parked, nothing to run) is referenced, has no kill pending and owes no message -/
theorem idle_actor_is_referenced (s : Sys) (hq : quiescent s) (hpk : s.pc = .parked) :
    s.termSlot = false ∧ s.strongCount ≠ 0 ∧ s.mbox = [] :=
  quiescent_parked s hq hpk

/-! ### ties to the source -/
-- @tie Rsactor.Ties.lifecycle_arms
-- @tie Rsactor.Ties.send_paths_shape
-- @tie Rsactor.Ties.handle_algebra_shape

end Rsactor.Props.C07
