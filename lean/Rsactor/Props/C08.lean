/-
  C08 — on_run is an idle handler: messages first, Ok(false) disables it for good.
-/
import Rsactor.Inv.Run
import Rsactor.Ties.select_order
import Rsactor.Ties.lifecycle_arms

namespace Rsactor.Props.C08
open Rsactor Rsactor.Model Rsactor.Monitor

theorem run_all (cap : Nat) (sc : Script) (ls : List Label) (s : Sys)
    (hr : run? (init cap sc) ls = some s) : IdsInv s ∧ EndInv s ∧ FifoInv s ∧ RunInv s :=
  run_inv (P := fun s => IdsInv s ∧ EndInv s ∧ FifoInv s ∧ RunInv s)
    (fun s s' l ⟨hi, he, hf, hrn⟩ hs =>
      ⟨IdsInv_step s s' l hi hs, EndInv_step s s' l he hi hs, FifoInv_step s s' l hf hs,
       RunInv_step s s' l hrn hf he hs⟩)
    (init cap sc) s ls ⟨IdsInv_init cap sc, EndInv_init cap sc, FifoInv_init cap sc, RunInv_init cap sc⟩ hr

/-- `run_only_when_empty`: whenever the on_run branch is about to be polled, every message that had been
    accepted when this poll checked the mailbox has been taken out of it — a waiting message is always
    handled before on_run is polled again. -/
theorem run_only_when_empty (cap : Nat) (sc : Script) (ls : List Label) (s : Sys)
    (hr : run? (init cap sc) ls = some s) (hpc : s.pc = .selRun) :
    s.taken = s.acceptedAtMail ∧ s.acceptedAtMail ≤ s.accepted.length :=
  (run_all cap sc ls s hr).2.2.2.emptyAtRun hpc

/-- `disable_forever` and `err_fails`, on the predicate evaluated on real traces: after Ok(false) no
    on_run future is ever polled again, and after Err the very next hook event is on_stop(false). -/
theorem disable_forever_and_err_fails (cap : Nat) (sc : Script) (ls : List Label) (s : Sys)
    (hr : run? (init cap sc) ls = some s) : C08.disableForeverAndErrFails s.ev = true := by
  have h := (run_all cap sc ls s hr).2.2.2
  simp [C08.disableForeverAndErrFails, h.ok, h.noPend]

/-- the idle flag is cleared by Ok(false) and never set again -/
theorem disabled_stays (cap : Nat) (sc : Script) (ls : List Label) (s : Sys)
    (hr : run? (init cap sc) ls = some s) (hd : (C08.r8 s.ev).disabled = true) : s.idleEnabled = false :=
  (run_all cap sc ls s hr).2.2.2.disabled hd

/-- `serving_after_disable`: with on_run disabled the loop still takes messages: the poll parks instead of
    running on_run, and a dequeue is enabled exactly as before. -/
theorem serving_after_disable (s : Sys) (hpc : s.pc = .selRun) (hd : s.idleEnabled = false) :
    step? s .pollRun = some { s with pc := .parked } := by
  simp [step?, hpc, hd]

/-- `continue_rearms`: Ok(true) leaves the idle flag set, so the next idle poll creates a fresh future. -/
theorem continue_rearms (s : Sys) (hpc : s.pc = .selRun) (he : s.idleEnabled = true) (hl : s.runLive = true)
    (hg : 0 < s.gatePermits) (ho : runOutAt s.script (s.runIdx - 1) = .cont) :
    ∃ s', step? s .pollRun = some s' ∧ s'.pc = .selTerm ∧ s'.idleEnabled = true ∧ s'.runLive = false := by
  have : s.gatePermits ≠ 0 := by omega
  simp [step?, Sys.runStep, hpc, he, hl, this, ho]

-- non-vacuity: a message arriving while on_run waits pre-empts it; the next idle poll starts a new future
example : ∃ s, run? (init 2 { runOuts := [.cont, .disable] })
    [.gate, .startDone, .pollTerm, .pollMail, .pollRun, .issue 0 { kind := .tell }, .push 0, .wake, .pollTerm,
     .pollMail, .gate, .handlerDone, .pollTerm, .pollMail, .pollRun] = some s ∧ s.runIdx = 2 := by
  refine ⟨_, rfl, ?_⟩; decide

/-! ### ties to the source -/
-- @tie Rsactor.Ties.select_order
-- @tie Rsactor.Ties.lifecycle_arms

end Rsactor.Props.C08
