/-
  C12 — A failing actor fails alone.
-/
import Rsactor.Props.C03
import Rsactor.Props.C04
import Rsactor.Props.C05
import Rsactor.Inv.NetInv
import Rsactor.Ties.feature_sites_shape
import Rsactor.Ties.ask_protocol_shape
import Rsactor.Ties.lifecycle_arms

namespace Rsactor.Props.C12
open Rsactor Rsactor.Model Rsactor.Monitor

/-- `victim_reports_panic`: a panic in any hook (on_start, the k-th handler, the k-th on_run, on_stop)
    surfaces as a panic JoinError — never as a normal result — and (the lifecycle automaton) nothing
    runs after it: in particular no on_stop after a panic outside on_stop. -/
theorem victim_reports_panic (cap : Nat) (sc : Script) (ls : List Label) (s : Sys)
    (hr : run? (init cap sc) ls = some s) :
    C05.ok ⟨cap, s.ev⟩ = true ∧ C04.accepts s.ev = true ∧ C04.stopIffCause s.ev = true :=
  ⟨C05.result_truthful cap sc ls s hr, C04.hook_language cap sc ls s hr, C04.stop_iff_cause cap sc ls s hr⟩

/-- `victim_senders_get_errors`: once the victim has ended, every operation still in flight on it
    completes (with an error or the reply already sent) and every later send fails at once. -/
theorem victim_senders_get_errors (cap : Nat) (sc : Script) (ls : List Label) (s : Sys)
    (hr : run? (init cap sc) ls = some s) (he : s.pc = .ended) (oid : Nat)
    (hc : s.client oid = .waiting ∨ s.client oid = .awaiting) :
    ∃ ls' s', ls'.length ≤ 2 ∧ run? s ls' = some s' ∧ ∃ r, s'.client oid = .done r :=
  C03.completes cap sc ls s hr he oid hc

open Rsactor.Net in
/-- `deadlock_panic_is_local`: the deliberate panic of the ask that would close a cycle touches nothing
    of the other actors: the wait-for map, every other actor's pending ask and liveness are unchanged; only
    asks that were in flight *to* the panicking actor become lost (their askers then resume with an error). -/
theorem deadlock_panic_is_local (n n' : Net) (a b : Nat) (hs : Net.step? n (.ask a b) = some n')
    (hdl : (a == b || Extracted.has_path n.graph b a) = true) :
    n'.graph = n.graph ∧ n'.busy = n.busy ∧ n'.tokOf = n.tokOf ∧ (∀ x, x ≠ a → n'.dead x = n.dead x) ∧
    (∀ t, (n.asks t).callee ≠ a → n'.asks t = n.asks t) := by
  simp only [Net.step?, Net.stepWith] at hs
  split at hs
  · cases hs
  · first
      | cases hs
      | (simp only [hdl, if_true] at hs; cases hs)
    refine ⟨rfl, rfl, rfl, ?_, ?_⟩
    · intro x hx; simp [setN, hx]
    · intro t ht; simp [loseTo, ht]

open Rsactor.Net in
/-- `graph_never_corrupted`: whatever mix of panics, deaths, timeouts and cancellations occurs, the
    wait-for map stays exactly the set of unanswered in-flight asks (the invariant of C15 holds in every
    reachable state, including every state after a peer's panic). -/
theorem graph_never_corrupted (ls : List NLabel) (n : Net) (hr : Net.run? Net.init ls = some n) : NInv n :=
  NInv_run ls n hr

open Rsactor.Net in
/-- an actor's death never leaves a survivor waiting on it for ever: asks in flight to it are resumable -/
theorem survivors_not_stuck_on_victim (n n' : Net) (y : Nat) (hs : Net.step? n (.die y) = some n') (t : Nat)
    (hc : (n.asks t).callee = y) (hst : (n.asks t).st = .inflight) (hnb : n.busy y ≠ some t) :
    ∃ n'', Net.step? n' (.resume t) = some n'' := by
  have hl : (n'.asks t).st = .lost := by
    simp only [Net.step?, Net.stepWith] at hs
    split at hs
    · cases hs
    · cases hs
      cases hb : n.busy y with
      | none => simp [loseTo, hc, hst]
      | some t0 =>
        have : t ≠ t0 := by intro he; subst he; exact hnb hb
        simp only [flags.2, if_true, loseTo, clear_asks, setN, this, if_false, hc, hst, and_self]
  simp [Net.step?, Net.stepWith, hl]

-- non-vacuity: a handler panics while an ask is queued behind it: JoinError, no on_stop, the queued ask fails
example : ∃ s, Model.run? (Model.init 2 {})
    [.gate, .startDone, .issue 0 { kind := .tell, hout := .panic }, .push 0, .issue 0 { kind := .ask }, .push 1,
     .pollTerm, .pollMail, .gate, .handlerDone, .recvReply 1] = some s ∧
    s.result = some none ∧ s.client 1 = .done .receive ∧ (s.ev.any isStopStart) = false := by
  refine ⟨_, rfl, ?_, ?_, ?_⟩ <;> decide

/-! ### ties to the source: the lock is released before the deliberate panic and guards tolerate poisoning -/
-- @tie Rsactor.Ties.feature_sites_shape
-- @tie Rsactor.Ties.ask_protocol_shape
-- @tie Rsactor.Ties.lifecycle_arms

end Rsactor.Props.C12
