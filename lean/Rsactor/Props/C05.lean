/-
  C05 — ActorResult truthfully reports how the actor ended.
-/
import Rsactor.Inv.Result
import Rsactor.Ties.lifecycle_arms

namespace Rsactor.Props.C05
open Rsactor Rsactor.Model Rsactor.Monitor Rsactor.Extracted

/-- `result_truthful`: in every run, once the JoinHandle resolves, its output is exactly the one the
    hook events dictate — Completed vs Failed, the phase, killed, the failing hook's error (the on_run
    error when both fail), the actor instance carrying every hook that ran (absent only for a start-up
    failure), and a panic in any hook surfaces as a panic JoinError. -/
theorem result_truthful (cap : Nat) (sc : Script) (ls : List Label) (s : Sys)
    (hr : run? (init cap sc) ls = some s) : C05.ok ⟨cap, s.ev⟩ = true := by
  obtain ⟨h1, h2, _⟩ := run_inv ResInv_step (init cap sc) s ls (ResInv_init cap sc) hr
  unfold C05.ok
  by_cases he : s.pc = .ended
  · obtain ⟨o, _, hj, hexp, _⟩ := h2 he
    simp [hj, hexp]
  · obtain ⟨a, _⟩ := h1 he
    simp [a, summOf]

/-- the value stored as the task's result is the one announced by the `joined` event -/
theorem result_is_joined (cap : Nat) (sc : Script) (ls : List Label) (s : Sys)
    (hr : run? (init cap sc) ls = some s) (he : s.pc = .ended) :
    ∃ o, s.result = some o ∧ (C05.summ s.ev).joined = [o] := by
  obtain ⟨_, h2, _⟩ := run_inv ResInv_step (init cap sc) s ls (ResInv_init cap sc) hr
  obtain ⟨o, a, b, _⟩ := h2 he
  exact ⟨o, a, b⟩

/-- `actor_absent_iff`: the actor instance is absent exactly for a start-up failure. -/
theorem actor_absent_iff (m : C05.Summ) (e : ErrSrc) (p : FailurePhase) (k : Bool)
    (h : C05.expectedOf m = some (some (.Failed none e p k))) : m.startErr = true ∧ p = .OnStart := by
  unfold C05.expectedOf at h
  cases hp : m.panic <;> rw [hp] at h <;> simp at h
  cases hs : m.startErr <;> rw [hs] at h <;> simp at h
  · cases hk : m.killed <;> cases hso : m.stopOut <;> rw [hk, hso] at h <;> simp at h
    cases hre : m.runErr <;> rename_i so <;> cases so <;> rw [hre] at h <;> simp at h
  · exact ⟨rfl, h.2.1.symm⟩

/-! ### accessor laws, about the functions translated from `src/actor_result.rs` on every run -/
section accessors
variable {α ε : Type}

theorem is_failed_not_completed (r : ActorResult α ε) : r.is_failed = !r.is_completed := rfl

theorem was_killed_field (r : ActorResult α ε) :
    r.was_killed = (match r with | .Completed _ k => k | .Failed _ _ _ k => k) := by
  cases r <;> rename_i k <;> cases k <;> rfl

theorem stopped_normally_iff (r : ActorResult α ε) :
    r.stopped_normally = (r.is_completed && !r.was_killed) := by
  cases r <;> rename_i k <;> cases k <;> rfl

theorem phase_queries (r : ActorResult α ε) :
    (r.is_startup_failed = (match r with | .Failed _ _ .OnStart _ => true | _ => false)) ∧
    (r.is_runtime_failed = (match r with | .Failed _ _ .OnRun _ => true | .Failed _ _ .OnRunThenOnStop _ => true | _ => false)) ∧
    (r.is_cleanup_failed = (match r with | .Failed _ _ .OnRunThenOnStop _ => true | _ => false)) ∧
    (r.is_stop_failed = (match r with | .Failed _ _ .OnStop _ => true | _ => false)) := by
  cases r
  · exact ⟨rfl, rfl, rfl, rfl⟩
  · rename_i p _; cases p <;> exact ⟨rfl, rfl, rfl, rfl⟩

/-- at most one failure-phase query is true, and none for a completed actor;
    is_cleanup_failed implies is_runtime_failed -/
theorem phase_queries_exclusive (r : ActorResult α ε) :
    (r.is_completed = true → r.is_startup_failed = false ∧ r.is_runtime_failed = false ∧ r.is_stop_failed = false) ∧
    (r.is_cleanup_failed = true → r.is_runtime_failed = true) ∧
    ¬ (r.is_startup_failed = true ∧ r.is_runtime_failed = true) ∧
    ¬ (r.is_startup_failed = true ∧ r.is_stop_failed = true) ∧
    ¬ (r.is_runtime_failed = true ∧ r.is_stop_failed = true) := by
  cases r
  · simp [ActorResult.is_completed, ActorResult.is_startup_failed, ActorResult.is_runtime_failed,
      ActorResult.is_stop_failed, ActorResult.is_cleanup_failed]
  · rename_i p _
    cases p <;> simp [ActorResult.is_completed, ActorResult.is_startup_failed, ActorResult.is_runtime_failed,
      ActorResult.is_stop_failed, ActorResult.is_cleanup_failed]

theorem actor_accessors (r : ActorResult α ε) :
    r.actor = r.into_actor ∧ r.has_actor = r.actor.isSome ∧
    r.actor = (match r with | .Completed a _ => some a | .Failed a _ _ _ => a) := by
  cases r <;> exact ⟨rfl, rfl, rfl⟩

theorem error_accessors (r : ActorResult α ε) :
    r.error = r.into_error ∧
    r.error = (match r with | .Completed _ _ => none | .Failed _ e _ _ => some e) ∧
    (r.error.isSome = r.is_failed) := by
  cases r <;> exact ⟨rfl, rfl, rfl⟩

theorem conversions (r : ActorResult α ε) :
    r.into_tuple = (r.into_actor, r.into_error) ∧
    r.to_result = (match r with | .Completed a _ => .ok a | .Failed _ e _ _ => .error e) := by
  cases r <;> exact ⟨rfl, rfl⟩
end accessors

-- non-vacuity: on_run error followed by an on_stop error is reported as OnRunThenOnStop with the on_run error
example : ∃ s, run? (init 1 { runOuts := [.err], stopOut := .err })
    [.gate, .startDone, .pollTerm, .pollMail, .gate, .pollRun, .gate, .stopDone] = some s ∧
    s.result = some (some (.Failed (some [.start, .run 0, .stop false]) .run .OnRunThenOnStop false)) := by
  refine ⟨_, rfl, ?_⟩; decide


/-! ### ties to the source: shape lemmas about the tables regenerated from /repo on every run -/
-- @tie Rsactor.Ties.lifecycle_arms

end Rsactor.Props.C05
