/-
  C19 — Macro-generated code means what the hand-written code would.
-/
import Rsactor.Macro
import Rsactor.Inv.TellRes
import Rsactor.Ties.macro_options_shape
import Rsactor.Ties.macro_templates_shape
import Rsactor.Ties.handle_message_shape

namespace Rsactor.Props.C19
open Rsactor Rsactor.Macro Rsactor.Extracted

/-- the documented table, stated independently of the macro's code -/
def lastIsResult : RetTy → Bool
  | .path segs => segs.getLast? == some Ident.result
  | .other => false

def spec (a : AttrForm) (ret : Option RetTy) (actualResult : Bool) : Outcome :=
  match a with
  | .nameValue => .compileError                                    -- `#[handler = ..]`
  | .path => -- plain `#[handler]`: a Result-spelled return type logs Err values, anything else logs nothing
    match ret with
    | none => .impl false
    | some t => if lastIsResult t then (if actualResult then .impl true else .compileError) else .impl false
  | .list names =>
    if names.contains .unknown then .compileError                  -- unknown option
    else if names.contains .result && names.contains .noLog then .compileError   -- mutually exclusive
    else if names.contains .noLog then .impl false                 -- no_log: never logs
    else if names.contains .result then                            -- result: needs a return type that is a Result
      (match ret with
       | none => .compileError
       | some _ => if actualResult then .impl true else .compileError)
    else -- `#[handler()]`: like the plain form
      (match ret with
       | none => .impl false
       | some t => if lastIsResult t then (if actualResult then .impl true else .compileError) else .impl false)

theorem is_result_type_spec (t : RetTy) : is_result_type t = lastIsResult t := by
  cases t with
  | other => rfl
  | path segs =>
    simp only [is_result_type, lastIsResult]
    cases segs.getLast? with
    | none => rfl
    | some s => cases s <;> rfl

/-- what `visit` computes: the flags are the presence of the two names, unless an unknown name occurs -/
theorem visit_spec (names : List OptName) (o : Opts) :
    visit o names =
      if names.contains .unknown then none
      else some { force_result := o.force_result || names.contains .result, no_log := o.no_log || names.contains .noLog } := by
  induction names generalizing o with
  | nil => simp [visit]
  | cons n rest ih =>
    cases n <;> simp [visit, ih, List.contains_cons] <;> (try split) <;> simp_all <;>
      cases o.force_result <;> cases o.no_log <;> simp

/-- `decision_table`: for every attribute form, every declared return type and both answers to "is it
    really a Result", the macro decides as the documented table says -/
theorem decision_table (a : AttrForm) (ret : Option RetTy) (actualResult : Bool) :
    decision a ret actualResult = spec a ret actualResult := by
  cases a with
  | nameValue => rfl
  | path =>
    cases ret with
    | none => rfl
    | some t =>
      simp only [decision, parseOpts, should_generate, spec, is_result_type_spec, Option.map_some, Option.getD_some]
      cases lastIsResult t <;> cases actualResult <;> rfl
  | list names =>
    simp only [decision, parseOpts, spec, visit_spec]
    by_cases hu : OptName.unknown ∈ names
    · simp [hu]
    · by_cases hr : OptName.result ∈ names <;> by_cases hn : OptName.noLog ∈ names <;>
        cases ret <;> simp [hu, hr, hn, should_generate, is_result_type_spec] <;>
        (try (rename_i t; cases lastIsResult t <;> cases actualResult <;> rfl)) <;>
        (try (cases actualResult <;> rfl))

/-- corollaries in the property's words -/
theorem no_log_never_logs (names : List OptName) (ret : Option RetTy) (ar : Bool)
    (hn : names.contains .noLog = true) (hr : names.contains .result = false) (hu : names.contains .unknown = false) :
    decision (.list names) ret ar = .impl false := by
  have hn' : OptName.noLog ∈ names := by simpa using hn
  have hr' : OptName.result ∉ names := by simpa using hr
  have hu' : OptName.unknown ∉ names := by simpa using hu
  rw [decision_table]; simp [spec, hn', hr', hu']

theorem result_and_no_log_is_error (names : List OptName) (ret : Option RetTy) (ar : Bool)
    (hn : names.contains .noLog = true) (hr : names.contains .result = true) :
    decision (.list names) ret ar = .compileError := by
  have hn' : OptName.noLog ∈ names := by simpa using hn
  have hr' : OptName.result ∈ names := by simpa using hr
  rw [decision_table]; simp only [spec]; split <;> simp [hn', hr']

theorem non_result_logs_nothing (t : RetTy) (ar : Bool) (h : lastIsResult t = false) :
    decision .path (some t) ar = .impl false := by
  rw [decision_table]; simp [spec, h]

theorem result_spelling_logs (t : RetTy) (h : lastIsResult t = true) :
    decision .path (some t) true = .impl true := by
  rw [decision_table]; simp [spec, h]

/-! ### the runtime half: on_tell_result once after a tell, never after an ask -/
section runtime
open Rsactor.Model Rsactor.Monitor

/-- `tell_result_adjacent`: in every run, a handler that returns is followed at once by exactly one of
    `tellResult m` (on_tell_result was invoked) / `replySent m`, and neither event occurs anywhere else:
    on_tell_result is never invoked twice, never without the handler having returned, never for a handler
    that panicked. -/
theorem tell_result_adjacent (cap : Nat) (sc : Script) (ls : List Label) (s : Sys)
    (hr : run? (init cap sc) ls = some s) : C19.accepts s.ev = true := by
  have h := run_inv TRInv_step (init cap sc) s ls (TRInv_init cap sc) hr
  unfold TRInv trFold at h
  unfold C19.accepts
  rw [h]; rfl

/-- `result_follows_kind`: which of the two it is is decided by the kind of the envelope being handled:
    a tell gets on_tell_result and no reply, an ask gets its reply and no on_tell_result. -/
theorem result_follows_kind (s : Sys) (mid : Nat) (k : Kind) (hpc : s.pc = .inHandler mid k)
    (hg : 0 < s.gatePermits) (hok : (s.spec mid).hout = .ok) :
    ∃ s', Model.step? s .handlerDone = some s' ∧
      s'.ev = s.ev ++ [.handlerEnd mid .ok, match k with | .tell => .tellResult mid | .ask => .replySent mid] := by
  cases k <;> simp [Model.step?, hpc, hg, hok]

end runtime

-- non-vacuity: `std::fmt::Result` (bare, no type arguments) is a Result return; an alias is not
example : decision .path (some (.path [.other, .other, .result])) true = .impl true ∧
          decision .path (some (.path [.other])) true = .impl false ∧
          decision (.list [.result]) (some (.path [.other])) true = .impl true ∧
          decision (.list [.result]) none true = .compileError ∧
          decision (.list [.result, .noLog]) (some .other) true = .compileError := by decide

/-! ### ties to the source -/
-- @tie Rsactor.Ties.macro_options_shape
-- @tie Rsactor.Ties.macro_templates_shape
-- @tie Rsactor.Ties.handle_message_shape

end Rsactor.Props.C19
