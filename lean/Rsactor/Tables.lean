/- Evaluation of the translated pure functions for the differential test (`tables` harness). -/
import Rsactor.Extracted
namespace Rsactor.Tables
open Rsactor Rsactor.Extracted

def showOpt : Option Nat → String
  | some x => toString x
  | none => "none"

def parsePhase : String → Option FailurePhase
  | "OnStart" => some .OnStart | "OnRun" => some .OnRun | "OnStop" => some .OnStop
  | "OnRunThenOnStop" => some .OnRunThenOnStop | _ => none

def parseBool : String → Option Bool | "true" => some true | "false" => some false | _ => none
def parseOptNat (s : String) : Option (Option Nat) := if s == "none" then some none else s.toNat?.map some

def parseErrorKind : String → Option ErrorKind
  | "Send" => some .Send | "Receive" => some .Receive | "Timeout" => some .Timeout
  | "Downcast" => some .Downcast | "Runtime" => some .Runtime | "MailboxCapacity" => some .MailboxCapacity
  | "Join" => some .Join | _ => none

def arLine (r : ActorResult Nat Nat) : String :=
  s!"is_completed={r.is_completed} was_killed={r.was_killed} stopped_normally={r.stopped_normally} " ++
  s!"is_startup_failed={r.is_startup_failed} is_runtime_failed={r.is_runtime_failed} " ++
  s!"is_cleanup_failed={r.is_cleanup_failed} is_stop_failed={r.is_stop_failed} is_failed={r.is_failed} " ++
  s!"has_actor={r.has_actor} actor={showOpt r.actor} error={showOpt r.error} " ++
  s!"into_actor={showOpt r.into_actor} into_error={showOpt r.into_error} " ++
  s!"tuple=({showOpt r.into_tuple.1},{showOpt r.into_tuple.2}) " ++
  (match r.to_result with | .ok a => s!"to_result=ok:{a}" | .error e => s!"to_result=err:{e}")

def parseEdges (s : String) : Option Graph :=
  if s == "-" then some [] else
  (s.splitOn ",").mapM fun p =>
    match p.splitOn ":" with
    | [k, v] => do some ((← k.toNat?), (← v.toNat?))
    | _ => none

def parseNats (s : String) : Option (List Nat) :=
  if s == "-" then some [] else (s.splitOn ",").mapM (·.toNat?)

def cfgLine (ns : List Nat) : String :=
  let (cfg, outs) := ns.foldl (fun (acc : Option Nat × List String) n =>
      let r := set_default_mailbox_capacity acc.1 n
      (r.2, acc.2 ++ [match r.1 with
        | .ok _ => "ok"
        | .error e => (match e with
          | .MailboxCapacity => "MailboxCapacity" | _ => "other")])) (none, [])
  s!"{",".intercalate outs};cap={mailbox_chan_cap (spawn_capacity cfg)}"

def metricsLine (ds : List Nat) : String :=
  let m := ds.foldl Metrics.record_message ({} : Metrics)
  let s := m.snapshot_
  s!"{m.message_count_} {m.avg_processing_time_} {m.max_processing_time_} {m.error_count_} | " ++
  s!"{s.message_count} {s.avg_processing_time} {s.max_processing_time} {s.error_count}"

def run (args : List String) : IO Unit :=
  let out : Option String :=
    match args with
    | ["ar", "C", a, k] => do
      let r : ActorResult Nat Nat := .Completed (← a.toNat?) (← parseBool k)
      some (arLine r)
    | ["ar", "F", a, e, p, k] => do
      let r : ActorResult Nat Nat := .Failed (← parseOptNat a) (← e.toNat?) (← parsePhase p) (← parseBool k)
      some (arLine r)
    | ["retry", v] => (parseErrorKind v).map fun e => toString e.is_retryable
    | ["hp", a, b, g] => do some (toString (has_path (← parseEdges g) (← a.toNat?) (← b.toNat?)))
    | ["fcp", a, b, g] => do
      let p := format_cycle_path (← parseEdges g) (← a.toNat?) (← b.toNat?)
      some (" ".intercalate (p.map toString))
    | ["metrics", ds] => (parseNats ds).map metricsLine
    | ["cfg", ns] => (parseNats ns).map cfgLine
    | ["spawnguard", n] => n.toNat?.map fun n => toString (spawn_guard n)
    | _ => none
  IO.println (out.getD "! bad-tables-request")

end Rsactor.Tables
