/- Evaluation of the translated pure functions for the differential test (`tables` harness). -/
import Rsactor.Extracted
namespace Rsactor.Tables
open Rsactor Rsactor.Extracted

def run (_args : List String) : IO Unit := IO.println "! tables-not-implemented"

end Rsactor.Tables
