/-
  What `#[message_handlers]` / `#[handler(..)]` decide for one handler method (C19).
  `is_result_type` and `should_generate` are the definitions translated from rsactor-derive/src/lib.rs
  on every run; option parsing mirrors `parse_handler_options` (shape lemma `macro_options_shape`).
-/
import Rsactor.Extracted

namespace Rsactor.Macro
open Rsactor Rsactor.Extracted

/-- one argument inside `#[handler(..)]` -/
inductive OptName | result | noLog | unknown
  deriving DecidableEq, Repr

/-- the syntactic forms of the attribute: `#[handler]`, `#[handler(a, b, ..)]`, `#[handler = ..]` -/
inductive AttrForm | path | list (names : List OptName) | nameValue
  deriving DecidableEq, Repr

structure Opts where
  force_result : Bool := false
  no_log : Bool := false
  deriving DecidableEq, Repr

/-- `parse_nested_meta` visits the arguments in order; an unknown one is an error -/
def visit (o : Opts) : List OptName → Option Opts
  | [] => some o
  | .result :: rest => visit { o with force_result := true } rest
  | .noLog :: rest => visit { o with no_log := true } rest
  | .unknown :: _ => none

def parseOpts : AttrForm → Option Opts
  | .path => some {}
  | .nameValue => none
  | .list names =>
    match visit {} names with
    | none => none
    | some o => if o.force_result && o.no_log then none else some o

inductive Outcome
  | compileError
  /-- a `Message` impl whose `Reply` is the declared return type and whose `handle` calls the method;
      `logsErr`: an `on_tell_result` override that logs `Err` values is generated -/
  | impl (logsErr : Bool)
  deriving DecidableEq, Repr

/-- `actualResult`: the declared return type really is a `Result<_, E: Display>` (the generated
    `if let Err(ref e) = result` type-checks only then) -/
def decision (a : AttrForm) (ret : Option RetTy) (actualResult : Bool) : Outcome :=
  match parseOpts a with
  | none => .compileError
  | some o =>
    match should_generate o.no_log o.force_result ret with
    | .error _ => .compileError
    | .ok true => if actualResult then .impl true else .compileError
    | .ok false => .impl false

end Rsactor.Macro
