/- Progress: no permit lies idle while a sender waits, and in a quiescent state with an idle (or ended) actor
   every operation has returned. -/
import Rsactor.Inv.Cap
import Rsactor.Inv.End
import Rsactor.Inv.Ids
import Rsactor.Exec

namespace Rsactor.Model

/-- some sender is still queued for a permit -/
def hasUngranted (ws : List Waiter) : Prop := ∃ w ∈ ws, w.granted = false

theorem all_granted_iff (ws : List Waiter) : ws.all (·.granted) = true ↔ ¬ hasUngranted ws := by
  simp only [hasUngranted, List.all_eq_true]
  constructor
  · intro h ⟨w, hw, hg⟩; rw [h w hw] at hg; cases hg
  · intro h w hw
    cases hg : w.granted
    · exact absurd ⟨w, hw, hg⟩ h
    · rfl

theorem gc_grantFirst_eq (ws : List Waiter) (h : hasUngranted ws) :
    grantedCount (grantFirst ws) = grantedCount ws + 1 := by
  induction ws with
  | nil => obtain ⟨w, hw, _⟩ := h; cases hw
  | cons x xs ih =>
    simp only [grantFirst]
    by_cases hx : x.granted = true
    · have hxs : hasUngranted xs := by
        obtain ⟨w, hw, hg⟩ := h
        cases hw with
        | head => rw [hx] at hg; cases hg
        | tail _ hm => exact ⟨w, hm, hg⟩
      have := ih hxs
      simp [hx, grantedCount, List.filter_cons] at *
      omega
    · simp [hx, grantedCount, List.filter_cons]

theorem grantFirst_all (ws : List Waiter) (h : ¬ hasUngranted ws) : grantFirst ws = ws := by
  induction ws with
  | nil => rfl
  | cons x xs ih =>
    have hx : x.granted = true := by
      cases hg : x.granted
      · exact absurd ⟨x, List.mem_cons_self .., hg⟩ h
      · rfl
    have hxs : ¬ hasUngranted xs := fun ⟨w, hw, hg⟩ => h ⟨w, List.mem_cons_of_mem _ hw, hg⟩
    simp [grantFirst, hx, ih hxs]

theorem hasUngranted_of_grantFirst (ws : List Waiter) (h : hasUngranted (grantFirst ws)) : hasUngranted ws := by
  induction ws with
  | nil => exact h
  | cons x xs ih =>
    simp only [grantFirst] at h
    by_cases hx : x.granted = true
    · simp only [hx, if_true] at h
      obtain ⟨w, hw, hg⟩ := h
      cases hw with
      | head => rw [hx] at hg; cases hg
      | tail _ hm =>
        obtain ⟨w', hw', hg'⟩ := ih ⟨w, hm, hg⟩
        exact ⟨w', List.mem_cons_of_mem _ hw', hg'⟩
    · exact ⟨x, List.mem_cons_self .., by simpa using hx⟩

theorem hasUngranted_of_erase (ws : List Waiter) (w : Waiter) (h : hasUngranted (ws.erase w)) : hasUngranted ws := by
  obtain ⟨x, hx, hg⟩ := h
  exact ⟨x, List.mem_of_mem_erase hx, hg⟩

theorem gc_erase_ungranted (ws : List Waiter) (w : Waiter) (hg : w.granted = false) :
    grantedCount (ws.erase w) = grantedCount ws := by
  induction ws with
  | nil => rfl
  | cons x xs ih =>
    by_cases hx : x = w
    · subst hx; simp [grantedCount, List.filter_cons, hg]
    · have hne : (x == w) = false := by simp [hx]
      rw [List.erase_cons_tail (by simp [hne])]
      by_cases hxg : x.granted = true <;> simp [grantedCount, List.filter_cons, hxg] at * <;> omega

theorem hasUngranted_map_acq (ws : List Waiter) (w : Waiter)
    (h : hasUngranted (ws.map (fun x => if x = w then { x with acq := true } else x))) : hasUngranted ws := by
  obtain ⟨y, hy, hg⟩ := h
  simp only [List.mem_map] at hy
  obtain ⟨x, hx, rfl⟩ := hy
  by_cases hxw : x = w
  · simp only [hxw, if_true] at hg; exact ⟨w, hxw ▸ hx, hg⟩
  · simp only [hxw, if_false] at hg; exact ⟨x, hx, hg⟩

theorem hasUngranted_snoc (ws : List Waiter) (w : Waiter) (h : hasUngranted (ws ++ [w])) :
    hasUngranted ws ∨ w.granted = false := by
  obtain ⟨x, hx, hg⟩ := h
  simp only [List.mem_append, List.mem_singleton] at hx
  rcases hx with hx | hx
  · exact Or.inl ⟨x, hx, hg⟩
  · exact Or.inr (hx ▸ hg)

/-- "a send never waits while a slot is free": as long as the mailbox is open, a sender is queued without a permit only
    when every slot is taken or promised -/
def NoIdleSlot (s : Sys) : Prop :=
  s.rxOpen = true → hasUngranted s.waiters → s.cap ≤ s.mbox.length + grantedCount s.waiters

theorem NoIdleSlot_of_eq {s s' : Sys} (h : NoIdleSlot s) (hr : s'.rxOpen = s.rxOpen) (hc : s'.cap = s.cap)
    (hm : s'.mbox = s.mbox) (hw : s'.waiters = s.waiters) : NoIdleSlot s' := by
  unfold NoIdleSlot at *; rw [hr, hc, hm, hw]; exact h

theorem NoIdleSlot_closed {s' : Sys} (hr : s'.rxOpen = false) : NoIdleSlot s' := by
  intro h; rw [hr] at h; cases h

theorem failSend_rxOpen (s : Sys) (oid : Nat) (it : Item) : (s.failSend oid it).rxOpen = s.rxOpen := by
  cases it <;> simp [Sys.failSend]
theorem afterPush_rxOpen (s : Sys) (it : Item) : (s.afterPush it).rxOpen = s.rxOpen := by
  cases it with
  | env mid k => cases k <;> simp [Sys.afterPush]
  | stop o => simp [Sys.afterPush]
theorem afterStrand_rxOpen (s : Sys) (it : Item) : (s.afterStrand it).rxOpen = s.rxOpen := by
  cases it with
  | env mid k => cases k <;> simp [Sys.afterStrand]
  | stop o => simp [Sys.afterStrand]

theorem NoIdleSlot_failSend (s : Sys) (oid : Nat) (it : Item) (h : NoIdleSlot s) : NoIdleSlot (s.failSend oid it) :=
  NoIdleSlot_of_eq h (failSend_rxOpen s oid it) (failSend_mbox s oid it).2.2 (failSend_mbox s oid it).1 (failSend_mbox s oid it).2.1

/-- a sender that holds its permit pushes: the slot it had reserved is now occupied -/
theorem NoIdleSlot_push (s : Sys) (w : Waiter) (h : NoIdleSlot s) (hw : w ∈ s.waiters) (hg : w.granted = true) :
    NoIdleSlot ({ s with waiters := s.waiters.erase w }.afterPush w.item) := by
  intro hr hu
  rw [afterPush_rxOpen] at hr
  have e := afterPush_mbox { s with waiters := s.waiters.erase w } w.item
  rw [e.2.1] at hu
  rw [e.1, e.2.1, e.2.2]
  simp only at hr hu ⊢
  have h0 := h hr (hasUngranted_of_erase _ _ hu)
  have := gc_erase_granted s.waiters w hw hg
  simp only [List.length_append, List.length_singleton]
  omega

/-- a sender still queued for a permit is withdrawn (timeout): nothing it held is freed -/
theorem NoIdleSlot_eraseUngranted (s : Sys) (w : Waiter) (h : NoIdleSlot s) (hg : w.granted = false) :
    NoIdleSlot { s with waiters := s.waiters.erase w } := by
  intro hr hu
  simp only at hr hu ⊢
  have h0 := h hr (hasUngranted_of_erase _ _ hu)
  rw [gc_erase_ungranted s.waiters w hg]
  exact h0

/-- the loop takes an item out: the freed slot goes to the first queued sender, if there is one -/
theorem NoIdleSlot_take (s : Sys) (x : Item) (rest : List Item) (h : NoIdleSlot s) (hm : s.mbox = x :: rest) :
    NoIdleSlot { s with mbox := rest, waiters := grantFirst s.waiters } := by
  intro hr hu
  simp only at hr hu ⊢
  have hu0 := hasUngranted_of_grantFirst _ hu
  have h0 := h hr hu0
  rw [gc_grantFirst_eq _ hu0]
  rw [hm] at h0
  simp only [List.length_cons] at h0
  omega

theorem NoIdleSlot_acq (s : Sys) (w : Waiter) (h : NoIdleSlot s) :
    NoIdleSlot { s with waiters := s.waiters.map (fun x => if x = w then { x with acq := true } else x) } := by
  intro hr hu
  simp only at hr hu ⊢
  rw [gc_map_acq]
  exact h hr (hasUngranted_map_acq _ _ hu)

/-- a new sender: it holds a permit at once iff a slot is free and nobody is queued ahead of it -/
theorem NoIdleSlot_addGranted (s : Sys) (w : Waiter) (h : NoIdleSlot s) (hg : w.granted = true)
    (hall : s.waiters.all (·.granted) = true) : NoIdleSlot { s with waiters := s.waiters ++ [w] } := by
  intro _ hu
  simp only at hu
  rcases hasUngranted_snoc _ _ hu with hu | hu
  · exact absurd hu ((all_granted_iff _).mp hall)
  · rw [hg] at hu; cases hu

theorem NoIdleSlot_addUngranted (s : Sys) (w : Waiter) (h : NoIdleSlot s) (hr0 : s.rxOpen = true) (hg : w.granted = false)
    (hfull : ¬ (s.mbox.length + grantedCount s.waiters < s.cap ∧ s.waiters.all (·.granted) = true)) :
    NoIdleSlot { s with waiters := s.waiters ++ [w] } := by
  intro _ _
  simp only
  rw [gc_snoc]
  simp only [hg]
  by_cases hall : s.waiters.all (·.granted) = true
  · have : ¬ (s.mbox.length + grantedCount s.waiters < s.cap) := fun hlt => hfull ⟨hlt, hall⟩
    simp; omega
  · have hu : hasUngranted s.waiters :=
      Classical.byContradiction fun hn => hall ((all_granted_iff _).mpr hn)
    have := h hr0 hu
    simp; omega

theorem NoIdleSlot_init (cap : Nat) (sc : Script) : NoIdleSlot (init cap sc) := by
  intro _ hu; obtain ⟨w, hw, _⟩ := hu; simp [init] at hw

theorem NoIdleSlot_step (s s' : Sys) (l : Label) (h : NoIdleSlot s) (hc : CapInv s) (hs : step? s l = some s') :
    NoIdleSlot s' := by
  cases l with
  | issue hd op =>
    simp only [step?, Sys.issue] at hs
    split at hs
    · split at hs
      · cases hs
        split <;> exact NoIdleSlot_of_eq h rfl rfl rfl rfl
      · split at hs
        · cases hs; exact NoIdleSlot_failSend _ _ _ (NoIdleSlot_of_eq h rfl rfl rfl rfl)
        · rename_i hopen
          split at hs
          · rename_i hroom
            cases hs
            exact NoIdleSlot_of_eq (NoIdleSlot_addGranted s _ h rfl hroom.2) rfl rfl rfl rfl
          · rename_i hfull
            cases hs
            refine NoIdleSlot_of_eq (NoIdleSlot_addUngranted s _ h ?_ rfl hfull) rfl rfl rfl rfl
            cases hr : s.rxOpen
            · exact absurd (by simp [hr]) hopen
            · rfl
    · cases hs
  | grantWake oid =>
    simp only [step?] at hs
    split at hs
    · rename_i w hf
      split at hs
      · rename_i hcl
        cases hs
        refine NoIdleSlot_closed ?_
        rw [failSend_rxOpen]
        cases hr : s.rxOpen
        · rfl
        · exact absurd hr hcl
      · split at hs
        · cases hs; exact NoIdleSlot_acq s w h
        · cases hs
    · cases hs
  | push oid =>
    simp only [step?] at hs
    split at hs
    · rename_i w hf
      have hw : w ∈ s.waiters := List.mem_of_find?_eq_some hf
      have hq := List.find?_some hf
      have hacq : w.acq = true := by simp at hq; exact hq.2
      have hg : w.granted = true := hc.2 w hw hacq
      split at hs
      · cases hs; exact NoIdleSlot_push s w h hw hg
      · rename_i hcl
        cases hs
        refine NoIdleSlot_closed ?_
        rw [afterStrand_rxOpen]
        cases hr : s.rxOpen
        · rfl
        · exact absurd hr hcl
    · cases hs
  | timeoutFire oid =>
    simp only [step?] at hs
    split at hs
    · split at hs
      · cases hs
      · split at hs
        · split at hs
          · rename_i w hf
            split at hs
            · cases hs
            · rename_i hguard
              cases hs
              have hg : w.granted = false := by
                cases hw : w.granted
                · rfl
                · exact absurd (Or.inl hw) hguard
              exact NoIdleSlot_of_eq (NoIdleSlot_eraseUngranted s w h hg) rfl rfl rfl rfl
          · cases hs
        · split at hs
          · cases hs
          · cases hs; exact NoIdleSlot_of_eq h rfl rfl rfl rfl
        · cases hs
    · cases hs
  | pollMail =>
    simp only [step?] at hs
    split at hs
    · split at hs
      · (repeat' split at hs) <;> cases hs <;> exact NoIdleSlot_of_eq h rfl rfl rfl rfl
      · rename_i mid k rest hm
        cases hs
        exact NoIdleSlot_of_eq (NoIdleSlot_take s _ rest h hm) rfl rfl rfl rfl
      · rename_i o rest hm
        split at hs <;> cases hs <;>
          exact NoIdleSlot_of_eq (NoIdleSlot_take s _ rest h hm) rfl rfl rfl rfl
    · cases hs
  | _ =>
    simp only [step?, Sys.runStep] at hs
    (repeat' split at hs) <;> (try cases hs)
    all_goals first
      | exact h
      | exact NoIdleSlot_of_eq h rfl rfl rfl rfl
      | exact NoIdleSlot_closed rfl

/-! ### bookkeeping needed for the progress theorem -/

/-- every queued sender's operation is in state `waiting`; an operation awaiting a reply has a reply slot; items are
    stranded only in a closed channel -/
def ProgInv (s : Sys) : Prop :=
  (∀ p ∈ wkeys s.waiters, s.client p.1 = .waiting) ∧
  (∀ oid, s.client oid = .awaiting → s.reply oid ≠ .none) ∧
  (s.stranded ≠ [] → s.rxOpen = false)

theorem ProgInv_of_eq {s s' : Sys} (h : ProgInv s) (hw : s'.waiters = s.waiters) (hc : s'.client = s.client)
    (hr : s'.reply = s.reply) (hs : s'.stranded = s.stranded) (hx : s'.rxOpen = s.rxOpen) : ProgInv s' := by
  unfold ProgInv at *; rw [hw, hc, hr, hs, hx]; exact h

/-- an operation that has no queued sender returns -/
theorem ProgInv_complete (s : Sys) (oid : Nat) (r : Res) (why : Option Reason) (h : ProgInv s)
    (hnw : ∀ p ∈ wkeys s.waiters, p.1 ≠ oid) : ProgInv (s.complete oid r why) := by
  obtain ⟨h1, h2, h3⟩ := h
  refine ⟨?_, ?_, h3⟩
  · intro p hp
    simp only [complete_waiters] at hp
    simp only [Sys.complete, setF, hnw p hp, if_false]
    exact h1 p hp
  · intro o ho
    simp only [Sys.complete, setF] at ho ⊢
    by_cases hoo : o = oid
    · simp [hoo] at ho
    · simp only [hoo, if_false] at ho; exact h2 o ho

theorem ProgInv_finish (s : Sys) (o : Outcome) (evs : List Ev) (h : ProgInv s) : ProgInv (s.finish o evs) := by
  obtain ⟨h1, h2, _⟩ := h
  refine ⟨h1, ?_, fun _ => rfl⟩
  intro oid ho
  simp only [Sys.finish, dropReplies] at ho ⊢
  split
  · nofun
  · exact h2 oid ho

theorem ProgInv_erase (s : Sys) (w : Waiter) (h : ProgInv s) : ProgInv { s with waiters := s.waiters.erase w } :=
  ⟨fun p hp => h.1 p ((wkeys_erase_sublist s.waiters w).subset hp), h.2.1, h.2.2⟩

theorem ProgInv_failSend (s : Sys) (oid : Nat) (it : Item) (h : ProgInv s)
    (hnw : ∀ p ∈ wkeys s.waiters, p.1 ≠ oid) : ProgInv (s.failSend oid it) := by
  cases it <;> exact ProgInv_complete _ _ _ _ h hnw

theorem ProgInv_afterPush (s : Sys) (w : Waiter) (h : ProgInv s) (hi : IdsInv s) (hw : w ∈ s.waiters) :
    ProgInv ({ s with waiters := s.waiters.erase w }.afterPush w.item) := by
  have hk : (w.oid, w.item) ∈ wkeys s.waiters := by
    simp only [wkeys, List.mem_map]; exact ⟨w, hw, rfl⟩
  have hoid : w.item.oid = w.oid := (hi.wOk _ hk).1
  have hne : ∀ p ∈ wkeys (s.waiters.erase w), p.1 ≠ w.oid := fun p hp => erase_key_ne hi.wNodup hw hp
  have hb := ProgInv_erase s w h
  have hb' : ProgInv { s with waiters := s.waiters.erase w, mbox := s.mbox ++ [w.item], accepted := s.accepted ++ [w.item],
                              ev := s.ev ++ [.accepted w.item.oid s.accepted.length] } :=
    ProgInv_of_eq hb rfl rfl rfl rfl rfl
  cases hit : w.item with
  | env mid k =>
    rw [hit] at hoid hb'
    simp only [Item.oid] at hoid hb'
    cases k
    · simp only [Sys.afterPush]
      exact ProgInv_complete _ _ _ _ hb' (fun p hp => hoid ▸ hne p hp)
    · simp only [Sys.afterPush]
      obtain ⟨b1, b2, b3⟩ := hb'
      refine ⟨?_, ?_, b3⟩
      · intro p hp
        have := hne p hp
        simp only [setF, hoid ▸ this, if_false]
        exact b1 p hp
      · intro o ho
        simp only [setF] at ho ⊢
        by_cases hoo : o = mid
        · simp [hoo]
        · simp only [hoo, if_false] at ho ⊢; exact b2 o ho
  | stop o =>
    rw [hit] at hoid hb'
    simp only [Item.oid] at hoid hb'
    simp only [Sys.afterPush]
    exact ProgInv_complete _ _ _ _ hb' (fun p hp => hoid ▸ hne p hp)

theorem ProgInv_afterStrand (s : Sys) (w : Waiter) (h : ProgInv s) (hi : IdsInv s) (hw : w ∈ s.waiters)
    (hcl : s.rxOpen = false) : ProgInv ({ s with waiters := s.waiters.erase w }.afterStrand w.item) := by
  have hk : (w.oid, w.item) ∈ wkeys s.waiters := by
    simp only [wkeys, List.mem_map]; exact ⟨w, hw, rfl⟩
  have hoid : w.item.oid = w.oid := (hi.wOk _ hk).1
  have hne : ∀ p ∈ wkeys (s.waiters.erase w), p.1 ≠ w.oid := fun p hp => erase_key_ne hi.wNodup hw hp
  obtain ⟨b1, b2, _⟩ := ProgInv_erase s w h
  have hb' : ProgInv { s with waiters := s.waiters.erase w, stranded := s.stranded ++ [w.item] } :=
    ⟨b1, b2, fun _ => hcl⟩
  cases hit : w.item with
  | env mid k =>
    rw [hit] at hoid hb'
    simp only [Item.oid] at hoid hb'
    cases k
    · simp only [Sys.afterStrand]
      exact ProgInv_complete _ _ _ _ hb' (fun p hp => hoid ▸ hne p hp)
    · simp only [Sys.afterStrand]
      obtain ⟨c1, c2, c3⟩ := hb'
      refine ⟨?_, ?_, c3⟩
      · intro p hp
        have := hne p hp
        simp only [setF, hoid ▸ this, if_false]
        exact c1 p hp
      · intro o ho
        simp only [setF] at ho ⊢
        by_cases hoo : o = mid
        · simp [hoo]
        · simp only [hoo, if_false] at ho ⊢; exact c2 o ho
  | stop o =>
    rw [hit] at hoid hb'
    simp only [Item.oid] at hoid hb'
    simp only [Sys.afterStrand]
    exact ProgInv_complete _ _ _ _ hb' (fun p hp => hoid ▸ hne p hp)

theorem ProgInv_init (cap : Nat) (sc : Script) : ProgInv (init cap sc) := by
  refine ⟨?_, ?_, ?_⟩
  · intro p hp; simp [init, wkeys] at hp
  · intro oid ho; simp [init] at ho
  · intro h; simp [init] at h

theorem ProgInv_issueBase (s : Sys) (op : OpSpec) (h : ProgInv s) : ProgInv (issueBase s op) :=
  ProgInv_of_eq h rfl rfl rfl rfl rfl

theorem ProgInv_step (s s' : Sys) (l : Label) (h : ProgInv s) (hi : IdsInv s) (hs : step? s l = some s') :
    ProgInv s' := by
  have fresh : ∀ p ∈ wkeys s.waiters, p.1 ≠ s.nextOid := fun p hp => by
    have := (hi.wOk p hp).2.1; omega
  cases l with
  | issue hd op =>
    simp only [step?, Sys.issue] at hs
    have hb := ProgInv_issueBase s op h
    split at hs
    · split at hs
      · cases hs
        split
        · exact ProgInv_complete _ _ _ _ (ProgInv_of_eq hb rfl rfl rfl rfl rfl) fresh
        · exact ProgInv_complete _ _ _ _ hb fresh
      · split at hs
        · cases hs; exact ProgInv_failSend _ _ _ hb fresh
        · split at hs <;> cases hs
          all_goals
            obtain ⟨b1, b2, b3⟩ := hb
            refine ⟨?_, ?_, b3⟩
            · intro p hp
              simp only [wkeys_append, List.mem_append] at hp
              rcases hp with hp | hp
              · simp only [setF, fresh p hp, if_false]; exact b1 p hp
              · simp only [wkeys, List.map_cons, List.map_nil, List.mem_singleton] at hp
                subst hp; simp [setF]
            · intro o ho
              simp only [setF] at ho
              by_cases hoo : o = s.nextOid
              · simp [hoo] at ho
              · simp only [hoo, if_false] at ho; exact b2 o ho
    · cases hs
  | grantWake oid =>
    simp only [step?] at hs
    split at hs
    · rename_i w hf
      have hw : w ∈ s.waiters := List.mem_of_find?_eq_some hf
      have hq := List.find?_some hf
      have hwo : w.oid = oid := by simp at hq; exact hq.1
      split at hs
      · cases hs
        exact ProgInv_failSend _ _ _ (ProgInv_erase s w h) (fun p hp => hwo ▸ erase_key_ne hi.wNodup hw hp)
      · split at hs
        · cases hs
          exact ⟨by rw [wkeys_map_acq]; exact h.1, h.2.1, h.2.2⟩
        · cases hs
    · cases hs
  | push oid =>
    simp only [step?] at hs
    split at hs
    · rename_i w hf
      have hw : w ∈ s.waiters := List.mem_of_find?_eq_some hf
      split at hs
      · cases hs; exact ProgInv_afterPush s w h hi hw
      · rename_i hcl
        cases hs
        refine ProgInv_afterStrand s w h hi hw ?_
        cases hr : s.rxOpen
        · rfl
        · exact absurd hr hcl
    · cases hs
  | timeoutFire oid =>
    simp only [step?] at hs
    split at hs
    · split at hs
      · cases hs
      · split at hs
        · split at hs
          · rename_i w hf
            have hw : w ∈ s.waiters := List.mem_of_find?_eq_some hf
            have hq := List.find?_some hf
            have hwo : w.oid = oid := by simpa using hq
            split at hs
            · cases hs
            · cases hs
              exact ProgInv_complete _ _ _ _ (ProgInv_erase s w h) (fun p hp => hwo ▸ erase_key_ne hi.wNodup hw hp)
          · cases hs
        · rename_i hc
          split at hs
          · cases hs
          · cases hs
            refine ProgInv_complete _ _ _ _ h (fun p hp he => ?_)
            have := h.1 p hp
            rw [he, hc] at this; cases this
        · cases hs
    · cases hs
  | recvReply oid =>
    simp only [step?] at hs
    split at hs
    · rename_i hc
      have hnw : ∀ p ∈ wkeys s.waiters, p.1 ≠ oid := fun p hp he => by
        have := h.1 p hp
        rw [he, hc] at this; cases this
      (repeat' split at hs) <;> (try cases hs)
      all_goals exact ProgInv_complete _ _ _ _ h hnw
    · cases hs
  | pollMail =>
    simp only [step?] at hs
    (repeat' split at hs) <;> (try cases hs)
    all_goals first
      | exact ProgInv_of_eq h rfl rfl rfl rfl rfl
      | exact ⟨by rw [wkeys_grantFirst]; exact h.1, h.2.1, h.2.2⟩
  | handlerDone =>
    simp only [step?] at hs
    (repeat' split at hs) <;> (try cases hs)
    all_goals first
      | exact ProgInv_of_eq h rfl rfl rfl rfl rfl
      | exact ProgInv_finish _ _ _ (ProgInv_of_eq h rfl rfl rfl rfl rfl)
      | (refine ⟨h.1, ?_, h.2.2⟩
         intro o ho
         simp only [setF]
         split
         · nofun
         · exact h.2.1 o ho)
      | (refine ProgInv_finish _ _ _ ⟨h.1, ?_, h.2.2⟩
         intro o ho
         simp only [setF]
         split
         · nofun
         · exact h.2.1 o ho)
  | _ =>
    simp only [step?, Sys.runStep] at hs
    (repeat' split at hs) <;> (try cases hs)
    all_goals first
      | exact h
      | exact ProgInv_of_eq h rfl rfl rfl rfl rfl
      | exact ProgInv_finish _ _ _ h
      | exact ProgInv_finish _ _ _ (ProgInv_of_eq h rfl rfl rfl rfl rfl)

/-! ### the progress theorem -/
open Rsactor.Exec

/-- everything the proofs below need, for every reachable state -/
def AllInv (s : Sys) : Prop := IdsInv s ∧ EndInv s ∧ CapInv s ∧ NoIdleSlot s ∧ ProgInv s

theorem AllInv_run (cap : Nat) (sc : Script) (ls : List Label) (s : Sys)
    (hr : run? (init cap sc) ls = some s) : AllInv s ∧ s.cap = cap := by
  have := run_inv (P := fun s => AllInv s ∧ s.cap = cap)
    (fun s s' l ⟨⟨hi, he, hc, hn, hp⟩, hcap⟩ hs =>
      ⟨⟨IdsInv_step s s' l hi hs, EndInv_step s s' l he hi hs, CapInv_step s s' l hc hs,
        NoIdleSlot_step s s' l hn hc hs, ProgInv_step s s' l hp hi hs⟩, by rw [cap_const s s' l hs]; exact hcap⟩)
    (init cap sc) s ls
    ⟨⟨IdsInv_init cap sc, EndInv_init cap sc,
      ⟨by simp [init, grantedCount], by intro w hw; simp [init] at hw⟩,
      NoIdleSlot_init cap sc, ProgInv_init cap sc⟩, rfl⟩ hr
  exact this

/-- the runtime has nothing left to run: neither the actor's task nor any client operation can take a step
    (what remains enabled is the environment: new operations, gates, the clock) -/
def quiescent (s : Sys) : Prop := actorLabel s = none ∧ ∀ oid, clientLabel s oid = none

theorem oid_inj {ws : List Waiter} (hnd : ((wkeys ws).map (·.1)).Nodup) {a b : Waiter} (ha : a ∈ ws) (hb : b ∈ ws)
    (he : a.oid = b.oid) : a = b := by
  induction ws with
  | nil => cases ha
  | cons x xs ih =>
    simp only [wkeys, List.map_cons, List.map_map, List.nodup_cons] at hnd
    have hnot : ∀ y ∈ xs, y.oid ≠ x.oid := by
      intro y hy hyx
      apply hnd.1
      simp only [List.mem_map, Function.comp]
      exact ⟨y, hy, hyx⟩
    cases ha with
    | head =>
      cases hb with
      | head => rfl
      | tail _ hb' => exact absurd he.symm (hnot b hb')
    | tail _ ha' =>
      cases hb with
      | head => exact absurd he (hnot a ha')
      | tail _ hb' =>
        exact ih (by simpa [wkeys, List.map_map] using hnd.2) ha' hb'

theorem gc_pos_exists (ws : List Waiter) (h : 0 < grantedCount ws) : ∃ g ∈ ws, g.granted = true := by
  unfold grantedCount at h
  obtain ⟨g, hg⟩ := List.exists_mem_of_length_pos h
  simp only [List.mem_filter] at hg
  exact ⟨g, hg.1, hg.2⟩

/-- **No operation is left hanging.**  In every reachable state in which the runtime has nothing left to run and the
    actor is idle (parked in its select with an empty mailbox) or has ended, every operation that was ever issued has
    returned: no sender is still waiting for a slot and no asker is still waiting for a reply. -/
theorem quiescent_all_returned (cap : Nat) (sc : Script) (ls : List Label) (s : Sys) (hcap : 0 < cap)
    (hr : run? (init cap sc) ls = some s) (hq : quiescent s) (hidle : s.pc = .parked ∨ s.pc = .ended) (oid : Nat) :
    s.client oid ≠ .waiting ∧ s.client oid ≠ .awaiting := by
  obtain ⟨⟨hi, he, hc, hn, hp⟩, hcapeq⟩ := AllInv_run cap sc ls s hr
  obtain ⟨hqa, hqc⟩ := hq
  -- an ended actor has a closed mailbox; a parked one has an open, empty one
  have hopen : s.pc = .parked → s.rxOpen = true ∧ s.mbox = [] := by
    intro hpk
    constructor
    · cases hrx : s.rxOpen
      · have := he.closedIff.mp hrx; rw [hpk] at this; cases this
      · rfl
    · simp only [actorLabel, hpk] at hqa
      split at hqa
      · cases hqa
      · rename_i hcond
        simp only [Bool.or_eq_true, not_or] at hcond
        have : s.mbox.isEmpty = true := by simpa using hcond.1.2
        simpa using this
  constructor
  · intro hw
    have hmem := he.waitingHas oid hw
    simp only [List.mem_map] at hmem
    obtain ⟨w, hwm, hwo⟩ := hmem
    -- the scheduler's view of that sender
    have hcl := hqc oid
    simp only [clientLabel, hw] at hcl
    have hfind : ∃ w', s.waiters.find? (fun w => decide (w.oid = oid)) = some w' := by
      cases hf : s.waiters.find? (fun w => decide (w.oid = oid)) with
      | some w' => exact ⟨w', rfl⟩
      | none =>
        have := List.find?_eq_none.mp hf w hwm
        simp [hwo] at this
    obtain ⟨w', hf⟩ := hfind
    rw [hf] at hcl
    have hw'm : w' ∈ s.waiters := List.mem_of_find?_eq_some hf
    simp only at hcl
    split at hcl
    · cases hcl
    · split at hcl
      · cases hcl
      · rename_i hacq hgr
        simp only [Bool.or_eq_true, Bool.not_eq_true', not_or] at hgr
        have hrx : s.rxOpen = true := by
          cases h : s.rxOpen
          · exact absurd h hgr.1
          · rfl
        have hug : w'.granted = false := by
          cases h : w'.granted
          · rfl
          · exact absurd h hgr.2
        rcases hidle with hpk | hend
        · obtain ⟨_, hmb⟩ := hopen hpk
          have hfull := hn hrx ⟨w', hw'm, hug⟩
          rw [hmb, hcapeq] at hfull
          simp only [List.length_nil, Nat.zero_add] at hfull
          obtain ⟨g, hgm, hgg⟩ := gc_pos_exists s.waiters (by omega)
          -- the sender that holds the permit could run: contradiction with quiescence
          have hgk : (g.oid, g.item) ∈ wkeys s.waiters := by
            simp only [wkeys, List.mem_map]; exact ⟨g, hgm, rfl⟩
          have hgw := hp.1 _ hgk
          have hgl := hqc g.oid
          simp only [clientLabel, hgw] at hgl
          have hfg : s.waiters.find? (fun w => decide (w.oid = g.oid)) = some g := by
            cases hf2 : s.waiters.find? (fun w => decide (w.oid = g.oid)) with
            | none =>
              have := List.find?_eq_none.mp hf2 g hgm
              simp at this
            | some g' =>
              have hg'm : g' ∈ s.waiters := List.mem_of_find?_eq_some hf2
              have hq := List.find?_some hf2
              have : g'.oid = g.oid := by simpa using hq
              rw [oid_inj hi.wNodup hg'm hgm this]
          rw [hfg] at hgl
          simp only [hgg, Bool.or_true, if_true] at hgl
          split at hgl <;> cases hgl
        · have := he.closedIff.mpr hend
          rw [this] at hrx; cases hrx
  · intro ha
    have hcl := hqc oid
    simp only [clientLabel, ha] at hcl
    have hw : Extracted.ask_wait_watches_closed = true := rfl
    cases hrp : s.reply oid with
    | sent => rw [hrp] at hcl; cases hcl
    | dropped => rw [hrp] at hcl; cases hcl
    | none => exact hp.2.1 oid ha hrp
    | pending =>
      rcases hidle with hpk | hend
      · obtain ⟨hrx, hmb⟩ := hopen hpk
        rcases he.pendingWhere oid hrp with hm | hm | hm
        · rw [hmb] at hm; cases hm
        · rw [hpk] at hm; cases hm
        · have : s.stranded ≠ [] := by intro h0; rw [h0] at hm; cases hm
          have := hp.2.2 this
          rw [this] at hrx; cases hrx
      · have hcls := he.closedIff.mpr hend
        rw [hrp] at hcl
        simp [hcls, hw] at hcl

/-- in a quiescent state the actor is idle, has ended, or is inside a hook that waits for its own external event (a gate
    with no permit) - nothing else stops the actor's task -/
theorem quiescent_actor_where (s : Sys) (hq : quiescent s) :
    s.pc = .parked ∨ s.pc = .ended ∨
    (s.gatePermits = 0 ∧ (s.pc = .starting ∨ (∃ m k, s.pc = .inHandler m k) ∨ ∃ a b c, s.pc = .stopping a b c)) := by
  have h := hq.1
  unfold actorLabel at h
  cases hpc : s.pc with
  | starting =>
    rw [hpc] at h; simp only at h
    split at h
    · cases h
    · exact Or.inr (Or.inr ⟨by omega, Or.inl rfl⟩)
  | selTerm => rw [hpc] at h; cases h
  | selMail => rw [hpc] at h; cases h
  | selRun => rw [hpc] at h; cases h
  | parked => exact Or.inl rfl
  | inHandler m k =>
    rw [hpc] at h; simp only at h
    split at h
    · cases h
    · exact Or.inr (Or.inr ⟨by omega, Or.inr (Or.inl ⟨m, k, rfl⟩)⟩)
  | stopping a b c =>
    rw [hpc] at h; simp only at h
    split at h
    · cases h
    · exact Or.inr (Or.inr ⟨by omega, Or.inr (Or.inr ⟨a, b, c, rfl⟩)⟩)
  | ended => exact Or.inr (Or.inl rfl)

/-- a parked actor in a quiescent state is referenced, has no kill pending and an empty mailbox: with a pending kill,
    without any strong reference, or with mail waiting, the parked loop is woken (and then stops or serves) -/
theorem quiescent_parked (s : Sys) (hq : quiescent s) (hpk : s.pc = .parked) :
    s.termSlot = false ∧ s.strongCount ≠ 0 ∧ s.mbox = [] := by
  have h := hq.1
  simp only [actorLabel, hpk] at h
  split at h
  · cases h
  · rename_i hcond
    simp only [Bool.or_eq_true, not_or] at hcond
    refine ⟨by simpa using hcond.1.1.1, by simpa using hcond.1.1.2, ?_⟩
    have : s.mbox.isEmpty = true := by simpa using hcond.1.2
    simpa using this

/-- hence: in a quiescent state an actor with a kill pending, or with no strong reference left, or with mail waiting,
    has ended - unless it is inside a hook that waits for its own external event -/
theorem quiescent_due_has_ended (s : Sys) (hq : quiescent s)
    (hdue : s.termSlot = true ∨ s.strongCount = 0 ∨ s.mbox ≠ []) :
    s.pc = .ended ∨
    (s.gatePermits = 0 ∧ (s.pc = .starting ∨ (∃ m k, s.pc = .inHandler m k) ∨ ∃ a b c, s.pc = .stopping a b c)) := by
  rcases quiescent_actor_where s hq with h | h | h
  · obtain ⟨h1, h2, h3⟩ := quiescent_parked s hq h
    rcases hdue with hd | hd | hd
    · rw [h1] at hd; cases hd
    · exact absurd hd h2
    · exact absurd h3 hd
  · exact Or.inl h
  · exact Or.inr h

/-! ### what the deterministic scheduler computes is a quiescent state -/

theorem runnableClients_nil (s : Sys) (n start : Nat) (h : runnableClients s n start = []) :
    ∀ oid, start ≤ oid → oid < start + n → clientLabel s oid = none := by
  induction n generalizing start with
  | zero => intro oid h1 h2; omega
  | succ n ih =>
    intro oid h1 h2
    simp only [runnableClients] at h
    split at h
    · cases h
    · rename_i hnone
      by_cases he : oid = start
      · subst he; exact hnone
      · exact ih (start + 1) h oid (by omega) (by omega)

/-- when the scheduler's run queue is empty (`Exec.runnable s = []`, the condition under which `settle` stops) the
    state is quiescent in the sense of the progress theorems -/
theorem runnable_nil_quiescent (s : Sys) (hi : IdsInv s) (h : runnable s = []) : quiescent s := by
  unfold runnable at h
  have hsplit := List.append_eq_nil_iff.mp h
  constructor
  · cases ha : actorLabel s with
    | none => rfl
    | some l => rw [ha] at hsplit; simp at hsplit
  · intro oid
    by_cases hlt : oid < s.nextOid
    · exact runnableClients_nil s s.nextOid 0 hsplit.2 oid (Nat.zero_le _) (by omega)
    · have := hi.clientNone oid (by omega)
      simp [clientLabel, this]

end Rsactor.Model
