/- C04 `killed_iff` (one direction observable on traces): on_stop(killed = true) is entered only
   after a kill() was issued. -/
import Rsactor.Inv.Tactics
import Rsactor.Monitor

namespace Rsactor.Model
open Rsactor.Monitor

def kFold (ev : List Ev) : Bool × Bool := ev.foldl C04.killStep (false, true)
def kRun (st : Bool × Bool) (chunk : List Ev) : Bool × Bool := chunk.foldl C04.killStep st

def KInv (s : Sys) : Prop := (kFold s.ev).2 = true ∧ (s.termSlot = true → (kFold s.ev).1 = true)

def isNeutralK : Ev → Bool
  | .issued _ .kill _ _ => false
  | .stopStart true => false
  | _ => true

theorem kRun_neutral (st : Bool × Bool) (chunk : List Ev) (hn : chunk.all isNeutralK = true) : kRun st chunk = st := by
  induction chunk generalizing st with
  | nil => rfl
  | cons e es ih =>
    simp only [List.all_cons, Bool.and_eq_true] at hn
    have : C04.killStep st e = st := by
      cases e <;> simp_all [isNeutralK, C04.killStep]
      · rename_i k _ _; cases k <;> simp_all [isNeutralK, C04.killStep]
      · rename_i k; cases k <;> simp_all [isNeutralK, C04.killStep]
    simp only [kRun, List.foldl_cons, this] at ih ⊢
    exact ih st hn.2

theorem kFold_append (ev chunk : List Ev) : kFold (ev ++ chunk) = kRun (kFold ev) chunk := by
  simp [kFold, kRun, List.foldl_append]

theorem KInv_neutral (s s' : Sys) (chunk : List Ev) (h : KInv s) (hev : s'.ev = s.ev ++ chunk)
    (ht : s'.termSlot = s.termSlot) (hn : chunk.all isNeutralK = true) : KInv s' := by
  unfold KInv at *
  rw [hev, kFold_append, kRun_neutral _ _ hn, ht]; exact h

theorem KInv_of_eq {s s' : Sys} (h : KInv s) (hev : s'.ev = s.ev) (ht : s'.termSlot = s.termSlot) : KInv s' :=
  KInv_neutral s s' [] h (by simp [hev]) ht rfl

theorem KInv_neutral2 (s s' : Sys) (c1 c2 : List Ev) (h : KInv s) (hev : s'.ev = (s.ev ++ c1) ++ c2)
    (ht : s'.termSlot = s.termSlot) (h1 : c1.all isNeutralK = true) (h2 : c2.all isNeutralK = true) : KInv s' :=
  KInv_neutral s s' (c1 ++ c2) h (by rw [hev, List.append_assoc]) ht (by simp [List.all_append, h1, h2])

theorem KInv_complete (s : Sys) (oid : Nat) (r : Res) (why : Option Reason) (h : KInv s) :
    KInv (s.complete oid r why) := by
  cases why with
  | none => exact KInv_neutral s _ [Ev.ret oid r s.clock] h (by simp [complete_ev]) rfl rfl
  | some w => exact KInv_neutral s _ [Ev.dead oid w, Ev.ret oid r s.clock] h (by simp [complete_ev]) rfl rfl

theorem KInv_failSend (s : Sys) (oid : Nat) (it : Item) (h : KInv s) : KInv (s.failSend oid it) := by
  cases it <;> simp only [Sys.failSend] <;> exact KInv_complete _ _ _ _ h

theorem KInv_afterPush (s : Sys) (it : Item) (h : KInv s) : KInv (s.afterPush it) := by
  have hb : KInv { s with mbox := s.mbox ++ [it], accepted := s.accepted ++ [it],
                          ev := s.ev ++ [.accepted it.oid s.accepted.length] } :=
    KInv_neutral s _ _ h rfl rfl rfl
  cases it with
  | env mid k =>
    cases k
    · exact KInv_complete _ _ _ _ hb
    · exact KInv_of_eq hb rfl rfl
  | stop o => exact KInv_complete _ _ _ _ hb

theorem KInv_afterStrand (s : Sys) (it : Item) (h : KInv s) : KInv (s.afterStrand it) := by
  have hb : KInv { s with stranded := s.stranded ++ [it] } := KInv_of_eq h rfl rfl
  cases it with
  | env mid k =>
    cases k
    · exact KInv_complete _ _ _ _ hb
    · exact KInv_of_eq hb rfl rfl
  | stop o => exact KInv_complete _ _ _ _ hb

theorem KInv_finish (s : Sys) (o : Outcome) (evs : List Ev) (h : KInv s)
    (hn : evs.all isNeutralK = true) : KInv (s.finish o evs) :=
  KInv_neutral s _ (evs ++ [.joined o]) h (by simp) rfl (by simp [hn, isNeutralK])

theorem KInv_init (cap : Nat) (sc : Script) : KInv (init cap sc) := by
  simp [KInv, init, kFold]

theorem KInv_issue_nonkill (s : Sys) (op : OpSpec) (h : KInv s) (hk : op.kind ≠ .kill) : KInv (issueBase s op) := by
  refine KInv_neutral s (issueBase s op) [.issued s.nextOid op.kind op.timeout s.clock] h rfl rfl ?_
  cases hkk : op.kind <;> simp_all [isNeutralK]

theorem KInv_issue_kill (s : Sys) (op : OpSpec) (ts : Bool) (h : KInv s) (hk : op.kind = .kill) :
    KInv { issueBase s op with termSlot := ts } := by
  unfold KInv at *
  simp only [issueBase, kFold_append, hk, kRun, List.foldl_cons, List.foldl_nil, C04.killStep]
  exact ⟨h.1, fun _ => trivial⟩

/-- the kill signal is taken out of the control channel and on_stop(killed = true) begins -/
theorem KInv_consume (s s' : Sys) (h : KInv s) (hts : s.termSlot = true)
    (hev : s'.ev = s.ev ++ [Ev.termConsumed, Ev.stopStart true]) (ht : s'.termSlot = false) : KInv s' := by
  obtain ⟨h1, h2⟩ := h
  have h2' := h2 hts
  unfold KInv
  rw [hev, ht]
  simp only [kFold_append, kRun, List.foldl_cons, List.foldl_nil, C04.killStep, h1, h2']
  simp

theorem KInv_step (s s' : Sys) (l : Label) (h : KInv s) (hs : step? s l = some s') : KInv s' := by
  cases l with
  | issue hd op =>
    simp only [step?, Sys.issue] at hs
    split at hs
    · split at hs
      · rename_i heq
        have hk : op.kind = .kill := by cases hkk : op.kind <;> simp [opItem, hkk] at heq; rfl
        cases hs
        split
        · exact KInv_complete _ _ _ _ (KInv_issue_kill s op true h hk)
        · exact KInv_complete _ _ _ _ (KInv_of_eq (KInv_issue_kill s op s.termSlot h hk) rfl rfl)
      · rename_i it heq
        have hk : op.kind ≠ .kill := by intro hkk; simp [opItem, hkk] at heq
        have hb := KInv_issue_nonkill s op h hk
        split at hs
        · cases hs; exact KInv_failSend _ _ _ hb
        · split at hs <;> cases hs <;> exact KInv_of_eq hb rfl rfl
    · cases hs
  | pollTerm =>
    simp only [step?] at hs
    split at hs
    · split at hs
      · rename_i hts
        cases hs
        obtain ⟨h1, h2⟩ := h
        have h2' := h2 hts
        unfold KInv
        simp only [kFold_append, kRun, List.foldl_cons, List.foldl_nil, C04.killStep, h1, h2']
        simp
      · split at hs <;> cases hs
        · exact KInv_neutral s _ _ h rfl rfl rfl
        · exact KInv_of_eq h rfl rfl
    · cases hs
  | pollMail =>
    simp only [step?] at hs
    (repeat' split at hs) <;> (try cases hs)
    all_goals first
      | exact KInv_of_eq h rfl rfl
      | exact KInv_neutral s _ _ h rfl rfl rfl
      | (rename_i hts; exact KInv_consume s _ h hts rfl rfl)
  | _ =>
    simp only [step?, Sys.runStep] at hs
    (repeat' split at hs) <;> (try cases hs)
    all_goals first
      | exact h
      | exact KInv_of_eq h rfl rfl
      | exact KInv_neutral s _ _ h rfl rfl rfl
      | exact KInv_neutral2 s _ _ _ h rfl rfl rfl rfl
      | exact KInv_finish _ _ _ h rfl
      | exact KInv_finish _ _ _ (KInv_of_eq h rfl rfl) rfl
      | exact KInv_finish _ _ _ (KInv_neutral s _ _ h rfl rfl rfl) rfl
      | exact KInv_complete _ _ _ _ h
      | exact KInv_complete _ _ _ _ (KInv_of_eq h rfl rfl)
      | exact KInv_complete _ _ _ _ (KInv_neutral s _ _ h rfl rfl rfl)
      | exact KInv_failSend _ _ _ (KInv_of_eq h rfl rfl)
      | exact KInv_afterPush _ _ (KInv_of_eq h rfl rfl)
      | exact KInv_afterStrand _ _ (KInv_of_eq h rfl rfl)
      | trace_state

end Rsactor.Model
