/- A stop() that is reported as `Ok` either put its marker into the channel (accepted, or - in the window after the
   receivers were dropped - lying in the closed channel) or found the mailbox already closed, i.e. the actor's task had
   finished.  Model-level statement behind the stop() clause of the trace monitor `C09.okMeansAccepted`. -/
import Rsactor.Inv.OkAcc
import Rsactor.Inv.SendErr

namespace Rsactor.Model
open Rsactor.Monitor

def StopOkInv (s : Sys) : Prop :=
  ∀ oid a, Ev.ret oid .ok a ∈ s.ev → (s.spec oid).kind = .stop →
    (∃ i, Ev.accepted oid i ∈ s.ev) ∨ Item.stop oid ∈ s.stranded ∨ hasJoined s.ev

theorem StopOkInv_grow (s s' : Sys) (chunk : List Ev) (extra : List Item) (h : StopOkInv s)
    (hev : s'.ev = s.ev ++ chunk) (hn : chunk.all noOk = true) (hsp : s'.spec = s.spec)
    (hst : s'.stranded = s.stranded ++ extra) : StopOkInv s' := by
  intro oid a hm hk
  rw [hev] at hm
  rw [hsp] at hk
  rcases List.mem_append.mp hm with hm | hm
  · rcases h oid a hm hk with ⟨i, hi⟩ | hs | hj
    · exact Or.inl ⟨i, by rw [hev]; exact List.mem_append_left _ hi⟩
    · exact Or.inr (Or.inl (by rw [hst]; exact List.mem_append_left _ hs))
    · exact Or.inr (Or.inr (by rw [hev]; exact hasJoined_append _ hj))
  · have := List.all_eq_true.mp hn _ hm
    simp [noOk] at this

theorem StopOkInv_neutral (s s' : Sys) (chunk : List Ev) (h : StopOkInv s)
    (hev : s'.ev = s.ev ++ chunk) (hn : chunk.all noOk = true) (hsp : s'.spec = s.spec)
    (hst : s'.stranded = s.stranded) : StopOkInv s' :=
  StopOkInv_grow s s' chunk [] h hev hn hsp (by simp [hst])

theorem StopOkInv_of_eq {s s' : Sys} (h : StopOkInv s) (hev : s'.ev = s.ev) (hsp : s'.spec = s.spec)
    (hst : s'.stranded = s.stranded) : StopOkInv s' :=
  StopOkInv_neutral s s' [] h (by simp [hev]) rfl hsp hst

theorem StopOkInv_neutral2 (s s' : Sys) (c1 c2 : List Ev) (h : StopOkInv s)
    (hev : s'.ev = (s.ev ++ c1) ++ c2) (h1 : c1.all noOk = true) (h2 : c2.all noOk = true)
    (hsp : s'.spec = s.spec) (hst : s'.stranded = s.stranded) : StopOkInv s' :=
  StopOkInv_neutral s s' (c1 ++ c2) h (by rw [hev, List.append_assoc]) (by simp [List.all_append, h1, h2]) hsp hst

theorem StopOkInv_finish (s : Sys) (o : Outcome) (evs : List Ev) (h : StopOkInv s) (hn : evs.all noOk = true) :
    StopOkInv (s.finish o evs) :=
  StopOkInv_neutral s _ (evs ++ [.joined o]) h (by simp) (by simp [hn, noOk]) rfl rfl

theorem StopOkInv_complete (s : Sys) (oid : Nat) (r : Res) (why : Option Reason) (h : StopOkInv s) (hr : r ≠ .ok) :
    StopOkInv (s.complete oid r why) := by
  cases why with
  | none =>
    exact StopOkInv_neutral s _ [Ev.ret oid r s.clock] h (by simp) (by cases r <;> simp_all [noOk]) rfl rfl
  | some w =>
    exact StopOkInv_neutral s _ [Ev.dead oid w, Ev.ret oid r s.clock] h (by simp) (by cases r <;> simp_all [noOk]) rfl rfl

/-- an operation completes with `Ok`, and for a stop() one of the three alternatives holds -/
theorem StopOkInv_completeOk (s : Sys) (oid : Nat) (h : StopOkInv s)
    (hk : (s.spec oid).kind = .stop →
      (∃ i, Ev.accepted oid i ∈ s.ev) ∨ Item.stop oid ∈ s.stranded ∨ hasJoined s.ev) :
    StopOkInv (s.complete oid .ok none) := by
  intro o a hm hkk
  simp only [complete_ev, List.append_nil, List.mem_append, List.mem_singleton] at hm
  simp only [complete_spec] at hkk
  have lift : ((∃ i, Ev.accepted o i ∈ s.ev) ∨ Item.stop o ∈ s.stranded ∨ hasJoined s.ev) →
      ((∃ i, Ev.accepted o i ∈ (s.complete oid .ok none).ev) ∨ Item.stop o ∈ (s.complete oid .ok none).stranded ∨
        hasJoined (s.complete oid .ok none).ev) := by
    rintro (⟨j, hj⟩ | hs | hj)
    · exact Or.inl ⟨j, by simp [hj]⟩
    · exact Or.inr (Or.inl hs)
    · exact Or.inr (Or.inr (by simp only [complete_ev]; exact hasJoined_append _ (hasJoined_append _ hj)))
  rcases hm with hm | hm
  · exact lift (h o a hm hkk)
  · cases hm
    exact lift (hk hkk)

theorem opItem_tell_kind {oid m : Nat} {k : OpKind} (h : opItem oid k = some (.env m .tell)) : k = .tell := by
  cases k <;> simp [opItem] at h <;> rfl

theorem StopOkInv_failSend (s : Sys) (oid : Nat) (it : Item) (h : StopOkInv s) (hj : hasJoined s.ev) :
    StopOkInv (s.failSend oid it) := by
  cases it with
  | env m k => simp only [Sys.failSend]; exact StopOkInv_complete _ _ _ _ h nofun
  | stop x => simp only [Sys.failSend]; exact StopOkInv_completeOk _ _ h (fun _ => Or.inr (Or.inr hj))

theorem StopOkInv_issue (s : Sys) (op : OpSpec) (h : StopOkInv s) (hi : IdsInv s) : StopOkInv (issueBase s op) := by
  intro oid a hm hk
  simp only [issueBase, List.mem_append, List.mem_singleton] at hm
  rcases hm with hm | hm
  · have hlt := hi.retLt oid .ok a hm
    have hne : oid ≠ s.nextOid := by omega
    simp only [issueBase, setF, hne, if_false] at hk
    rcases h oid a hm hk with ⟨i, hi'⟩ | hs | hj
    · exact Or.inl ⟨i, by simp [issueBase, hi']⟩
    · exact Or.inr (Or.inl hs)
    · exact Or.inr (Or.inr (by simp only [issueBase]; exact hasJoined_append _ hj))
  · cases hm

theorem StopOkInv_afterPush (s : Sys) (w : Waiter) (h : StopOkInv s) (hi : IdsInv s) (hw : w ∈ s.waiters) :
    StopOkInv ({ s with waiters := s.waiters.erase w }.afterPush w.item) := by
  have hk := hi.wOk (w.oid, w.item) (by simp only [wkeys, List.mem_map]; exact ⟨w, hw, rfl⟩)
  obtain ⟨k1, _, _, k4⟩ := hk
  simp only at k1 k4
  cases hit : w.item with
  | env m kind =>
    rw [hit] at k1 k4
    have hm : m = w.oid := by simpa [Item.oid] using k1
    cases kind with
    | tell =>
      simp only [Sys.afterPush]
      refine StopOkInv_completeOk _ m ?_ (fun hkk => ?_)
      · exact StopOkInv_neutral s _ [Ev.accepted m s.accepted.length] h (by simp [Item.oid]) rfl rfl rfl
      · simp only at hkk; rw [hm, opItem_tell_kind k4] at hkk; cases hkk
    | ask =>
      simp only [Sys.afterPush]
      exact StopOkInv_neutral s _ [Ev.accepted m s.accepted.length] h (by simp [Item.oid]) rfl rfl rfl
  | stop x =>
    simp only [Sys.afterPush]
    refine StopOkInv_completeOk _ x ?_ (fun _ => Or.inl ⟨s.accepted.length, by simp [Item.oid]⟩)
    exact StopOkInv_neutral s _ [Ev.accepted x s.accepted.length] h (by simp [Item.oid]) rfl rfl rfl

theorem StopOkInv_afterStrand (s : Sys) (w : Waiter) (h : StopOkInv s) (hi : IdsInv s) (hw : w ∈ s.waiters) :
    StopOkInv ({ s with waiters := s.waiters.erase w }.afterStrand w.item) := by
  have hk := hi.wOk (w.oid, w.item) (by simp only [wkeys, List.mem_map]; exact ⟨w, hw, rfl⟩)
  obtain ⟨k1, _, _, k4⟩ := hk
  simp only at k1 k4
  cases hit : w.item with
  | env m kind =>
    rw [hit] at k1 k4
    have hm : m = w.oid := by simpa [Item.oid] using k1
    cases kind with
    | tell =>
      simp only [Sys.afterStrand]
      refine StopOkInv_completeOk _ m ?_ (fun hkk => ?_)
      · exact StopOkInv_grow s _ [] [Item.env m .tell] h (by simp) rfl rfl rfl
      · simp only at hkk; rw [hm, opItem_tell_kind k4] at hkk; cases hkk
    | ask =>
      simp only [Sys.afterStrand]
      exact StopOkInv_grow s _ [] [Item.env m .ask] h (by simp) rfl rfl rfl
  | stop x =>
    simp only [Sys.afterStrand]
    refine StopOkInv_completeOk _ x ?_ (fun _ => Or.inr (Or.inl (by simp)))
    exact StopOkInv_grow s _ [] [Item.stop x] h (by simp) rfl rfl rfl

theorem StopOkInv_init (cap : Nat) (sc : Script) : StopOkInv (init cap sc) := by
  intro o a h; simp [init] at h

theorem StopOkInv_step (s s' : Sys) (l : Label) (h : StopOkInv s) (hi : IdsInv s) (hsd : SendInv s)
    (hs : step? s l = some s') : StopOkInv s' := by
  cases l with
  | issue hd op =>
    simp only [step?, Sys.issue] at hs
    have hb := StopOkInv_issue s op h hi
    split at hs
    · split at hs
      · rename_i hnone
        cases hs
        have hk : ((issueBase s op).spec s.nextOid).kind ≠ .stop := by
          simp only [issueBase, setF, if_true]; rw [opItem_none hnone]; nofun
        split
        · exact StopOkInv_completeOk _ _ (StopOkInv_of_eq hb rfl rfl rfl) (fun hkk => absurd hkk hk)
        · exact StopOkInv_completeOk _ _ hb (fun hkk => absurd hkk hk)
      · split at hs
        · rename_i hc
          cases hs
          have hj : hasJoined (issueBase s op).ev := by
            simp only [issueBase]; exact hasJoined_append _ (hsd.1 (by simpa using hc))
          exact StopOkInv_failSend _ _ _ hb hj
        · split at hs <;> cases hs <;> exact StopOkInv_of_eq hb rfl rfl rfl
    · cases hs
  | grantWake oid =>
    simp only [step?] at hs
    split at hs
    · split at hs
      · rename_i hc
        cases hs
        exact StopOkInv_failSend _ _ _ (StopOkInv_of_eq h rfl rfl rfl) (hsd.1 (by simpa using hc))
      · split at hs
        · cases hs; exact StopOkInv_of_eq h rfl rfl rfl
        · cases hs
    · cases hs
  | push oid =>
    simp only [step?] at hs
    split at hs
    · rename_i w hf
      obtain ⟨hw, _⟩ := find_waiter hf
      split at hs <;> cases hs
      · exact StopOkInv_afterPush s w h hi hw
      · exact StopOkInv_afterStrand s w h hi hw
    · cases hs
  | timeoutFire oid =>
    simp only [step?] at hs
    (repeat' split at hs) <;> (try cases hs)
    all_goals first
      | exact StopOkInv_complete _ _ _ _ (StopOkInv_of_eq h rfl rfl rfl) nofun
      | exact StopOkInv_complete _ _ _ _ h nofun
  | recvReply oid =>
    simp only [step?] at hs
    (repeat' split at hs) <;> (try cases hs)
    all_goals exact StopOkInv_complete _ _ _ _ h nofun
  | pollMail =>
    simp only [step?] at hs
    (repeat' split at hs) <;> (try cases hs)
    all_goals first
      | exact StopOkInv_of_eq h rfl rfl rfl
      | exact StopOkInv_neutral s _ _ h rfl rfl rfl rfl
  | _ =>
    simp only [step?, Sys.runStep] at hs
    (repeat' split at hs) <;> (try cases hs)
    all_goals first
      | exact h
      | exact StopOkInv_of_eq h rfl rfl rfl
      | exact StopOkInv_neutral s _ _ h rfl rfl rfl rfl
      | exact StopOkInv_neutral2 s _ _ _ h rfl rfl rfl rfl rfl
      | exact StopOkInv_finish _ _ _ h rfl
      | exact StopOkInv_finish _ _ _ (StopOkInv_of_eq h rfl rfl rfl) rfl
      | exact StopOkInv_finish _ _ _ (StopOkInv_neutral s _ _ h rfl rfl rfl rfl) rfl

/-- in every reachable state -/
theorem stop_ok_run (cap : Nat) (sc : Script) (ls : List Label) (s : Sys)
    (hr : run? (init cap sc) ls = some s) : StopOkInv s :=
  (run_inv (P := fun s => IdsInv s ∧ SendInv s ∧ StopOkInv s)
    (fun s s' l ⟨hi, hsd, hj⟩ hs =>
      ⟨IdsInv_step s s' l hi hs, SendInv_step s s' l hsd hs, StopOkInv_step s s' l hj hi hsd hs⟩)
    (init cap sc) s ls ⟨IdsInv_init cap sc, SendInv_init cap sc, StopOkInv_init cap sc⟩ hr).2.2

end Rsactor.Model
