/-
  Generic machinery for invariant proofs over `Model.step?`:
  * `run_inv`: an invariant preserved by every step holds after every run;
  * projection lemmas (`@[simp]`) for the helper functions used inside `step?`.
-/
import Rsactor.Model

namespace Rsactor.Model

theorem run_inv {P : Sys → Prop} (hstep : ∀ s s' l, P s → step? s l = some s' → P s')
    (s s' : Sys) (ls : List Label) (h : P s) (hr : run? s ls = some s') : P s' := by
  induction ls generalizing s with
  | nil => simp [run?] at hr; subst hr; exact h
  | cons l ls ih =>
    simp only [run?] at hr
    split at hr
    · cases hr
    · rename_i s1 hs1; exact ih s1 (hstep s s1 l h hs1) hr

theorem run_append (s : Sys) (a b : List Label) :
    run? s (a ++ b) = (run? s a).bind (fun s' => run? s' b) := by
  induction a generalizing s with
  | nil => simp [run?]
  | cons l ls ih =>
    simp only [List.cons_append, run?]
    split <;> simp [ih]

/-! ### `complete` -/
section
variable (s : Sys) (oid : Nat) (r : Res) (why : Option Reason)
@[simp] theorem complete_cap : (s.complete oid r why).cap = s.cap := rfl
@[simp] theorem complete_script : (s.complete oid r why).script = s.script := rfl
@[simp] theorem complete_mbox : (s.complete oid r why).mbox = s.mbox := rfl
@[simp] theorem complete_waiters : (s.complete oid r why).waiters = s.waiters := rfl
@[simp] theorem complete_stranded : (s.complete oid r why).stranded = s.stranded := rfl
@[simp] theorem complete_termSlot : (s.complete oid r why).termSlot = s.termSlot := rfl
@[simp] theorem complete_rxOpen : (s.complete oid r why).rxOpen = s.rxOpen := rfl
@[simp] theorem complete_pc : (s.complete oid r why).pc = s.pc := rfl
@[simp] theorem complete_idleEnabled : (s.complete oid r why).idleEnabled = s.idleEnabled := rfl
@[simp] theorem complete_runLive : (s.complete oid r why).runLive = s.runLive := rfl
@[simp] theorem complete_runIdx : (s.complete oid r why).runIdx = s.runIdx := rfl
@[simp] theorem complete_gatePermits : (s.complete oid r why).gatePermits = s.gatePermits := rfl
@[simp] theorem complete_taskRef : (s.complete oid r why).taskRef = s.taskRef := rfl
@[simp] theorem complete_handles : (s.complete oid r why).handles = s.handles := rfl
@[simp] theorem complete_nextHid : (s.complete oid r why).nextHid = s.nextHid := rfl
@[simp] theorem complete_inflight : (s.complete oid r why).inflight = s.inflight - 1 := rfl
@[simp] theorem complete_client : (s.complete oid r why).client = setF s.client oid (.done r) := rfl
@[simp] theorem complete_spec : (s.complete oid r why).spec = s.spec := rfl
@[simp] theorem complete_deadline : (s.complete oid r why).deadline = s.deadline := rfl
@[simp] theorem complete_reply : (s.complete oid r why).reply = s.reply := rfl
@[simp] theorem complete_nextOid : (s.complete oid r why).nextOid = s.nextOid := rfl
@[simp] theorem complete_clock : (s.complete oid r why).clock = s.clock := rfl
@[simp] theorem complete_accepted : (s.complete oid r why).accepted = s.accepted := rfl
@[simp] theorem complete_taken : (s.complete oid r why).taken = s.taken := rfl
@[simp] theorem complete_acceptedAtMail : (s.complete oid r why).acceptedAtMail = s.acceptedAtMail := rfl
@[simp] theorem complete_hooks : (s.complete oid r why).hooks = s.hooks := rfl
@[simp] theorem complete_msgCount : (s.complete oid r why).msgCount = s.msgCount := rfl
@[simp] theorem complete_result : (s.complete oid r why).result = s.result := rfl
@[simp] theorem complete_dead :
    (s.complete oid r why).dead = (match why with | some w => s.dead ++ [(oid, w)] | none => s.dead) := rfl
@[simp] theorem complete_ev :
    (s.complete oid r why).ev =
      s.ev ++ (match why with | some w => [Ev.dead oid w] | none => []) ++ [Ev.ret oid r s.clock] := rfl
end

/-! ### `finish` -/
section
variable (s : Sys) (o : Outcome) (evs : List Ev)
@[simp] theorem finish_cap : (s.finish o evs).cap = s.cap := rfl
@[simp] theorem finish_script : (s.finish o evs).script = s.script := rfl
@[simp] theorem finish_mbox : (s.finish o evs).mbox = [] := rfl
@[simp] theorem finish_waiters : (s.finish o evs).waiters = s.waiters := rfl
@[simp] theorem finish_stranded : (s.finish o evs).stranded = s.stranded := rfl
@[simp] theorem finish_termSlot : (s.finish o evs).termSlot = s.termSlot := rfl
@[simp] theorem finish_rxOpen : (s.finish o evs).rxOpen = false := rfl
@[simp] theorem finish_pc : (s.finish o evs).pc = .ended := rfl
@[simp] theorem finish_idleEnabled : (s.finish o evs).idleEnabled = s.idleEnabled := rfl
@[simp] theorem finish_runLive : (s.finish o evs).runLive = false := rfl
@[simp] theorem finish_runIdx : (s.finish o evs).runIdx = s.runIdx := rfl
@[simp] theorem finish_gatePermits : (s.finish o evs).gatePermits = s.gatePermits := rfl
@[simp] theorem finish_taskRef : (s.finish o evs).taskRef = false := rfl
@[simp] theorem finish_handles : (s.finish o evs).handles = s.handles := rfl
@[simp] theorem finish_nextHid : (s.finish o evs).nextHid = s.nextHid := rfl
@[simp] theorem finish_inflight : (s.finish o evs).inflight = s.inflight := rfl
@[simp] theorem finish_client : (s.finish o evs).client = s.client := rfl
@[simp] theorem finish_spec : (s.finish o evs).spec = s.spec := rfl
@[simp] theorem finish_deadline : (s.finish o evs).deadline = s.deadline := rfl
@[simp] theorem finish_reply : (s.finish o evs).reply = dropReplies s.mbox s.reply := rfl
@[simp] theorem finish_nextOid : (s.finish o evs).nextOid = s.nextOid := rfl
@[simp] theorem finish_clock : (s.finish o evs).clock = s.clock := rfl
@[simp] theorem finish_accepted : (s.finish o evs).accepted = s.accepted := rfl
@[simp] theorem finish_taken : (s.finish o evs).taken = s.taken := rfl
@[simp] theorem finish_acceptedAtMail : (s.finish o evs).acceptedAtMail = s.acceptedAtMail := rfl
@[simp] theorem finish_hooks : (s.finish o evs).hooks = s.hooks := rfl
@[simp] theorem finish_dead : (s.finish o evs).dead = s.dead := rfl
@[simp] theorem finish_msgCount : (s.finish o evs).msgCount = s.msgCount := rfl
@[simp] theorem finish_result : (s.finish o evs).result = some o := rfl
@[simp] theorem finish_ev : (s.finish o evs).ev = s.ev ++ evs ++ [Ev.joined o] := rfl
end

/-! ### `failSend`: `complete` with a result depending on the item -/
theorem failSend_eq (s : Sys) (oid : Nat) (it : Item) :
    s.failSend oid it =
      match it with
      | .env _ _ => s.complete oid .send (some .actorStopped)
      | .stop _ => s.complete oid .ok none := by
  cases it <;> rfl

@[simp] theorem failSend_pc (s : Sys) (oid : Nat) (it : Item) : (s.failSend oid it).pc = s.pc := by
  cases it <;> rfl
@[simp] theorem afterPush_pc (s : Sys) (it : Item) : (s.afterPush it).pc = s.pc := by
  cases it with
  | env m k => cases k <;> rfl
  | stop o => rfl
@[simp] theorem afterStrand_pc (s : Sys) (it : Item) : (s.afterStrand it).pc = s.pc := by
  cases it with
  | env m k => cases k <;> rfl
  | stop o => rfl
@[simp] theorem failSend_accepted (s : Sys) (oid : Nat) (it : Item) : (s.failSend oid it).accepted = s.accepted := by
  cases it <;> rfl
@[simp] theorem afterPush_accepted (s : Sys) (it : Item) : (s.afterPush it).accepted = s.accepted ++ [it] := by
  cases it with
  | env m k => cases k <;> rfl
  | stop o => rfl
@[simp] theorem afterStrand_accepted (s : Sys) (it : Item) : (s.afterStrand it).accepted = s.accepted := by
  cases it with
  | env m k => cases k <;> rfl
  | stop o => rfl

end Rsactor.Model
