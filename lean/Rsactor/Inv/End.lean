/- C03: reply integrity, and what holds once the actor has ended (nothing queued, nothing pending
   except what was stranded, every operation still in flight has a waiter or awaits a reply). -/
import Rsactor.Inv.Ids

namespace Rsactor.Model
open Rsactor.Monitor

def riFold (ev : List Ev) : List Nat × Bool := ev.foldl C03.riStep ([], true)
def riRun (st : List Nat × Bool) (chunk : List Ev) : List Nat × Bool := chunk.foldl C03.riStep st

theorem ri_append (ev chunk : List Ev) : riFold (ev ++ chunk) = riRun (riFold ev) chunk := by
  simp [riFold, riRun, List.foldl_append]

structure EndInv (s : Sys) : Prop where
  closedIff : s.rxOpen = false ↔ s.pc = .ended
  endedEmpty : s.pc = .ended → s.mbox = []
  riOk : (riFold s.ev).2 = true
  sentEnded : ∀ m, s.reply m = .sent → m ∈ (riFold s.ev).1
  pendingWhere : ∀ m, s.reply m = .pending →
    Item.env m .ask ∈ s.mbox ∨ s.pc = .inHandler m .ask ∨ Item.env m .ask ∈ s.stranded
  waitingHas : ∀ oid, s.client oid = .waiting → oid ∈ s.waiters.map (·.oid)

def isNeutralRI : Ev → Bool
  | .handlerEnd _ .ok => false
  | .ret _ (.reply _) _ => false
  | _ => true

theorem riRun_neutral (st : List Nat × Bool) (chunk : List Ev) (hn : chunk.all isNeutralRI = true) :
    riRun st chunk = st := by
  induction chunk generalizing st with
  | nil => rfl
  | cons e es ih =>
    simp only [List.all_cons, Bool.and_eq_true] at hn
    have : C03.riStep st e = st := by
      cases e <;> simp_all [isNeutralRI, C03.riStep]
      · rename_i r _; cases r <;> simp_all [isNeutralRI, C03.riStep]
      · rename_i o; cases o <;> simp_all [isNeutralRI, C03.riStep]
    simp only [riRun, List.foldl_cons, this] at ih ⊢
    exact ih st hn.2

/-- neutral events; none of the fields the invariant reads changes -/
theorem EndInv_neutral (s s' : Sys) (chunk : List Ev) (h : EndInv s) (hev : s'.ev = s.ev ++ chunk)
    (hn : chunk.all isNeutralRI = true) (hr : s'.rxOpen = s.rxOpen) (hpc : s'.pc = s.pc)
    (hm : s'.mbox = s.mbox) (hre : s'.reply = s.reply) (hst : s'.stranded = s.stranded)
    (hc : s'.client = s.client) (hw : s'.waiters = s.waiters) : EndInv s' := by
  have hk : riFold s'.ev = riFold s.ev := by rw [hev, ri_append, riRun_neutral _ _ hn]
  exact ⟨by rw [hr, hpc]; exact h.closedIff, by rw [hpc, hm]; exact h.endedEmpty, by rw [hk]; exact h.riOk,
    by rw [hk, hre]; exact h.sentEnded, by rw [hre, hm, hpc, hst]; exact h.pendingWhere,
    by rw [hc, hw]; exact h.waitingHas⟩

theorem EndInv_of_eq {s s' : Sys} (h : EndInv s) (hev : s'.ev = s.ev) (hr : s'.rxOpen = s.rxOpen)
    (hpc : s'.pc = s.pc) (hm : s'.mbox = s.mbox) (hre : s'.reply = s.reply) (hst : s'.stranded = s.stranded)
    (hc : s'.client = s.client) (hw : s'.waiters = s.waiters) : EndInv s' :=
  EndInv_neutral s s' [] h (by simp [hev]) rfl hr hpc hm hre hst hc hw

/-- `complete` of an operation that has no waiter any more, with a result that is not a reply -/
theorem EndInv_complete (s : Sys) (oid : Nat) (r : Res) (why : Option Reason) (h : EndInv s)
    (hr : ∀ m, r ≠ .reply m) : EndInv (s.complete oid r why) := by
  have hn : ((match why with | some w => [Ev.dead oid w] | none => []) ++ [Ev.ret oid r s.clock]).all isNeutralRI = true := by
    cases why <;> cases r <;> simp_all [isNeutralRI]
  have hk : riFold (s.complete oid r why).ev = riFold s.ev := by
    simp only [complete_ev, List.append_assoc]; rw [ri_append]; exact riRun_neutral _ _ hn
  exact ⟨h.closedIff, h.endedEmpty, by rw [hk]; exact h.riOk, by rw [hk]; exact h.sentEnded, h.pendingWhere,
    by
      intro o ho
      simp only [complete_client, complete_waiters] at ho ⊢
      by_cases hoo : o = oid
      · subst hoo; simp [setF] at ho
      · simp [setF, hoo] at ho; exact h.waitingHas o ho⟩

theorem EndInv_failSend (s : Sys) (oid : Nat) (it : Item) (h : EndInv s) : EndInv (s.failSend oid it) := by
  cases it <;> simp only [Sys.failSend] <;> exact EndInv_complete _ _ _ _ h (by intro m; nofun)

theorem oids_of_wkeys (ws : List Waiter) : ws.map (·.oid) = (wkeys ws).map (·.1) := by
  simp [wkeys, List.map_map, Function.comp_def]

theorem oids_grantFirst (ws : List Waiter) : (grantFirst ws).map (·.oid) = ws.map (·.oid) := by
  rw [oids_of_wkeys, oids_of_wkeys, wkeys_grantFirst]

theorem oids_map_acq (ws : List Waiter) (w : Waiter) :
    (ws.map (fun x => if x = w then { x with acq := true } else x)).map (·.oid) = ws.map (·.oid) := by
  rw [oids_of_wkeys, oids_of_wkeys, wkeys_map_acq]

/-- removing the waiter `w`: every other waiting operation keeps its waiter -/
theorem oids_erase (ws : List Waiter) (w : Waiter) (o : Nat) (ho : o ∈ ws.map (·.oid)) (hne : o ≠ w.oid) :
    o ∈ (ws.erase w).map (·.oid) := by
  simp only [List.mem_map] at ho ⊢
  obtain ⟨w', hw', hwo⟩ := ho
  have : w' ≠ w := by intro he; subst he; exact hne hwo.symm
  exact ⟨w', (List.mem_erase_of_ne this).mpr hw', hwo⟩

/-- the waiter of `w.oid` is removed and that operation completes with a non-reply result -/
theorem EndInv_erase_complete (s : Sys) (w : Waiter) (ws' : List Waiter) (r : Res) (why : Option Reason)
    (h : EndInv s) (hws : ws'.map (·.oid) = (s.waiters.erase w).map (·.oid))
    (hr : ∀ m, r ≠ .reply m) : EndInv ({ s with waiters := ws' }.complete w.oid r why) := by
  have hn : ((match why with | some x => [Ev.dead w.oid x] | none => []) ++ [Ev.ret w.oid r s.clock]).all isNeutralRI = true := by
    cases why <;> cases r <;> simp_all [isNeutralRI]
  have hk : riFold ({ s with waiters := ws' }.complete w.oid r why).ev = riFold s.ev := by
    simp only [complete_ev, List.append_assoc]; rw [ri_append]; exact riRun_neutral _ _ hn
  exact ⟨h.closedIff, h.endedEmpty, by rw [hk]; exact h.riOk, by rw [hk]; exact h.sentEnded, h.pendingWhere,
    by
      intro o ho
      simp only [complete_client, complete_waiters] at ho ⊢
      by_cases hoo : o = w.oid
      · subst hoo; simp [setF] at ho
      · simp [setF, hoo] at ho
        rw [hws]; exact oids_erase _ _ _ (h.waitingHas o ho) hoo⟩

theorem EndInv_erase_failSend (s : Sys) (w : Waiter) (h : EndInv s) :
    EndInv ({ s with waiters := s.waiters.erase w }.failSend w.oid w.item) := by
  cases w.item <;> simp only [Sys.failSend] <;> exact EndInv_erase_complete s w _ _ _ h rfl (by intro m; nofun)

/-- a new waiter for a fresh operation -/
theorem EndInv_addWaiter (b : Sys) (n : Nat) (it : Item) (g a : Bool) (h : EndInv b) :
    EndInv { b with waiters := b.waiters ++ [⟨n, it, g, a⟩], client := setF b.client n .waiting } :=
  ⟨h.closedIff, h.endedEmpty, h.riOk, h.sentEnded, h.pendingWhere, by
    intro o ho
    simp only at ho ⊢
    by_cases hon : o = n
    · subst hon; simp
    · simp [setF, hon] at ho
      have := h.waitingHas o ho
      simp only [List.map_append, List.mem_append]; exact Or.inl this⟩

/-- a waiter's item enters the open mailbox -/
theorem EndInv_afterPush (s : Sys) (w : Waiter) (h : EndInv s) (hi : IdsInv s) (hw : w ∈ s.waiters)
    (ho : s.rxOpen = true) : EndInv ({ s with waiters := s.waiters.erase w }.afterPush w.item) := by
  have hk : (w.oid, w.item) ∈ wkeys s.waiters := by
    simp only [wkeys, List.mem_map]; exact ⟨w, hw, rfl⟩
  have k1 : w.item.oid = w.oid := (hi.wOk _ hk).1
  have hne : s.pc ≠ .ended := by
    intro he; have := h.closedIff.mpr he; rw [ho] at this; cases this
  cases hit : w.item with
  | env mid k =>
    rw [hit] at k1; simp only [Item.oid] at k1
    cases k
    · simp only [Sys.afterPush, Item.oid]
      have hb : EndInv { s with mbox := s.mbox ++ [Item.env mid .tell], accepted := s.accepted ++ [Item.env mid .tell],
                                ev := s.ev ++ [.accepted mid s.accepted.length] } :=
        ⟨h.closedIff, fun he => absurd he hne,
         by show (riFold (s.ev ++ [_])).2 = true; rw [ri_append, riRun_neutral _ _ rfl]; exact h.riOk,
         by intro m hm; show m ∈ (riFold (s.ev ++ [_])).1; rw [ri_append, riRun_neutral _ _ rfl]; exact h.sentEnded m hm,
         by
           intro m hm
           rcases h.pendingWhere m hm with hq | hq | hq
           · exact Or.inl (List.mem_append_left _ hq)
           · exact Or.inr (Or.inl hq)
           · exact Or.inr (Or.inr hq),
         h.waitingHas⟩
      subst k1
      exact EndInv_erase_complete _ w _ _ _ hb rfl (by intro m; nofun)
    · simp only [Sys.afterPush, Item.oid]
      refine ⟨h.closedIff, fun he => absurd he hne, ?_, ?_, ?_, ?_⟩
      · show (riFold (s.ev ++ [_])).2 = true; rw [ri_append, riRun_neutral _ _ rfl]; exact h.riOk
      · intro m hm
        show m ∈ (riFold (s.ev ++ [_])).1
        rw [ri_append, riRun_neutral _ _ rfl]
        simp only [setF] at hm
        split at hm
        · cases hm
        · exact h.sentEnded m hm
      · intro m hm
        simp only [setF] at hm ⊢
        split at hm
        · rename_i hmm; subst hmm; exact Or.inl (by simp)
        · rcases h.pendingWhere m hm with hq | hq | hq
          · exact Or.inl (List.mem_append_left _ hq)
          · exact Or.inr (Or.inl hq)
          · exact Or.inr (Or.inr hq)
      · intro o hoo
        simp only [setF] at hoo ⊢
        split at hoo
        · cases hoo
        · rename_i hom
          exact oids_erase _ _ _ (h.waitingHas o hoo) (by rw [← k1]; exact hom)
  | stop o =>
    rw [hit] at k1; simp only [Item.oid] at k1
    simp only [Sys.afterPush, Item.oid]
    have hb : EndInv { s with mbox := s.mbox ++ [Item.stop o], accepted := s.accepted ++ [Item.stop o],
                              ev := s.ev ++ [.accepted o s.accepted.length] } :=
      ⟨h.closedIff, fun he => absurd he hne,
       by show (riFold (s.ev ++ [_])).2 = true; rw [ri_append, riRun_neutral _ _ rfl]; exact h.riOk,
       by intro m hm; show m ∈ (riFold (s.ev ++ [_])).1; rw [ri_append, riRun_neutral _ _ rfl]; exact h.sentEnded m hm,
       by
         intro m hm
         rcases h.pendingWhere m hm with hq | hq | hq
         · exact Or.inl (List.mem_append_left _ hq)
         · exact Or.inr (Or.inl hq)
         · exact Or.inr (Or.inr hq),
       h.waitingHas⟩
    subst k1
    exact EndInv_erase_complete _ w _ _ _ hb rfl (by intro m; nofun)

/-- a waiter's item is pushed after the receivers were dropped -/
theorem EndInv_afterStrand (s : Sys) (w : Waiter) (h : EndInv s) (hi : IdsInv s) (hw : w ∈ s.waiters) :
    EndInv ({ s with waiters := s.waiters.erase w }.afterStrand w.item) := by
  have hk : (w.oid, w.item) ∈ wkeys s.waiters := by
    simp only [wkeys, List.mem_map]; exact ⟨w, hw, rfl⟩
  have k1 : w.item.oid = w.oid := (hi.wOk _ hk).1
  cases hit : w.item with
  | env mid k =>
    rw [hit] at k1; simp only [Item.oid] at k1
    cases k
    · simp only [Sys.afterStrand]
      have hb : EndInv { s with stranded := s.stranded ++ [Item.env mid .tell] } :=
        ⟨h.closedIff, h.endedEmpty, h.riOk, h.sentEnded,
         by
           intro m hm
           rcases h.pendingWhere m hm with hq | hq | hq
           · exact Or.inl hq
           · exact Or.inr (Or.inl hq)
           · exact Or.inr (Or.inr (List.mem_append_left _ hq)),
         h.waitingHas⟩
      subst k1
      exact EndInv_erase_complete _ w _ _ _ hb rfl (by intro m; nofun)
    · simp only [Sys.afterStrand]
      refine ⟨h.closedIff, h.endedEmpty, h.riOk, ?_, ?_, ?_⟩
      · intro m hm
        simp only [setF] at hm
        split at hm
        · cases hm
        · exact h.sentEnded m hm
      · intro m hm
        simp only [setF] at hm ⊢
        split at hm
        · rename_i hmm; subst hmm; exact Or.inr (Or.inr (by simp))
        · rcases h.pendingWhere m hm with hq | hq | hq
          · exact Or.inl hq
          · exact Or.inr (Or.inl hq)
          · exact Or.inr (Or.inr (List.mem_append_left _ hq))
      · intro o hoo
        simp only [setF] at hoo ⊢
        split at hoo
        · cases hoo
        · rename_i hom
          exact oids_erase _ _ _ (h.waitingHas o hoo) (by rw [← k1]; exact hom)
  | stop o =>
    rw [hit] at k1; simp only [Item.oid] at k1
    simp only [Sys.afterStrand]
    have hb : EndInv { s with stranded := s.stranded ++ [Item.stop o] } :=
      ⟨h.closedIff, h.endedEmpty, h.riOk, h.sentEnded,
       by
         intro m hm
         rcases h.pendingWhere m hm with hq | hq | hq
         · exact Or.inl hq
         · exact Or.inr (Or.inl hq)
         · exact Or.inr (Or.inr (List.mem_append_left _ hq)),
       h.waitingHas⟩
    subst k1
    exact EndInv_erase_complete _ w _ _ _ hb rfl (by intro m; nofun)

/-- the actor ends: receivers dropped, queued envelopes dropped with their reply senders -/
theorem EndInv_finish (b : Sys) (o : Outcome) (evs : List Ev) (h : EndInv b)
    (hn : evs.all isNeutralRI = true)
    (hnh : ∀ m, b.reply m = .pending → b.pc ≠ .inHandler m .ask) : EndInv (b.finish o evs) := by
  have hk : riFold (b.finish o evs).ev = riFold b.ev := by
    simp only [finish_ev, List.append_assoc]; rw [ri_append]
    exact riRun_neutral _ _ (by simp [List.all_append, hn, isNeutralRI])
  refine ⟨by simp, fun _ => rfl, by rw [hk]; exact h.riOk, ?_, ?_, h.waitingHas⟩
  · intro m hm
    rw [hk]
    simp only [finish_reply, dropReplies] at hm
    split at hm
    · cases hm
    · exact h.sentEnded m hm
  · intro m hm
    simp only [finish_reply, dropReplies] at hm
    split at hm
    · cases hm
    · rename_i hnm
      rcases h.pendingWhere m hm with hq | hq | hq
      · exact absurd hq hnm
      · exact absurd hq (hnh m hm)
      · exact Or.inr (Or.inr hq)

theorem EndInv_init (cap : Nat) (sc : Script) : EndInv (init cap sc) :=
  ⟨by simp [init], by simp [init], rfl, by simp [init], by simp [init], by simp [init]⟩

theorem EndInv_live_ne (s : Sys) (h : EndInv s) (hne : s.pc ≠ .ended) : s.rxOpen = true := by
  cases ho : s.rxOpen with
  | true => rfl
  | false => exact absurd (h.closedIff.mp ho) hne

/-- the actor's own steps that neither end it nor touch replies/mailbox: only pc / events move -/
theorem EndInv_actor (s s' : Sys) (chunk : List Ev) (h : EndInv s) (hev : s'.ev = s.ev ++ chunk)
    (hn : chunk.all isNeutralRI = true) (hr : s'.rxOpen = s.rxOpen)
    (hne : s.pc ≠ .ended) (hne' : s'.pc ≠ .ended)
    (hm : s'.mbox = s.mbox) (hre : s'.reply = s.reply) (hst : s'.stranded = s.stranded)
    (hc : s'.client = s.client) (hw : s'.waiters.map (·.oid) = s.waiters.map (·.oid))
    (hh : ∀ m, s.pc = .inHandler m .ask → s'.pc = .inHandler m .ask) : EndInv s' := by
  have hk : riFold s'.ev = riFold s.ev := by rw [hev, ri_append, riRun_neutral _ _ hn]
  refine ⟨?_, fun he => absurd he hne', by rw [hk]; exact h.riOk, by rw [hk, hre]; exact h.sentEnded, ?_,
    by rw [hc, hw]; exact h.waitingHas⟩
  · rw [hr]; constructor
    · intro hc'; exact absurd (h.closedIff.mp hc') hne
    · intro he; exact absurd he hne'
  · intro m hmm
    rw [hre] at hmm
    rcases h.pendingWhere m hmm with hq | hq | hq
    · exact Or.inl (hm ▸ hq)
    · exact Or.inr (Or.inl (hh m hq))
    · exact Or.inr (Or.inr (hst ▸ hq))

theorem EndInv_actor0 (s s' : Sys) (h : EndInv s) (hev : s'.ev = s.ev) (hr : s'.rxOpen = s.rxOpen)
    (hne : s.pc ≠ .ended) (hne' : s'.pc ≠ .ended)
    (hm : s'.mbox = s.mbox) (hre : s'.reply = s.reply) (hst : s'.stranded = s.stranded)
    (hc : s'.client = s.client) (hw : s'.waiters.map (·.oid) = s.waiters.map (·.oid))
    (hh : ∀ m, s.pc = .inHandler m .ask → s'.pc = .inHandler m .ask) : EndInv s' :=
  EndInv_actor s s' [] h (by simp [hev]) rfl hr hne hne' hm hre hst hc hw hh

theorem EndInv_actor2 (s s' : Sys) (c1 c2 : List Ev) (h : EndInv s) (hev : s'.ev = (s.ev ++ c1) ++ c2)
    (h1 : c1.all isNeutralRI = true) (h2 : c2.all isNeutralRI = true) (hr : s'.rxOpen = s.rxOpen)
    (hne : s.pc ≠ .ended) (hne' : s'.pc ≠ .ended)
    (hm : s'.mbox = s.mbox) (hre : s'.reply = s.reply) (hst : s'.stranded = s.stranded)
    (hc : s'.client = s.client) (hw : s'.waiters.map (·.oid) = s.waiters.map (·.oid))
    (hh : ∀ m, s.pc = .inHandler m .ask → s'.pc = .inHandler m .ask) : EndInv s' :=
  EndInv_actor s s' (c1 ++ c2) h (by rw [hev, List.append_assoc]) (by simp [List.all_append, h1, h2])
    hr hne hne' hm hre hst hc hw hh

theorem EndInv_step (s s' : Sys) (l : Label) (h : EndInv s) (hi : IdsInv s)
    (hs : step? s l = some s') : EndInv s' := by
  cases l with
  | issue hd op =>
    simp only [step?, Sys.issue] at hs
    have hb : EndInv (issueBase s op) := EndInv_neutral s _ [_] h rfl rfl rfl rfl rfl rfl rfl rfl rfl
    split at hs
    · split at hs
      · cases hs
        split
        · exact EndInv_complete _ _ _ _ (EndInv_of_eq hb rfl rfl rfl rfl rfl rfl rfl rfl) (by intro m; nofun)
        · exact EndInv_complete _ _ _ _ hb (by intro m; nofun)
      · split at hs
        · cases hs; exact EndInv_failSend _ _ _ hb
        · split at hs <;> cases hs <;> exact EndInv_addWaiter _ _ _ _ _ hb
    · cases hs
  | grantWake oid =>
    simp only [step?] at hs
    split at hs
    · rename_i w hf
      obtain ⟨hw, hq⟩ := find_waiter hf
      have hwo : w.oid = oid := by simp at hq; exact hq.1
      split at hs
      · cases hs; subst hwo; exact EndInv_erase_failSend s w h
      · split at hs
        · cases hs
          exact ⟨h.closedIff, h.endedEmpty, h.riOk, h.sentEnded, h.pendingWhere,
            fun o ho => by simp only; rw [oids_map_acq]; exact h.waitingHas o ho⟩
        · cases hs
    · cases hs
  | push oid =>
    simp only [step?] at hs
    split at hs
    · rename_i w hf
      obtain ⟨hw, _⟩ := find_waiter hf
      split at hs
      · rename_i ho; cases hs; exact EndInv_afterPush s w h hi hw ho
      · cases hs; exact EndInv_afterStrand s w h hi hw
    · cases hs
  | timeoutFire oid =>
    simp only [step?] at hs
    split at hs
    · split at hs
      · cases hs
      · split at hs
        · split at hs
          · rename_i w hf
            obtain ⟨hw, hq⟩ := find_waiter hf
            have hwo : w.oid = oid := by simpa using hq
            split at hs
            · cases hs
            · cases hs
              subst hwo
              exact EndInv_erase_complete s w _ _ _ h rfl (by intro m; nofun)
          · cases hs
        · split at hs
          · cases hs
          · cases hs; exact EndInv_complete _ _ _ _ h (by intro m; nofun)
        · cases hs
    · cases hs
  | recvReply oid =>
    simp only [step?] at hs
    split at hs
    · rename_i hc
      split at hs
      · rename_i hsent
        cases hs
        have hmem := h.sentEnded oid hsent
        refine ⟨h.closedIff, h.endedEmpty, ?_, ?_, h.pendingWhere, ?_⟩
        · simp only [complete_ev, List.append_nil, ri_append, riRun, List.foldl_cons, List.foldl_nil, C03.riStep]
          simp [h.riOk, hmem]
        · intro m hm
          simp only [complete_ev, List.append_nil, ri_append, riRun, List.foldl_cons, List.foldl_nil, C03.riStep]
          exact h.sentEnded m hm
        · intro o ho
          simp only [complete_client, complete_waiters] at ho ⊢
          by_cases hoo : o = oid
          · subst hoo; simp [setF] at ho
          · simp [setF, hoo] at ho; exact h.waitingHas o ho
      · cases hs; exact EndInv_complete _ _ _ _ h (by intro m; nofun)
      · split at hs
        · cases hs; exact EndInv_complete _ _ _ _ h (by intro m; nofun)
        · cases hs
    · cases hs
  | pollMail =>
    simp only [step?] at hs
    split at hs
    · rename_i hpc
      have hne : s.pc ≠ .ended := by rw [hpc]; nofun
      split at hs
      · split at hs
        · split at hs <;> cases hs
          · exact EndInv_actor s _ [_, _] h rfl rfl rfl hne nofun rfl rfl rfl rfl rfl (by intro m hm; rw [hpc] at hm; cases hm)
          · exact EndInv_actor s _ [_] h rfl rfl rfl hne nofun rfl rfl rfl rfl rfl (by intro m hm; rw [hpc] at hm; cases hm)
        · cases hs
          exact EndInv_actor0 s _ h rfl rfl hne nofun rfl rfl rfl rfl rfl (by intro m hm; rw [hpc] at hm; cases hm)
      · rename_i mid k rest heq
        cases hs
        refine ⟨?_, fun he => by simp at he, ?_, ?_, ?_, ?_⟩
        · simp only; constructor
          · intro hc; exact absurd (h.closedIff.mp hc) hne
          · intro he; cases he
        · show (riFold (s.ev ++ [_])).2 = true; rw [ri_append, riRun_neutral _ _ rfl]; exact h.riOk
        · intro m hm; show m ∈ (riFold (s.ev ++ [_])).1; rw [ri_append, riRun_neutral _ _ rfl]; exact h.sentEnded m hm
        · intro m hm
          rcases h.pendingWhere m hm with hq | hq | hq
          · rw [heq] at hq
            cases hq with
            | head => exact Or.inr (Or.inl rfl)
            | tail _ hq => exact Or.inl hq
          · rw [hpc] at hq; cases hq
          · exact Or.inr (Or.inr hq)
        · intro o ho; simp only; rw [oids_grantFirst]; exact h.waitingHas o ho
      · rename_i o rest heq
        split at hs <;> cases hs
        all_goals
          refine ⟨?_, fun he => by simp at he, ?_, ?_, ?_, ?_⟩
          · simp only; constructor
            · intro hc; exact absurd (h.closedIff.mp hc) hne
            · intro he; cases he
          · show (riFold (s.ev ++ _)).2 = true; rw [ri_append, riRun_neutral _ _ rfl]; exact h.riOk
          · intro m hm; show m ∈ (riFold (s.ev ++ _)).1; rw [ri_append, riRun_neutral _ _ rfl]; exact h.sentEnded m hm
          · intro m hm
            rcases h.pendingWhere m hm with hq | hq | hq
            · rw [heq] at hq
              cases hq with
              | tail _ hq => exact Or.inl hq
            · rw [hpc] at hq; cases hq
            · exact Or.inr (Or.inr hq)
          · intro o' ho; simp only; rw [oids_grantFirst]; exact h.waitingHas o' ho
    · cases hs
  | handlerDone =>
    simp only [step?] at hs
    split at hs
    · rename_i mid k hpc
      have hne : s.pc ≠ .ended := by rw [hpc]; nofun
      split at hs
      · split at hs
        · -- handler returns normally
          split at hs <;> cases hs
          · -- tell
            refine ⟨?_, fun he => by simp at he, ?_, ?_, ?_, h.waitingHas⟩
            · simp only; constructor
              · intro hc; exact absurd (h.closedIff.mp hc) hne
              · intro he; cases he
            · simp only [ri_append, riRun, List.foldl_cons, List.foldl_nil, C03.riStep]; exact h.riOk
            · intro m hm
              simp only [ri_append, riRun, List.foldl_cons, List.foldl_nil, C03.riStep]
              exact List.mem_cons_of_mem _ (h.sentEnded m hm)
            · intro m hm
              rcases h.pendingWhere m hm with hq | hq | hq
              · exact Or.inl hq
              · rw [hpc] at hq; cases hq
              · exact Or.inr (Or.inr hq)
          · -- ask: the reply is sent
            refine ⟨?_, fun he => by simp at he, ?_, ?_, ?_, h.waitingHas⟩
            · simp only; constructor
              · intro hc; exact absurd (h.closedIff.mp hc) hne
              · intro he; cases he
            · simp only [ri_append, riRun, List.foldl_cons, List.foldl_nil, C03.riStep]; exact h.riOk
            · intro m hm
              simp only [ri_append, riRun, List.foldl_cons, List.foldl_nil, C03.riStep]
              simp only [setF] at hm
              split at hm
              · rename_i hmm; subst hmm; exact List.mem_cons_self ..
              · exact List.mem_cons_of_mem _ (h.sentEnded m hm)
            · intro m hm
              simp only [setF] at hm
              split at hm
              · cases hm
              · rename_i hmm
                rcases h.pendingWhere m hm with hq | hq | hq
                · exact Or.inl hq
                · rw [hpc] at hq; cases hq; exact absurd rfl hmm
                · exact Or.inr (Or.inr hq)
        · -- handler panics
          cases hs
          cases k with
          | tell =>
            refine EndInv_finish _ _ _ (EndInv_of_eq h rfl rfl rfl rfl rfl rfl rfl rfl) rfl ?_
            intro m _ hq; simp only at hq; rw [hpc] at hq; cases hq
          | ask =>
            have hb : EndInv { s with gatePermits := s.gatePermits - 1, msgCount := s.msgCount + 1,
                                      reply := setF s.reply mid .dropped } := by
              refine ⟨h.closedIff, h.endedEmpty, h.riOk, ?_, ?_, h.waitingHas⟩
              · intro m hm
                simp only [setF] at hm
                split at hm
                · cases hm
                · exact h.sentEnded m hm
              · intro m hm
                simp only [setF] at hm
                split at hm
                · cases hm
                · exact h.pendingWhere m hm
            refine EndInv_finish _ _ _ hb rfl ?_
            intro m hm hq
            simp only at hq hm
            rw [hpc] at hq; cases hq
            simp [setF] at hm
      · cases hs
    · cases hs
  | startDone =>
    simp only [step?] at hs
    split at hs
    · rename_i hc
      have hpc := hc.1
      have hne : s.pc ≠ .ended := by rw [hpc]; nofun
      split at hs <;> cases hs
      · exact EndInv_actor s _ [_] h rfl rfl rfl hne nofun rfl rfl rfl rfl rfl (by intro m hm; rw [hpc] at hm; cases hm)
      · refine EndInv_finish _ _ _ (EndInv_of_eq h rfl rfl rfl rfl rfl rfl rfl rfl) rfl ?_
        intro m _ hq; simp only at hq; rw [hpc] at hq; cases hq
      · refine EndInv_finish _ _ _ (EndInv_of_eq h rfl rfl rfl rfl rfl rfl rfl rfl) rfl ?_
        intro m _ hq; simp only at hq; rw [hpc] at hq; cases hq
    · cases hs
  | stopDone =>
    simp only [step?] at hs
    split at hs
    · rename_i k r mk hpc
      split at hs
      · split at hs <;> cases hs
        all_goals
          refine EndInv_finish _ _ _ (EndInv_of_eq h rfl rfl rfl rfl rfl rfl rfl rfl) rfl ?_
          intro m _ hq; simp only at hq; rw [hpc] at hq; cases hq
      · cases hs
    · cases hs
  | pollTerm =>
    simp only [step?] at hs
    split at hs
    · rename_i hpc
      have hne : s.pc ≠ .ended := by rw [hpc]; nofun
      split at hs
      · cases hs
        exact EndInv_actor s _ [_, _] h rfl rfl rfl hne nofun rfl rfl rfl rfl rfl (by intro m hm; rw [hpc] at hm; cases hm)
      · split at hs <;> cases hs
        · exact EndInv_actor s _ [_] h rfl rfl rfl hne nofun rfl rfl rfl rfl rfl (by intro m hm; rw [hpc] at hm; cases hm)
        · exact EndInv_actor0 s _ h rfl rfl hne nofun rfl rfl rfl rfl rfl (by intro m hm; rw [hpc] at hm; cases hm)
    · cases hs
  | pollRun =>
    simp only [step?, Sys.runStep] at hs
    split at hs
    · rename_i hpc
      have hne : s.pc ≠ .ended := by rw [hpc]; nofun
      (repeat' split at hs) <;> (try cases hs)
      all_goals first
        | exact EndInv_actor0 s _ h rfl rfl hne nofun rfl rfl rfl rfl rfl (by intro m hm; rw [hpc] at hm; cases hm)
        | exact EndInv_actor s _ [_] h rfl rfl rfl hne nofun rfl rfl rfl rfl rfl (by intro m hm; rw [hpc] at hm; cases hm)
        | exact EndInv_actor s _ [_, _] h rfl rfl rfl hne nofun rfl rfl rfl rfl rfl (by intro m hm; rw [hpc] at hm; cases hm)
        | exact EndInv_actor2 s _ [_] [_] h rfl rfl rfl rfl hne nofun rfl rfl rfl rfl rfl (by intro m hm; rw [hpc] at hm; cases hm)
        | exact EndInv_actor2 s _ [_] [_, _] h rfl rfl rfl rfl hne nofun rfl rfl rfl rfl rfl (by intro m hm; rw [hpc] at hm; cases hm)
        | (refine EndInv_finish _ _ _ (EndInv_of_eq h rfl rfl rfl rfl rfl rfl rfl rfl) rfl ?_
           intro m _ hq; simp only at hq; rw [hpc] at hq; cases hq)
        | (refine EndInv_finish _ _ _ (EndInv_neutral s _ [_] h rfl rfl rfl rfl rfl rfl rfl rfl rfl) rfl ?_
           intro m _ hq; simp only at hq; rw [hpc] at hq; cases hq)
    · cases hs
  | wake =>
    simp only [step?] at hs
    split at hs
    · rename_i hpc
      cases hs
      exact EndInv_actor0 s _ h rfl rfl (by rw [hpc]; nofun) nofun rfl rfl rfl rfl rfl (by intro m hm; rw [hpc] at hm; cases hm)
    · cases hs
  | _ =>
    simp only [step?] at hs
    (repeat' split at hs) <;> (try cases hs)
    all_goals first
      | exact h
      | exact EndInv_of_eq h rfl rfl rfl rfl rfl rfl rfl rfl
      | exact EndInv_neutral s _ _ h rfl rfl rfl rfl rfl rfl rfl rfl rfl

end Rsactor.Model
