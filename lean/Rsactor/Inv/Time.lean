/- C10: a Timeout is returned only by timed operations and never before the deadline. -/
import Rsactor.Inv.Tactics
import Rsactor.Monitor

namespace Rsactor.Model
open Rsactor.Monitor

def TI (s : Sys) : Prop :=
  (∀ oid, s.nextOid ≤ oid → opOf s.ev oid = none) ∧
  (∀ oid, oid < s.nextOid → ∃ a, opOf s.ev oid = some ((s.spec oid).kind, (s.spec oid).timeout, a) ∧
      s.deadline oid = opDeadline a (s.spec oid)) ∧
  (∀ oid at_, Ev.ret oid .timeout at_ ∈ s.ev → ∃ d, s.deadline oid = some d ∧ d ≤ at_) ∧
  (∀ oid, s.nextOid ≤ oid → s.deadline oid = none)

def isNeutralT : Ev → Bool
  | .issued _ _ _ _ => false
  | .ret _ .timeout _ => false
  | _ => true

theorem issuedOf_neutral (chunk : List Ev) (oid : Nat) (hn : chunk.all isNeutralT = true) :
    chunk.findSome? (issuedOf oid) = none := by
  induction chunk with
  | nil => rfl
  | cons e es ih =>
    simp only [List.all_cons, Bool.and_eq_true] at hn
    simp only [List.findSome?_cons]
    cases e <;> simp_all [isNeutralT, issuedOf]

theorem opOf_append_neutral (ev chunk : List Ev) (oid : Nat) (hn : chunk.all isNeutralT = true) :
    opOf (ev ++ chunk) oid = opOf ev oid := by
  unfold opOf
  rw [List.findSome?_append, issuedOf_neutral _ _ hn]; simp

theorem mem_timeout_neutral (ev chunk : List Ev) (oid at_ : Nat) (hn : chunk.all isNeutralT = true)
    (h : Ev.ret oid .timeout at_ ∈ ev ++ chunk) : Ev.ret oid .timeout at_ ∈ ev := by
  rcases List.mem_append.mp h with h | h
  · exact h
  · have := List.all_eq_true.mp hn _ h
    simp [isNeutralT] at this

theorem TI_neutral (s s' : Sys) (chunk : List Ev) (h : TI s)
    (hev : s'.ev = s.ev ++ chunk) (hsp : s'.spec = s.spec) (hdl : s'.deadline = s.deadline)
    (hno : s'.nextOid = s.nextOid) (hn : chunk.all isNeutralT = true) : TI s' := by
  obtain ⟨h1, h2, h3, h4⟩ := h
  refine ⟨?_, ?_, ?_, ?_⟩
  · intro oid ho; rw [hev, opOf_append_neutral _ _ _ hn]; exact h1 oid (hno ▸ ho)
  · intro oid ho; rw [hev, opOf_append_neutral _ _ _ hn, hsp, hdl]; exact h2 oid (hno ▸ ho)
  · intro oid at_ hm; rw [hdl]; rw [hev] at hm; exact h3 oid at_ (mem_timeout_neutral _ _ _ _ hn hm)
  · intro oid ho; rw [hdl]; exact h4 oid (hno ▸ ho)

theorem TI_of_eq {s s' : Sys} (h : TI s) (hev : s'.ev = s.ev) (hsp : s'.spec = s.spec)
    (hdl : s'.deadline = s.deadline) (hno : s'.nextOid = s.nextOid) : TI s' :=
  TI_neutral s s' [] h (by simp [hev]) hsp hdl hno rfl

theorem TI_neutral2 (s s' : Sys) (c1 c2 : List Ev) (h : TI s)
    (hev : s'.ev = (s.ev ++ c1) ++ c2) (hsp : s'.spec = s.spec) (hdl : s'.deadline = s.deadline)
    (hno : s'.nextOid = s.nextOid) (h1 : c1.all isNeutralT = true) (h2 : c2.all isNeutralT = true) : TI s' :=
  TI_neutral s s' (c1 ++ c2) h (by rw [hev, List.append_assoc]) hsp hdl hno (by simp [List.all_append, h1, h2])

/-- `complete` with a result other than Timeout -/
theorem TI_complete (s : Sys) (oid : Nat) (r : Res) (why : Option Reason) (h : TI s) (hr : r ≠ .timeout) :
    TI (s.complete oid r why) := by
  cases why with
  | none =>
    exact TI_neutral s _ [Ev.ret oid r s.clock] h (by simp [complete_ev]) rfl rfl rfl
      (by cases r <;> simp_all [isNeutralT])
  | some w =>
    exact TI_neutral s _ [Ev.dead oid w, Ev.ret oid r s.clock] h (by simp [complete_ev]) rfl rfl rfl
      (by cases r <;> simp_all [isNeutralT])

/-- `complete` with Timeout needs the deadline to have passed -/
theorem TI_complete_timeout (s : Sys) (oid : Nat) (why : Option Reason) (d : Nat) (h : TI s)
    (hd : s.deadline oid = some d) (hc : d ≤ s.clock) : TI (s.complete oid .timeout why) := by
  obtain ⟨h1, h2, h3, h4⟩ := h
  have hio : ∀ o, opOf (s.complete oid .timeout why).ev o = opOf s.ev o := by
    intro o
    cases why <;> simp [complete_ev, opOf, List.findSome?_append, List.findSome?_cons, issuedOf]
  refine ⟨?_, ?_, ?_, h4⟩
  · intro o ho; rw [hio]; exact h1 o ho
  · intro o ho; rw [hio]; exact h2 o ho
  · intro o at_ hm
    cases why <;> simp [complete_ev] at hm
    all_goals (rcases hm with hm | hm
               · exact h3 o at_ hm
               · obtain ⟨rfl, rfl⟩ := hm; exact ⟨d, hd, hc⟩)

theorem TI_finish (s : Sys) (o : Outcome) (evs : List Ev) (h : TI s)
    (hn : evs.all isNeutralT = true) : TI (s.finish o evs) :=
  TI_neutral s _ (evs ++ [.joined o]) h (by simp) rfl rfl rfl (by simp [hn, isNeutralT])

theorem TI_failSend (s : Sys) (oid : Nat) (it : Item) (h : TI s) : TI (s.failSend oid it) := by
  cases it <;> exact TI_complete _ _ _ _ h (by simp)

theorem TI_afterPush (s : Sys) (it : Item) (h : TI s) : TI (s.afterPush it) := by
  have hb : TI { s with mbox := s.mbox ++ [it], accepted := s.accepted ++ [it],
                        ev := s.ev ++ [.accepted it.oid s.accepted.length] } :=
    TI_neutral s _ _ h rfl rfl rfl rfl rfl
  cases it with
  | env mid k =>
    cases k
    · exact TI_complete _ _ _ _ hb (by simp)
    · exact TI_of_eq hb rfl rfl rfl rfl
  | stop o => exact TI_complete _ _ _ _ hb (by simp)

theorem TI_afterStrand (s : Sys) (it : Item) (h : TI s) : TI (s.afterStrand it) := by
  have hb : TI { s with stranded := s.stranded ++ [it] } := TI_of_eq h rfl rfl rfl rfl
  cases it with
  | env mid k =>
    cases k
    · exact TI_complete _ _ _ _ hb (by simp)
    · exact TI_of_eq hb rfl rfl rfl rfl
  | stop o => exact TI_complete _ _ _ _ hb (by simp)

/-- the state right after `issue` allocated the operation id and logged `issued` -/
theorem TI_issue (s : Sys) (op : OpSpec) (h : TI s) :
    TI { s with nextOid := s.nextOid + 1, spec := setF s.spec s.nextOid op,
                deadline := setF s.deadline s.nextOid (opDeadline s.clock op),
                inflight := s.inflight + 1,
                ev := s.ev ++ [.issued s.nextOid op.kind op.timeout s.clock] } := by
  obtain ⟨h1, h2, h3, h4⟩ := h
  refine ⟨?_, ?_, ?_, ?_⟩
  · intro o ho
    simp only at ho
    have : opOf s.ev o = none := h1 o (by omega)
    simp only [opOf, List.findSome?_append, List.findSome?_cons, issuedOf] at this ⊢
    rw [this]
    have hne : s.nextOid ≠ o := by omega
    simp [hne]
  · intro o ho
    simp only at ho
    by_cases hon : o = s.nextOid
    · subst hon
      refine ⟨s.clock, ?_, ?_⟩
      · have : opOf s.ev s.nextOid = none := h1 _ (Nat.le_refl _)
        simp only [opOf, List.findSome?_append, List.findSome?_cons, issuedOf] at this ⊢
        rw [this]; simp [setF]
      · simp [setF]
    · obtain ⟨a, ha1, ha2⟩ := h2 o (by omega)
      refine ⟨a, ?_, ?_⟩
      · simp only [opOf, List.findSome?_append] at ha1 ⊢
        rw [ha1]; simp [setF, hon]
      · simp [setF, hon, ha2]
  · intro o at_ hm
    simp only [List.mem_append, List.mem_singleton] at hm
    rcases hm with hm | hm
    · obtain ⟨d, hd, hle⟩ := h3 o at_ hm
      have hon : o ≠ s.nextOid := by
        intro he; subst he; rw [h4 _ (Nat.le_refl _)] at hd; cases hd
      exact ⟨d, by simp [setF, hon, hd], hle⟩
    · cases hm
  · intro o ho
    simp only at ho
    have hon : o ≠ s.nextOid := by omega
    simp [setF, hon, h4 o (by omega)]

theorem TI_init (cap : Nat) (sc : Script) : TI (init cap sc) := by
  refine ⟨?_, ?_, ?_, ?_⟩ <;> simp [init, opOf]

theorem TI_step (s s' : Sys) (l : Label) (h : TI s) (hs : step? s l = some s') : TI s' := by
  step_cases l hs
  all_goals first
    | exact h
    | exact TI_of_eq h rfl rfl rfl rfl
    | exact TI_neutral s _ _ h rfl rfl rfl rfl rfl
    | exact TI_neutral2 s _ _ _ h rfl rfl rfl rfl rfl rfl
    | exact TI_finish _ _ _ h rfl
    | exact TI_finish _ _ _ (TI_of_eq h rfl rfl rfl rfl) rfl
    | exact TI_finish _ _ _ (TI_neutral s _ _ h rfl rfl rfl rfl rfl) rfl
    | (have hd := ‹s.deadline _ = some _›; have hc := ‹¬ s.clock < _›
       first
       | exact TI_complete_timeout _ _ _ _ h hd (Nat.le_of_not_lt hc)
       | exact TI_complete_timeout _ _ _ _ (TI_of_eq h rfl rfl rfl rfl) hd (Nat.le_of_not_lt hc))
    | exact TI_complete _ _ _ _ h nofun
    | exact TI_complete _ _ _ _ (TI_of_eq h rfl rfl rfl rfl) nofun
    | exact TI_complete _ _ _ _ (TI_issue s _ h) nofun
    | exact TI_complete _ _ _ _ (TI_of_eq (TI_issue s _ h) rfl rfl rfl rfl) nofun
    | exact TI_failSend _ _ _ (TI_of_eq h rfl rfl rfl rfl)
    | exact TI_failSend _ _ _ (TI_issue s _ h)
    | exact TI_of_eq (TI_issue s _ h) rfl rfl rfl rfl
    | exact TI_afterPush _ _ (TI_of_eq h rfl rfl rfl rfl)
    | exact TI_afterStrand _ _ (TI_of_eq h rfl rfl rfl rfl)
    | (split <;> first
        | exact TI_complete _ _ _ _ (TI_issue s _ h) nofun
        | exact TI_complete _ _ _ _ (TI_of_eq (TI_issue s _ h) rfl rfl rfl rfl) nofun)
    | trace_state

end Rsactor.Model
