/- C19: in every run a handler that returns is followed at once by exactly one of tellResult / replySent
   (which one is decided by the kind held in the program counter), and these events occur nowhere else. -/
import Rsactor.Inv.Tactics
import Rsactor.Monitor

namespace Rsactor.Model
open Rsactor.Monitor

def trPhOf : Pc → C19.Ph
  | .inHandler m _ => .inH m
  | _ => .idle

def trFold (ev : List Ev) : Option C19.Ph :=
  ev.foldl (fun (st : Option C19.Ph) e => st.bind (fun ph => C19.step ph e)) (some .idle)

def trRun (st : Option C19.Ph) (chunk : List Ev) : Option C19.Ph :=
  chunk.foldl (fun (st : Option C19.Ph) e => st.bind (fun ph => C19.step ph e)) st

theorem trFold_append (ev chunk : List Ev) : trFold (ev ++ chunk) = trRun (trFold ev) chunk := by
  simp [trFold, trRun, List.foldl_append]

def TRInv (s : Sys) : Prop := trFold s.ev = some (trPhOf s.pc)

/-- events outside the automaton's alphabet -/
def isSilentTR : Ev → Bool
  | .handlerStart _ | .handlerEnd _ _ | .tellResult _ | .replySent _ => false
  | _ => true

/-- silent events keep the phase, provided the automaton is not waiting for the result event -/
def notEnded : C19.Ph → Bool | .ended _ => false | _ => true

theorem trPhOf_notEnded (pc : Pc) : notEnded (trPhOf pc) = true := by cases pc <;> rfl

theorem trRun_silent (ph : C19.Ph) (chunk : List Ev) (hne : notEnded ph = true) (hn : chunk.all isSilentTR = true) :
    trRun (some ph) chunk = some ph := by
  induction chunk with
  | nil => rfl
  | cons e es ih =>
    simp only [List.all_cons, Bool.and_eq_true] at hn
    have : C19.step ph e = some ph := by cases e <;> cases ph <;> simp_all [isSilentTR, C19.step, notEnded]
    simp only [trRun, List.foldl_cons, Option.bind_some, this] at ih ⊢
    exact ih hn.2

theorem TRInv_chunk (s s' : Sys) (chunk : List Ev) (h : TRInv s) (hev : s'.ev = s.ev ++ chunk)
    (hc : trRun (some (trPhOf s.pc)) chunk = some (trPhOf s'.pc)) : TRInv s' := by
  unfold TRInv at *
  rw [hev, trFold_append, h, hc]

theorem TRInv_silent (s s' : Sys) (chunk : List Ev) (h : TRInv s) (hev : s'.ev = s.ev ++ chunk)
    (hpc : s'.pc = s.pc) (hn : chunk.all isSilentTR = true) : TRInv s' :=
  TRInv_chunk s s' chunk h hev (by rw [hpc]; exact trRun_silent _ _ (trPhOf_notEnded _) hn)

theorem TRInv_of_eq {s s' : Sys} (h : TRInv s) (hev : s'.ev = s.ev) (hpc : s'.pc = s.pc) : TRInv s' :=
  TRInv_silent s s' [] h (by simp [hev]) hpc rfl

theorem TRInv_pc {s s' : Sys} (h : TRInv s) (hev : s'.ev = s.ev) (hph : trPhOf s'.pc = trPhOf s.pc) : TRInv s' := by
  unfold TRInv at *; rw [hev, hph]; exact h

theorem TRInv_chunk2 (s s' : Sys) (c1 c2 : List Ev) (h : TRInv s) (hev : s'.ev = (s.ev ++ c1) ++ c2)
    (hc : trRun (some (trPhOf s.pc)) (c1 ++ c2) = some (trPhOf s'.pc)) : TRInv s' :=
  TRInv_chunk s s' (c1 ++ c2) h (by rw [hev, List.append_assoc]) hc

theorem TRInv_complete (s : Sys) (oid : Nat) (r : Res) (why : Option Reason) (h : TRInv s) :
    TRInv (s.complete oid r why) := by
  cases why with
  | none => exact TRInv_silent s _ [Ev.ret oid r s.clock] h (by simp [complete_ev]) rfl rfl
  | some w => exact TRInv_silent s _ [Ev.dead oid w, Ev.ret oid r s.clock] h (by simp [complete_ev]) rfl rfl

theorem TRInv_failSend (s : Sys) (oid : Nat) (it : Item) (h : TRInv s) : TRInv (s.failSend oid it) := by
  cases it <;> simp only [Sys.failSend] <;> exact TRInv_complete _ _ _ _ h

theorem TRInv_afterPush (s : Sys) (it : Item) (h : TRInv s) : TRInv (s.afterPush it) := by
  have hb : TRInv { s with mbox := s.mbox ++ [it], accepted := s.accepted ++ [it],
                             ev := s.ev ++ [.accepted it.oid s.accepted.length] } :=
    TRInv_silent s _ _ h rfl rfl rfl
  cases it with
  | env mid k =>
    cases k
    · exact TRInv_complete _ _ _ _ hb
    · exact TRInv_of_eq hb rfl rfl
  | stop o => exact TRInv_complete _ _ _ _ hb

theorem TRInv_afterStrand (s : Sys) (it : Item) (h : TRInv s) : TRInv (s.afterStrand it) := by
  have hb : TRInv { s with stranded := s.stranded ++ [it] } := TRInv_of_eq h rfl rfl
  cases it with
  | env mid k =>
    cases k
    · exact TRInv_complete _ _ _ _ hb
    · exact TRInv_of_eq hb rfl rfl
  | stop o => exact TRInv_complete _ _ _ _ hb

/-- the actor ends: its last events lead the automaton to `dead`, then `joined` -/
theorem TRInv_finish (s : Sys) (o : Outcome) (evs : List Ev) (h : TRInv s)
    (hc : trRun (some (trPhOf s.pc)) evs = some .idle) : TRInv (s.finish o evs) := by
  apply TRInv_chunk s _ (evs ++ [.joined o]) h (by simp)
  simp only [trRun, List.foldl_append] at hc ⊢
  rw [hc]; rfl

theorem TRInv_init (cap : Nat) (sc : Script) : TRInv (init cap sc) := rfl

theorem TRInv_step (s s' : Sys) (l : Label) (h : TRInv s) (hs : step? s l = some s') : TRInv s' := by
  step_cases l hs
  all_goals first
    | exact h
    | exact TRInv_of_eq h rfl rfl
    | exact TRInv_silent s _ _ h rfl rfl rfl
    | exact TRInv_complete _ _ _ _ h
    | exact TRInv_complete _ _ _ _ (TRInv_of_eq h rfl rfl)
    | exact TRInv_complete _ _ _ _ (TRInv_silent s _ _ h rfl rfl rfl)
    | exact TRInv_failSend _ _ _ (TRInv_of_eq h rfl rfl)
    | exact TRInv_failSend _ _ _ (TRInv_silent s _ _ h rfl rfl rfl)
    | exact TRInv_afterPush _ _ (TRInv_of_eq h rfl rfl)
    | exact TRInv_afterStrand _ _ (TRInv_of_eq h rfl rfl)
    | (split <;> exact TRInv_complete _ _ _ _ (TRInv_silent s _ _ h rfl rfl rfl))
    | (refine TRInv_chunk s _ _ h rfl ?_; simp [*, trPhOf, trRun, C19.step]; done)
    | (refine TRInv_finish _ _ _ h ?_; simp [*, trPhOf, trRun, C19.step]; done)
    | (refine TRInv_finish _ _ _ (TRInv_of_eq h rfl rfl) ?_; simp [*, trPhOf, trRun, C19.step]; done)
    | (refine TRInv_finish _ _ _ (TRInv_silent s _ _ h rfl rfl rfl) ?_; simp [*, trPhOf, trRun, C19.step]; done)
    | (refine TRInv_pc h rfl ?_; simp [*, trPhOf]; done)
    | (refine TRInv_chunk2 s _ _ _ h rfl ?_; simp [*, trPhOf, trRun, C19.step]; done)
    | (refine TRInv_finish _ _ _ (TRInv_chunk s _ [_] h rfl (by simp [*, trPhOf, trRun, C19.step])) ?_
       simp [*, trPhOf, trRun, C19.step]; done)
    | trace_state

end Rsactor.Model
