/- C01 `rejected_never`: an operation that returned Send (or a tell that returned Timeout) has not been
   accepted and is no longer queued for a permit, hence can never be accepted or handled. -/
import Rsactor.Inv.Ids

namespace Rsactor.Model
open Rsactor.Monitor

def keysOf (s : Sys) : List Nat := (wkeys s.waiters).map (·.1)

/-- operation `oid` was rejected according to the history -/
def Rejected (s : Sys) (oid : Nat) : Prop :=
  ∃ a, Ev.ret oid .send a ∈ s.ev ∨ (Ev.ret oid .timeout a ∈ s.ev ∧ (s.spec oid).kind = .tell)

structure RejInv (s : Sys) : Prop where
  askKind : ∀ oid, s.client oid = .awaiting → (s.spec oid).kind = .ask
  rej : ∀ oid, Rejected s oid → oid ∉ accOids s ∧ oid ∉ keysOf s

def noRej : Ev → Bool
  | .ret _ .send _ => false
  | .ret _ .timeout _ => false
  | _ => true

theorem mem_rej_neutral {ev chunk : List Ev} {oid a : Nat} {r : Res} (hn : chunk.all noRej = true)
    (hr : r = .send ∨ r = .timeout) (h : Ev.ret oid r a ∈ ev ++ chunk) : Ev.ret oid r a ∈ ev := by
  rcases List.mem_append.mp h with h | h
  · exact h
  · have := List.all_eq_true.mp hn _ h
    rcases hr with rfl | rfl <;> simp [noRej] at this

theorem RejInv_neutral (s s' : Sys) (chunk : List Ev) (h : RejInv s)
    (hev : s'.ev = s.ev ++ chunk) (ha : s'.accepted = s.accepted) (hw : wkeys s'.waiters = wkeys s.waiters)
    (hsp : s'.spec = s.spec) (hc : s'.client = s.client) (hn : chunk.all noRej = true) : RejInv s' :=
  { askKind := by rw [hc, hsp]; exact h.askKind
    rej := by
      intro oid ⟨a, hr⟩
      have : Rejected s oid := by
        refine ⟨a, ?_⟩
        rw [hev, hsp] at hr
        rcases hr with hr | ⟨hr, hk⟩
        · exact Or.inl (mem_rej_neutral hn (Or.inl rfl) hr)
        · exact Or.inr ⟨mem_rej_neutral hn (Or.inr rfl) hr, hk⟩
      simpa [accOids, keysOf, ha, hw] using h.rej oid this }

theorem RejInv_of_eq {s s' : Sys} (h : RejInv s) (hev : s'.ev = s.ev) (ha : s'.accepted = s.accepted)
    (hw : wkeys s'.waiters = wkeys s.waiters) (hsp : s'.spec = s.spec) (hc : s'.client = s.client) : RejInv s' :=
  RejInv_neutral s s' [] h (by simp [hev]) ha hw hsp hc rfl

theorem RejInv_neutral2 (s s' : Sys) (c1 c2 : List Ev) (h : RejInv s)
    (hev : s'.ev = (s.ev ++ c1) ++ c2) (ha : s'.accepted = s.accepted) (hw : wkeys s'.waiters = wkeys s.waiters)
    (hsp : s'.spec = s.spec) (hc : s'.client = s.client)
    (h1 : c1.all noRej = true) (h2 : c2.all noRej = true) : RejInv s' :=
  RejInv_neutral s s' (c1 ++ c2) h (by rw [hev, List.append_assoc]) ha hw hsp hc
    (by simp [List.all_append, h1, h2])

theorem RejInv_finish (s : Sys) (o : Outcome) (evs : List Ev) (h : RejInv s)
    (hn : evs.all noRej = true) : RejInv (s.finish o evs) :=
  RejInv_neutral s _ (evs ++ [.joined o]) h (by simp) rfl rfl rfl rfl (by simp [hn, noRej])

theorem mem_complete_ev {s : Sys} {oid : Nat} {r : Res} {why : Option Reason} {o a : Nat} {r' : Res}
    (hm : Ev.ret o r' a ∈ (s.complete oid r why).ev) : Ev.ret o r' a ∈ s.ev ∨ (o = oid ∧ r' = r) := by
  cases why <;> simp [complete_ev] at hm
  all_goals (rcases hm with hm | hm
             · exact Or.inl hm
             · exact Or.inr ⟨hm.1, hm.2.1⟩)

/-- `complete`: a rejecting result needs the operation to be neither accepted nor queued -/
theorem RejInv_complete (s : Sys) (oid : Nat) (r : Res) (why : Option Reason) (h : RejInv s)
    (hr : (r = .send ∨ (r = .timeout ∧ (s.spec oid).kind = .tell)) → oid ∉ accOids s ∧ oid ∉ keysOf s) :
    RejInv (s.complete oid r why) :=
  { askKind := by
      intro o ho
      simp only [complete_client, complete_spec] at ho ⊢
      by_cases hoo : o = oid
      · subst hoo; simp [setF] at ho
      · simp [setF, hoo] at ho; exact h.askKind o ho
    rej := by
      intro o ⟨a, hm⟩
      show o ∉ accOids s ∧ o ∉ keysOf s
      rcases hm with hm | ⟨hm, hk⟩
      · rcases mem_complete_ev hm with hm | ⟨rfl, hre⟩
        · exact h.rej o ⟨a, Or.inl hm⟩
        · exact hr (Or.inl hre.symm)
      · rcases mem_complete_ev hm with hm | ⟨rfl, hre⟩
        · exact h.rej o ⟨a, Or.inr ⟨hm, hk⟩⟩
        · exact hr (Or.inr ⟨hre.symm, hk⟩) }

theorem RejInv_failSend (s : Sys) (oid : Nat) (it : Item) (h : RejInv s)
    (hr : oid ∉ accOids s ∧ oid ∉ keysOf s) : RejInv (s.failSend oid it) := by
  cases it <;> simp only [Sys.failSend] <;> exact RejInv_complete _ _ _ _ h (fun _ => hr)

theorem opItem_ask {oid mid : Nat} {k : OpKind} (h : opItem oid k = some (.env mid .ask)) : k = .ask := by
  cases k <;> simp [opItem] at h <;> rfl

theorem rejected_lt (s : Sys) (hi : IdsInv s) {oid : Nat} (h : Rejected s oid) : oid < s.nextOid := by
  obtain ⟨a, h | ⟨h, _⟩⟩ := h <;> exact hi.retLt _ _ _ h

theorem RejInv_issue (s : Sys) (op : OpSpec) (h : RejInv s) (hi : IdsInv s) : RejInv (issueBase s op) :=
  { askKind := by
      intro o ho
      simp only [issueBase] at ho ⊢
      have hlt := client_lt s hi o (by rw [ho]; nofun)
      have : o ≠ s.nextOid := by omega
      simpa [setF, this] using h.askKind o ho
    rej := by
      intro o ⟨a, hm⟩
      show o ∉ accOids s ∧ o ∉ keysOf s
      simp only [issueBase, List.mem_append, List.mem_singleton] at hm
      have key : ∀ r, (Ev.ret o r a ∈ s.ev ∨ Ev.ret o r a = Ev.issued s.nextOid op.kind op.timeout s.clock) →
          Ev.ret o r a ∈ s.ev := by
        intro r hh; rcases hh with hh | hh
        · exact hh
        · cases hh
      rcases hm with hm | ⟨hm, hk⟩
      · exact h.rej o ⟨a, Or.inl (key _ hm)⟩
      · have hm' := key _ hm
        have hlt := hi.retLt _ _ _ hm'
        have : o ≠ s.nextOid := by omega
        exact h.rej o ⟨a, Or.inr ⟨hm', by simpa [setF, this] using hk⟩⟩ }

theorem rejected_issue_ne (s : Sys) (op : OpSpec) (hi : IdsInv s) (o : Nat)
    (hr : Rejected (issueBase s op) o) : o ≠ s.nextOid := by
  obtain ⟨a, hr⟩ := hr
  simp only [issueBase, List.mem_append, List.mem_singleton] at hr
  have : ∃ r, Ev.ret o r a ∈ s.ev := by
    rcases hr with hr | ⟨hr, _⟩ <;> rcases hr with hr | hr
    · exact ⟨_, hr⟩
    · cases hr
    · exact ⟨_, hr⟩
    · cases hr
  obtain ⟨r, hr⟩ := this
  have := hi.retLt _ _ _ hr; omega

theorem RejInv_addWaiter (b : Sys) (n : Nat) (it : Item) (g a : Bool) (cst : CSt) (h : RejInv b)
    (hc : cst ≠ .awaiting) (hfresh : ∀ o, Rejected b o → o ≠ n) :
    RejInv { b with waiters := b.waiters ++ [⟨n, it, g, a⟩], client := setF b.client n cst } :=
  { askKind := by
      intro o ho
      simp only at ho ⊢
      by_cases hon : o = n
      · subst hon; simp [setF] at ho; exact absurd ho hc
      · simp [setF, hon] at ho; exact h.askKind o ho
    rej := by
      intro o hr
      have hr' : Rejected b o := hr
      obtain ⟨r1, r2⟩ := h.rej o hr'
      refine ⟨r1, ?_⟩
      simp only [keysOf, wkeys_append, List.map_append, List.mem_append, not_or]
      exact ⟨r2, by simp [wkeys]; exact hfresh o hr'⟩ }

theorem RejInv_erase (s : Sys) (w : Waiter) (h : RejInv s) : RejInv { s with waiters := s.waiters.erase w } :=
  { askKind := h.askKind
    rej := by
      intro o hr
      obtain ⟨r1, r2⟩ := h.rej o hr
      exact ⟨r1, fun hm => r2 ((List.Sublist.map _ (wkeys_erase_sublist s.waiters w)).subset hm)⟩ }

theorem erase_oid_notin (s : Sys) (hi : IdsInv s) {w : Waiter} (hw : w ∈ s.waiters) :
    w.oid ∉ accOids s ∧ w.oid ∉ keysOf { s with waiters := s.waiters.erase w } := by
  have hk : (w.oid, w.item) ∈ wkeys s.waiters := by
    simp only [wkeys, List.mem_map]; exact ⟨w, hw, rfl⟩
  refine ⟨(hi.wOk _ hk).2.2.1, ?_⟩
  intro hm
  simp only [keysOf, List.mem_map] at hm
  obtain ⟨p, hp, hpe⟩ := hm
  exact erase_key_ne hi.wNodup hw hp hpe

/-- a waiter's item enters the mailbox (or the dead channel) -/
theorem RejInv_afterPush (s : Sys) (w : Waiter) (h : RejInv s) (hi : IdsInv s) (hw : w ∈ s.waiters) :
    RejInv ({ s with waiters := s.waiters.erase w }.afterPush w.item) := by
  have hk : (w.oid, w.item) ∈ wkeys s.waiters := by
    simp only [wkeys, List.mem_map]; exact ⟨w, hw, rfl⟩
  obtain ⟨k1, k2, k3, k4⟩ := hi.wOk _ hk
  simp only at k1 k2 k3 k4
  have hnotrej : ¬ Rejected s w.oid := by
    intro hr
    apply (h.rej _ hr).2
    simp only [keysOf, List.mem_map]
    exact ⟨_, hk, rfl⟩
  have hb : RejInv { s with waiters := s.waiters.erase w, mbox := s.mbox ++ [w.item],
                            accepted := s.accepted ++ [w.item],
                            ev := s.ev ++ [.accepted w.item.oid s.accepted.length] } :=
    { askKind := h.askKind
      rej := by
        intro o ⟨a, hm⟩
        have hr : Rejected s o := by
          refine ⟨a, ?_⟩
          simp only [List.mem_append, List.mem_singleton] at hm
          rcases hm with hm | ⟨hm, hk⟩
          · rcases hm with hm | hm
            · exact Or.inl hm
            · cases hm
          · rcases hm with hm | hm
            · exact Or.inr ⟨hm, hk⟩
            · cases hm
        obtain ⟨r1, r2⟩ := (RejInv_erase s w h).rej o hr
        refine ⟨?_, r2⟩
        simp only [accOids, List.map_append, List.map_cons, List.map_nil, List.mem_append,
          List.mem_singleton, not_or]
        refine ⟨r1, ?_⟩
        rw [k1]; intro he; subst he; exact hnotrej hr }
  cases hit : w.item with
  | env mid k =>
    rw [hit] at hb k1 k4
    simp only [Item.oid] at hb k1
    cases k
    · simp only [Sys.afterPush, Item.oid]; exact RejInv_complete _ _ _ _ hb (by simp)
    · simp only [Sys.afterPush, Item.oid]
      exact {
        askKind := by
          intro o ho
          simp only at ho ⊢
          by_cases hom : o = mid
          · subst hom; rw [k1]; rw [k1] at k4; exact opItem_ask k4
          · simp [setF, hom] at ho; exact h.askKind o ho
        rej := hb.rej }
  | stop o =>
    rw [hit] at hb
    simp only [Item.oid] at hb
    simp only [Sys.afterPush, Item.oid]; exact RejInv_complete _ _ _ _ hb (by simp)

theorem RejInv_afterStrand (s : Sys) (w : Waiter) (h : RejInv s) (hi : IdsInv s) (hw : w ∈ s.waiters) :
    RejInv ({ s with waiters := s.waiters.erase w }.afterStrand w.item) := by
  have hk : (w.oid, w.item) ∈ wkeys s.waiters := by
    simp only [wkeys, List.mem_map]; exact ⟨w, hw, rfl⟩
  obtain ⟨k1, k2, k3, k4⟩ := hi.wOk _ hk
  simp only at k1 k2 k3 k4
  have hb : RejInv { s with waiters := s.waiters.erase w, stranded := s.stranded ++ [w.item] } :=
    RejInv_of_eq (RejInv_erase s w h) rfl rfl rfl rfl rfl
  cases hit : w.item with
  | env mid k =>
    rw [hit] at hb k1 k4
    simp only [Item.oid] at k1
    cases k
    · simp only [Sys.afterStrand]; exact RejInv_complete _ _ _ _ hb (by simp)
    · simp only [Sys.afterStrand]
      exact {
        askKind := by
          intro o ho
          simp only at ho ⊢
          by_cases hom : o = mid
          · subst hom; rw [k1]; rw [k1] at k4; exact opItem_ask k4
          · simp [setF, hom] at ho; exact h.askKind o ho
        rej := hb.rej }
  | stop o =>
    rw [hit] at hb
    simp only [Sys.afterStrand]; exact RejInv_complete _ _ _ _ hb (by simp)

theorem RejInv_init (cap : Nat) (sc : Script) : RejInv (init cap sc) :=
  { askKind := by simp [init], rej := by intro o ⟨a, h⟩; simp [init] at h }

theorem RejInv_step (s s' : Sys) (l : Label) (h : RejInv s) (hi : IdsInv s)
    (hs : step? s l = some s') : RejInv s' := by
  cases l with
  | issue hd op =>
    simp only [step?, Sys.issue] at hs
    have hb := RejInv_issue s op h hi
    have hfreshA : s.nextOid ∉ accOids s := by
      intro hm; simp only [accOids, List.mem_map] at hm
      obtain ⟨i, hi', hio⟩ := hm; have := hi.accLt i hi'; omega
    have hfreshW : s.nextOid ∉ keysOf s := by
      intro hm; simp only [keysOf, List.mem_map] at hm
      obtain ⟨p, hp, hpe⟩ := hm; have := (hi.wOk p hp).2.1; omega
    split at hs
    · split at hs
      · cases hs
        split
        · exact RejInv_complete _ _ _ _ (RejInv_of_eq hb rfl rfl rfl rfl rfl) (by simp)
        · exact RejInv_complete _ _ _ _ hb (by simp)
      · rename_i it hit
        split at hs
        · cases hs; exact RejInv_failSend _ _ _ hb ⟨hfreshA, hfreshW⟩
        · split at hs <;> cases hs <;>
            exact RejInv_addWaiter _ s.nextOid it _ _ .waiting hb nofun (rejected_issue_ne s op hi)
    · cases hs
  | grantWake oid =>
    simp only [step?] at hs
    split at hs
    · rename_i w hf
      obtain ⟨hw, hq⟩ := find_waiter hf
      have hwo : w.oid = oid := by simp at hq; exact hq.1
      split at hs
      · cases hs
        exact RejInv_failSend _ _ _ (RejInv_erase s w h) (hwo ▸ erase_oid_notin s hi hw)
      · split at hs
        · cases hs; exact RejInv_of_eq h rfl rfl (wkeys_map_acq _ _) rfl rfl
        · cases hs
    · cases hs
  | push oid =>
    simp only [step?] at hs
    split at hs
    · rename_i w hf
      obtain ⟨hw, _⟩ := find_waiter hf
      split at hs <;> cases hs
      · exact RejInv_afterPush s w h hi hw
      · exact RejInv_afterStrand s w h hi hw
    · cases hs
  | timeoutFire oid =>
    simp only [step?] at hs
    split at hs
    · split at hs
      · cases hs
      · split at hs
        · split at hs
          · rename_i w hf
            obtain ⟨hw, hq⟩ := find_waiter hf
            have hwo : w.oid = oid := by simpa using hq
            split at hs
            · cases hs
            · cases hs
              refine RejInv_complete _ _ _ _ (RejInv_erase s w h) (fun _ => ?_)
              have := erase_oid_notin s hi hw
              rw [hwo] at this
              exact this
          · cases hs
        · rename_i hc
          split at hs
          · cases hs
          · cases hs
            refine RejInv_complete _ _ _ _ h (fun hr => ?_)
            rcases hr with hr | ⟨_, hk⟩
            · cases hr
            · have := h.askKind oid hc; rw [this] at hk; cases hk
        · cases hs
    · cases hs
  | recvReply oid =>
    simp only [step?] at hs
    split at hs
    · split at hs
      · cases hs; exact RejInv_complete _ _ _ _ h (by simp)
      · cases hs; exact RejInv_complete _ _ _ _ h (by simp)
      · split at hs
        · cases hs; exact RejInv_complete _ _ _ _ h (by simp)
        · cases hs
    · cases hs
  | pollMail =>
    simp only [step?] at hs
    (repeat' split at hs) <;> (try cases hs)
    all_goals first
      | exact RejInv_of_eq h rfl rfl rfl rfl rfl
      | exact RejInv_neutral s _ _ h rfl rfl rfl rfl rfl rfl
      | exact RejInv_neutral s _ _ h rfl rfl (wkeys_grantFirst _) rfl rfl rfl
  | _ =>
    simp only [step?, Sys.runStep] at hs
    (repeat' split at hs) <;> (try cases hs)
    all_goals first
      | exact h
      | exact RejInv_of_eq h rfl rfl rfl rfl rfl
      | exact RejInv_neutral s _ _ h rfl rfl rfl rfl rfl rfl
      | exact RejInv_neutral2 s _ _ _ h rfl rfl rfl rfl rfl rfl rfl
      | exact RejInv_finish _ _ _ h rfl
      | exact RejInv_finish _ _ _ (RejInv_of_eq h rfl rfl rfl rfl rfl) rfl
      | exact RejInv_finish _ _ _ (RejInv_neutral s _ _ h rfl rfl rfl rfl rfl rfl) rfl

/-- both invariants together, for every run -/
theorem ids_rej_run (cap : Nat) (sc : Script) (ls : List Label) (s : Sys)
    (hr : run? (init cap sc) ls = some s) : IdsInv s ∧ RejInv s :=
  run_inv (P := fun s => IdsInv s ∧ RejInv s)
    (fun s s' l ⟨hi, hj⟩ hs => ⟨IdsInv_step s s' l hi hs, RejInv_step s s' l hj hi hs⟩)
    (init cap sc) s ls ⟨IdsInv_init cap sc, RejInv_init cap sc⟩ hr

end Rsactor.Model
