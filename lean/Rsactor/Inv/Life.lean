/- C04: the hook events of every run are accepted by the lifecycle automaton, and the automaton's
   state is a function of the actor's program counter. -/
import Rsactor.Inv.Tactics
import Rsactor.Monitor

namespace Rsactor.Model
open Rsactor.Monitor

def phOf : Pc → C04.Ph
  | .starting => .init
  | .selTerm => .running
  | .selMail => .running
  | .selRun => .running
  | .parked => .running
  | .inHandler m _ => .inHandler m
  | .stopping _ _ _ => .stopping
  | .ended => .joined

def phFold (ev : List Ev) : Option C04.Ph :=
  ev.foldl (fun (st : Option C04.Ph) e => st.bind (fun ph => C04.step ph e)) (some .init)

def phRun (st : Option C04.Ph) (chunk : List Ev) : Option C04.Ph :=
  chunk.foldl (fun (st : Option C04.Ph) e => st.bind (fun ph => C04.step ph e)) st

theorem phFold_append (ev chunk : List Ev) : phFold (ev ++ chunk) = phRun (phFold ev) chunk := by
  simp [phFold, phRun, List.foldl_append]

def LifeInv (s : Sys) : Prop := phFold s.ev = some (phOf s.pc)

/-- events outside the automaton's alphabet -/
def isSilent : Ev → Bool
  | .issued _ _ _ _ | .accepted _ _ | .ret _ _ _ | .dead _ _ | .termConsumed | .replySent _
  | .handleNew _ _ | .handleDrop _ | .upgradeFailed _ | .probeAlive _ _ => true
  | _ => false

theorem phRun_silent (ph : C04.Ph) (chunk : List Ev) (hn : chunk.all isSilent = true) :
    phRun (some ph) chunk = some ph := by
  induction chunk with
  | nil => rfl
  | cons e es ih =>
    simp only [List.all_cons, Bool.and_eq_true] at hn
    have : C04.step ph e = some ph := by cases e <;> simp_all [isSilent, C04.step]
    simp only [phRun, List.foldl_cons, Option.bind_some, this] at ih ⊢
    exact ih hn.2

theorem LifeInv_chunk (s s' : Sys) (chunk : List Ev) (h : LifeInv s) (hev : s'.ev = s.ev ++ chunk)
    (hc : phRun (some (phOf s.pc)) chunk = some (phOf s'.pc)) : LifeInv s' := by
  unfold LifeInv at *
  rw [hev, phFold_append, h, hc]

theorem LifeInv_silent (s s' : Sys) (chunk : List Ev) (h : LifeInv s) (hev : s'.ev = s.ev ++ chunk)
    (hpc : s'.pc = s.pc) (hn : chunk.all isSilent = true) : LifeInv s' :=
  LifeInv_chunk s s' chunk h hev (by rw [hpc]; exact phRun_silent _ _ hn)

theorem LifeInv_of_eq {s s' : Sys} (h : LifeInv s) (hev : s'.ev = s.ev) (hpc : s'.pc = s.pc) : LifeInv s' :=
  LifeInv_silent s s' [] h (by simp [hev]) hpc rfl

theorem LifeInv_pc {s s' : Sys} (h : LifeInv s) (hev : s'.ev = s.ev) (hph : phOf s'.pc = phOf s.pc) : LifeInv s' := by
  unfold LifeInv at *; rw [hev, hph]; exact h

theorem LifeInv_chunk2 (s s' : Sys) (c1 c2 : List Ev) (h : LifeInv s) (hev : s'.ev = (s.ev ++ c1) ++ c2)
    (hc : phRun (some (phOf s.pc)) (c1 ++ c2) = some (phOf s'.pc)) : LifeInv s' :=
  LifeInv_chunk s s' (c1 ++ c2) h (by rw [hev, List.append_assoc]) hc

theorem LifeInv_complete (s : Sys) (oid : Nat) (r : Res) (why : Option Reason) (h : LifeInv s) :
    LifeInv (s.complete oid r why) := by
  cases why with
  | none => exact LifeInv_silent s _ [Ev.ret oid r s.clock] h (by simp [complete_ev]) rfl rfl
  | some w => exact LifeInv_silent s _ [Ev.dead oid w, Ev.ret oid r s.clock] h (by simp [complete_ev]) rfl rfl

theorem LifeInv_failSend (s : Sys) (oid : Nat) (it : Item) (h : LifeInv s) : LifeInv (s.failSend oid it) := by
  cases it <;> simp only [Sys.failSend] <;> exact LifeInv_complete _ _ _ _ h

theorem LifeInv_afterPush (s : Sys) (it : Item) (h : LifeInv s) : LifeInv (s.afterPush it) := by
  have hb : LifeInv { s with mbox := s.mbox ++ [it], accepted := s.accepted ++ [it],
                             ev := s.ev ++ [.accepted it.oid s.accepted.length] } :=
    LifeInv_silent s _ _ h rfl rfl rfl
  cases it with
  | env mid k =>
    cases k
    · exact LifeInv_complete _ _ _ _ hb
    · exact LifeInv_of_eq hb rfl rfl
  | stop o => exact LifeInv_complete _ _ _ _ hb

theorem LifeInv_afterStrand (s : Sys) (it : Item) (h : LifeInv s) : LifeInv (s.afterStrand it) := by
  have hb : LifeInv { s with stranded := s.stranded ++ [it] } := LifeInv_of_eq h rfl rfl
  cases it with
  | env mid k =>
    cases k
    · exact LifeInv_complete _ _ _ _ hb
    · exact LifeInv_of_eq hb rfl rfl
  | stop o => exact LifeInv_complete _ _ _ _ hb

/-- the actor ends: its last events lead the automaton to `dead`, then `joined` -/
theorem LifeInv_finish (s : Sys) (o : Outcome) (evs : List Ev) (h : LifeInv s)
    (hc : phRun (some (phOf s.pc)) evs = some .dead) : LifeInv (s.finish o evs) := by
  apply LifeInv_chunk s _ (evs ++ [.joined o]) h (by simp)
  simp only [phRun, List.foldl_append] at hc ⊢
  rw [hc]; rfl

theorem LifeInv_init (cap : Nat) (sc : Script) : LifeInv (init cap sc) := rfl

theorem LifeInv_step (s s' : Sys) (l : Label) (h : LifeInv s) (hs : step? s l = some s') : LifeInv s' := by
  step_cases l hs
  all_goals first
    | exact h
    | exact LifeInv_of_eq h rfl rfl
    | exact LifeInv_silent s _ _ h rfl rfl rfl
    | exact LifeInv_complete _ _ _ _ h
    | exact LifeInv_complete _ _ _ _ (LifeInv_of_eq h rfl rfl)
    | exact LifeInv_complete _ _ _ _ (LifeInv_silent s _ _ h rfl rfl rfl)
    | exact LifeInv_failSend _ _ _ (LifeInv_of_eq h rfl rfl)
    | exact LifeInv_failSend _ _ _ (LifeInv_silent s _ _ h rfl rfl rfl)
    | exact LifeInv_afterPush _ _ (LifeInv_of_eq h rfl rfl)
    | exact LifeInv_afterStrand _ _ (LifeInv_of_eq h rfl rfl)
    | (split <;> exact LifeInv_complete _ _ _ _ (LifeInv_silent s _ _ h rfl rfl rfl))
    | (refine LifeInv_chunk s _ _ h rfl ?_; simp [*, phOf, phRun, C04.step]; done)
    | (refine LifeInv_finish _ _ _ h ?_; simp [*, phOf, phRun, C04.step]; done)
    | (refine LifeInv_finish _ _ _ (LifeInv_of_eq h rfl rfl) ?_; simp [*, phOf, phRun, C04.step]; done)
    | (refine LifeInv_finish _ _ _ (LifeInv_silent s _ _ h rfl rfl rfl) ?_; simp [*, phOf, phRun, C04.step]; done)
    | (refine LifeInv_pc h rfl ?_; simp [*, phOf]; done)
    | (refine LifeInv_chunk2 s _ _ _ h rfl ?_; simp [*, phOf, phRun, C04.step]; done)
    | (refine LifeInv_finish _ _ _ (LifeInv_chunk s _ [_] h rfl (by simp [*, phOf, phRun, C04.step])) ?_
       simp [*, phOf, phRun, C04.step]; done)
    | trace_state

end Rsactor.Model
