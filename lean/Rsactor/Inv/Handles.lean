/- C11: the handle table of the model and the handle events of the trace tell the same story, and an
   upgrade fails only while the script holds no strong handle. -/
import Rsactor.Inv.Tactics
import Rsactor.Monitor

namespace Rsactor.Model
open Rsactor.Monitor

def strongIds (hs : List (Nat × Bool)) : List Nat := (hs.filter (·.2)).map (·.1)

def upFold (ev : List Ev) : List Nat × Bool := ev.foldl C11.upStep ([0], true)

theorem upFold_append (ev chunk : List Ev) : upFold (ev ++ chunk) = chunk.foldl C11.upStep (upFold ev) := by
  simp [upFold, List.foldl_append]

def HInv (s : Sys) : Prop :=
  upFold s.ev = (strongIds s.handles, true) ∧ (s.handles.map (·.1)).Nodup ∧ ∀ p ∈ s.handles, p.1 < s.nextHid

theorem HInv.fold {s : Sys} (h : HInv s) : upFold s.ev = (strongIds s.handles, true) := h.1
theorem HInv.nodup {s : Sys} (h : HInv s) : (s.handles.map (·.1)).Nodup := h.2.1
theorem HInv.lt {s : Sys} (h : HInv s) : ∀ p ∈ s.handles, p.1 < s.nextHid := h.2.2

/-- events that are not about handles -/
def noHandleEv : Ev → Bool
  | .handleNew _ _ | .handleDrop _ | .upgradeFailed _ => false
  | _ => true

theorem upRun_neutral (st : List Nat × Bool) (chunk : List Ev) (hn : chunk.all noHandleEv = true) :
    chunk.foldl C11.upStep st = st := by
  induction chunk generalizing st with
  | nil => rfl
  | cons e es ih =>
    simp only [List.all_cons, Bool.and_eq_true] at hn
    have : C11.upStep st e = st := by cases e <;> simp_all [noHandleEv, C11.upStep]
    simp only [List.foldl_cons, this]
    exact ih st hn.2

theorem HInv_neutral (s s' : Sys) (chunk : List Ev) (h : HInv s) (hev : s'.ev = s.ev ++ chunk)
    (hh : s'.handles = s.handles) (hn : s'.nextHid = s.nextHid) (hc : chunk.all noHandleEv = true) : HInv s' :=
  ⟨by rw [hev, upFold_append, upRun_neutral _ _ hc, hh]; exact h.fold, by rw [hh]; exact h.nodup,
   by rw [hh, hn]; exact h.lt⟩

theorem HInv_neutral2 (s s' : Sys) (c1 c2 : List Ev) (h : HInv s) (hev : s'.ev = (s.ev ++ c1) ++ c2)
    (hh : s'.handles = s.handles) (hn : s'.nextHid = s.nextHid)
    (h1 : c1.all noHandleEv = true) (h2 : c2.all noHandleEv = true) : HInv s' :=
  HInv_neutral s s' (c1 ++ c2) h (by rw [hev, List.append_assoc]) hh hn (by simp [List.all_append, h1, h2])

theorem HInv_of_eq {s s' : Sys} (h : HInv s) (hev : s'.ev = s.ev) (hh : s'.handles = s.handles)
    (hn : s'.nextHid = s.nextHid) : HInv s' :=
  HInv_neutral s s' [] h (by simp [hev]) hh hn rfl

@[simp] theorem failSend_handles (s : Sys) (oid : Nat) (it : Item) : (s.failSend oid it).handles = s.handles := by
  cases it <;> rfl
@[simp] theorem failSend_nextHid (s : Sys) (oid : Nat) (it : Item) : (s.failSend oid it).nextHid = s.nextHid := by
  cases it <;> rfl
@[simp] theorem afterPush_handles (s : Sys) (it : Item) : (s.afterPush it).handles = s.handles := by
  cases it with
  | env m k => cases k <;> rfl
  | stop o => rfl
@[simp] theorem afterPush_nextHid (s : Sys) (it : Item) : (s.afterPush it).nextHid = s.nextHid := by
  cases it with
  | env m k => cases k <;> rfl
  | stop o => rfl
@[simp] theorem afterStrand_handles (s : Sys) (it : Item) : (s.afterStrand it).handles = s.handles := by
  cases it with
  | env m k => cases k <;> rfl
  | stop o => rfl
@[simp] theorem afterStrand_nextHid (s : Sys) (it : Item) : (s.afterStrand it).nextHid = s.nextHid := by
  cases it with
  | env m k => cases k <;> rfl
  | stop o => rfl

theorem HInv_complete (s : Sys) (oid : Nat) (r : Res) (why : Option Reason) (h : HInv s) :
    HInv (s.complete oid r why) := by
  cases why with
  | none => exact HInv_neutral s _ [Ev.ret oid r s.clock] h (by simp [complete_ev]) rfl rfl rfl
  | some w => exact HInv_neutral s _ [Ev.dead oid w, Ev.ret oid r s.clock] h (by simp [complete_ev]) rfl rfl rfl

theorem HInv_failSend (s : Sys) (oid : Nat) (it : Item) (h : HInv s) : HInv (s.failSend oid it) := by
  cases it <;> exact HInv_complete _ _ _ _ h

theorem HInv_afterPush (s : Sys) (it : Item) (h : HInv s) : HInv (s.afterPush it) := by
  have hb : HInv { s with mbox := s.mbox ++ [it], accepted := s.accepted ++ [it],
                          ev := s.ev ++ [.accepted it.oid s.accepted.length] } :=
    HInv_neutral s _ _ h rfl rfl rfl rfl
  cases it with
  | env mid k =>
    cases k
    · exact HInv_complete _ _ _ _ hb
    · exact HInv_of_eq hb rfl rfl rfl
  | stop o => exact HInv_complete _ _ _ _ hb

theorem HInv_afterStrand (s : Sys) (it : Item) (h : HInv s) : HInv (s.afterStrand it) := by
  have hb : HInv { s with stranded := s.stranded ++ [it] } := HInv_of_eq h rfl rfl rfl
  cases it with
  | env mid k =>
    cases k
    · exact HInv_complete _ _ _ _ hb
    · exact HInv_of_eq hb rfl rfl rfl
  | stop o => exact HInv_complete _ _ _ _ hb

theorem HInv_finish (s : Sys) (o : Outcome) (evs : List Ev) (h : HInv s) (hn : evs.all noHandleEv = true) :
    HInv (s.finish o evs) :=
  HInv_neutral s _ (evs ++ [.joined o]) h (by simp) rfl rfl (by simp [List.all_append, hn, noHandleEv])

theorem HInv_init (cap : Nat) (sc : Script) : HInv (init cap sc) :=
  ⟨rfl, by simp [init], by intro p hp; simp [init] at hp; subst hp; simp [init]⟩

/-- a new handle with a fresh id -/
theorem HInv_new (s s' : Sys) (st : Bool) (h : HInv s)
    (hev : s'.ev = s.ev ++ [.handleNew s.nextHid st]) (hh : s'.handles = s.handles ++ [(s.nextHid, st)])
    (hn : s'.nextHid = s.nextHid + 1) : HInv s' := by
  refine ⟨?_, ?_, ?_⟩
  · rw [hev, upFold_append, h.fold, hh]
    cases st <;> simp [C11.upStep, strongIds, List.filter_append]
  · rw [hh, List.map_append, List.nodup_append]
    refine ⟨h.nodup, by simp, ?_⟩
    intro a ha b hb
    simp at hb; subst hb
    obtain ⟨p, hp, rfl⟩ := List.mem_map.mp ha
    exact Nat.ne_of_lt (h.lt p hp)
  · intro p hp
    rw [hh] at hp; rw [hn]
    rcases List.mem_append.mp hp with hp | hp
    · exact Nat.lt_succ_of_lt (h.lt p hp)
    · simp at hp; subst hp; exact Nat.lt_succ_self _

theorem strongIds_erase (hs : List (Nat × Bool)) (p : Nat × Bool) (hp : p ∈ hs) (hnd : (hs.map (·.1)).Nodup) :
    strongIds (hs.erase p) = (strongIds hs).filter (· != p.1) := by
  induction hs with
  | nil => cases hp
  | cons q qs ih =>
    simp only [List.map_cons, List.nodup_cons] at hnd
    by_cases hq : q = p
    · subst hq
      simp only [List.erase_cons_head]
      have hnot : ∀ x ∈ strongIds qs, x ≠ q.1 := by
        intro x hx heq
        obtain ⟨r, hr, rfl⟩ := List.mem_map.mp hx
        exact hnd.1 (List.mem_map.mpr ⟨r, (List.mem_filter.mp hr).1, heq⟩)
      have hf : (strongIds qs).filter (· != q.1) = strongIds qs :=
        List.filter_eq_self.mpr (fun x hx => by simpa using hnot x hx)
      cases hq2 : q.2 <;> simp [strongIds, hq2] <;> simpa [strongIds] using hf.symm
    · have hp' : p ∈ qs := by
        rcases List.mem_cons.mp hp with h | h
        · exact absurd h.symm hq
        · exact h
      rw [List.erase_cons_tail (by simpa using hq)]
      have hne : q.1 ≠ p.1 := by
        intro heq
        exact hnd.1 (List.mem_map.mpr ⟨p, hp', heq.symm⟩)
      have := ih hp' hnd.2
      cases hq2 : q.2 <;> simp [strongIds, hq2, hne] <;> simpa [strongIds] using this

theorem HInv_drop (s s' : Sys) (p : Nat × Bool) (hid : Nat) (h : HInv s)
    (hf : s.handles.find? (fun x => decide (x.fst = hid)) = some p)
    (hev : s'.ev = s.ev ++ [.handleDrop hid]) (hh : s'.handles = s.handles.erase p)
    (hn : s'.nextHid = s.nextHid) : HInv s' := by
  have hp : p ∈ s.handles := List.mem_of_find?_eq_some hf
  have hid' : p.1 = hid := by simpa using List.find?_some hf
  subst hid'
  refine ⟨?_, ?_, ?_⟩
  · rw [hev, upFold_append, h.fold, hh, strongIds_erase _ _ hp h.nodup]
    simp [C11.upStep]
  · rw [hh]; exact (List.Sublist.map _ (List.erase_sublist)).nodup h.nodup
  · intro q hq; rw [hn]; rw [hh] at hq; exact h.lt q (List.mem_of_mem_erase hq)

/-- an upgrade fails only when no strong reference at all exists - in particular no strong handle -/
theorem HInv_upgradeFailed (s s' : Sys) (hid : Nat) (h : HInv s) (h0 : ¬ s.strongCount > 0)
    (hev : s'.ev = s.ev ++ [.upgradeFailed hid]) (hh : s'.handles = s.handles) (hn : s'.nextHid = s.nextHid) :
    HInv s' := by
  have hz : strongIds s.handles = [] := by
    have : strongHandles s.handles = 0 := by
      unfold Sys.strongCount at h0; omega
    unfold strongHandles at this
    simp [strongIds, List.length_eq_zero_iff.mp this]
  refine ⟨?_, by rw [hh]; exact h.nodup, by rw [hh, hn]; exact h.lt⟩
  rw [hev, upFold_append, h.fold, hh, hz]
  simp [C11.upStep]

theorem HInv_step (s s' : Sys) (l : Label) (h : HInv s) (hs : step? s l = some s') : HInv s' := by
  step_cases l hs
  all_goals first
    | exact h
    | exact HInv_of_eq h rfl rfl rfl
    | exact HInv_neutral s _ _ h rfl rfl rfl rfl
    | exact HInv_complete _ _ _ _ h
    | exact HInv_complete _ _ _ _ (HInv_of_eq h rfl rfl rfl)
    | exact HInv_complete _ _ _ _ (HInv_neutral s _ _ h rfl rfl rfl rfl)
    | exact HInv_failSend _ _ _ (HInv_of_eq h rfl rfl rfl)
    | exact HInv_failSend _ _ _ (HInv_neutral s _ _ h rfl rfl rfl rfl)
    | exact HInv_afterPush _ _ (HInv_of_eq h rfl rfl rfl)
    | exact HInv_afterStrand _ _ (HInv_of_eq h rfl rfl rfl)
    | (split <;> exact HInv_complete _ _ _ _ (HInv_neutral s _ _ h rfl rfl rfl rfl))
    | exact HInv_finish _ _ _ h rfl
    | exact HInv_finish _ _ _ (HInv_of_eq h rfl rfl rfl) rfl
    | exact HInv_finish _ _ _ (HInv_neutral s _ _ h rfl rfl rfl rfl) rfl
    | exact HInv_finish _ _ _ (HInv_neutral s _ [_] h rfl rfl rfl rfl) rfl
    | exact HInv_new s _ _ h rfl rfl rfl
    | (refine HInv_drop s _ _ _ h ?_ rfl rfl rfl; assumption)
    | exact HInv_neutral2 s _ _ _ h rfl rfl rfl rfl rfl
    | exact HInv_finish _ _ _ (HInv_neutral s _ [_] h rfl rfl rfl rfl) rfl
    | (refine HInv_upgradeFailed s _ _ h (by assumption) rfl rfl rfl)
    | trace_state

end Rsactor.Model
