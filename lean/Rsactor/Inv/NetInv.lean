/- C14/C15: the wait-for map is exactly the set of unanswered in-flight asks (plus asks whose callee
   has died and whose asker has not resumed yet), for every run of the protocol. -/
import Rsactor.Net
import Rsactor.GraphSpec

namespace Rsactor.Net
open Rsactor Rsactor.Extracted

/-! ### association-list facts -/
theorem find_filter_ne (g : Graph) (k x : Nat) (h : x ≠ k) :
    (g.filter (·.1 != k)).find? (·.1 == x) = g.find? (·.1 == x) := by
  induction g with
  | nil => rfl
  | cons p ps ih =>
    by_cases hp : p.1 = k
    · have : (p.1 != k) = false := by simp [hp]
      simp only [List.filter_cons, this]
      have hx : (p.1 == x) = false := by simp; omega
      simp [List.find?_cons, hx, ih]
    · have : (p.1 != k) = true := by simp [hp]
      simp only [List.filter_cons, this, if_true, List.find?_cons]
      split <;> simp_all

theorem find_filter_self (g : Graph) (k : Nat) : (g.filter (·.1 != k)).find? (·.1 == k) = none := by
  rw [List.find?_eq_none]
  intro p hp
  simp only [List.mem_filter] at hp
  simpa using hp.2

theorem get?_remove_self (g : Graph) (k : Nat) : (g.remove k).get? k = none := by
  simp [Graph.get?, Graph.remove, find_filter_self]

theorem get?_remove_ne (g : Graph) (k x : Nat) (h : x ≠ k) : (g.remove k).get? x = g.get? x := by
  simp [Graph.get?, Graph.remove, find_filter_ne g k x h]

theorem get?_insert_self (g : Graph) (k v : Nat) : (g.insert k v).get? k = some v := by
  unfold Graph.get? Graph.insert Graph.remove
  rw [List.find?_append, find_filter_self]
  simp [List.find?_cons]

theorem get?_insert_ne (g : Graph) (k v x : Nat) (h : x ≠ k) : (g.insert k v).get? x = g.get? x := by
  unfold Graph.get? Graph.insert Graph.remove
  rw [List.find?_append, find_filter_ne g k x h]
  have hk : ((k, v).1 == x) = false := by simp; omega
  cases hf : g.find? (·.1 == x) with
  | some p => simp
  | none => simp [List.find?_cons, hk]

theorem eq_nil_of_get?_none (g : Graph) (h : ∀ x, g.get? x = none) : g = [] := by
  cases g with
  | nil => rfl
  | cons p ps =>
    have := h p.1
    simp [Graph.get?, List.find?_cons] at this

/-! ### the invariant -/
def waiting (st : AskSt) : Bool := st == .inflight || st == .lost
def holding (st : AskSt) : Bool := st == .inflight || st == .lost || st == .answered

structure NInv (n : Net) : Prop where
  edgeAsk : ∀ a b, n.graph.get? a = some b →
    (n.asks (n.tokOf a)).caller = a ∧ (n.asks (n.tokOf a)).callee = b ∧ waiting (n.asks (n.tokOf a)).st = true
  askEdge : ∀ t, waiting (n.asks t).st = true →
    n.graph.get? (n.asks t).caller = some (n.asks t).callee ∧ n.tokOf (n.asks t).caller = t
  busyAsk : ∀ a t, n.busy a = some t → (n.asks t).caller = a ∧ holding (n.asks t).st = true
  askBusy : ∀ t, holding (n.asks t).st = true → n.busy (n.asks t).caller = some t
  deadQuiet : ∀ y, n.dead y = true → n.busy y = none ∧ n.graph.get? y = none
  lostDead : ∀ t, (n.asks t).st = .lost → n.dead (n.asks t).callee = true
  fresh : ∀ t, n.nextTok ≤ t → (n.asks t).st = .none
  tokPos : 0 < n.nextTok

theorem NInv_init : NInv init :=
  ⟨by intro a b h; simp [init, Graph.get?] at h, by intro t h; simp [init, waiting] at h,
   by intro a t h; simp [init] at h, by intro t h; simp [init, holding] at h,
   by intro y h; simp [init] at h, by intro t h; simp [init] at h, by intro t _; rfl, by simp [init]⟩

theorem flags : edge_removed_at_reply = true ∧ guard_removes_on_drop = true := ⟨rfl, rfl⟩

/-- an actor that awaits no ask has no out-edge -/
theorem noEdgeIfIdle {n : Net} (h : NInv n) {a : Nat} (hb : n.busy a = none) : n.graph.get? a = none := by
  cases hg : n.graph.get? a with
  | none => rfl
  | some b =>
    obtain ⟨c1, _, c3⟩ := h.edgeAsk a b hg
    have hh : holding (n.asks (n.tokOf a)).st = true := by
      simp only [waiting, holding] at c3 ⊢; simp only [Bool.or_eq_true] at c3 ⊢; exact Or.inl c3
    have := h.askBusy _ hh
    rw [c1, hb] at this; cases this

theorem clear_get? (n : Net) (c t x : Nat) :
    (clear n c t).graph.get? x = if x = c ∧ n.tokOf c = t then none else n.graph.get? x := by
  unfold clear
  by_cases hc : (n.graph.get? c).isSome ∧ n.tokOf c = t
  · simp only [hc, and_self, if_true]
    by_cases hx : x = c
    · subst hx; simp [get?_remove_self, hc.2]
    · simp [get?_remove_ne _ _ _ hx, hx]
  · simp only [hc, if_false]
    by_cases hx : x = c ∧ n.tokOf c = t
    · obtain ⟨rfl, ht⟩ := hx
      simp only [ht, and_true] at hc
      simp [ht]
      cases hg : n.graph.get? x with
      | none => rfl
      | some v => simp [hg] at hc
    · simp [hx]

@[simp] theorem clear_tokOf (n : Net) (c t : Nat) : (clear n c t).tokOf = n.tokOf := by unfold clear; split <;> rfl
@[simp] theorem clear_asks (n : Net) (c t : Nat) : (clear n c t).asks = n.asks := by unfold clear; split <;> rfl
@[simp] theorem clear_busy (n : Net) (c t : Nat) : (clear n c t).busy = n.busy := by unfold clear; split <;> rfl
@[simp] theorem clear_dead (n : Net) (c t : Nat) : (clear n c t).dead = n.dead := by unfold clear; split <;> rfl
@[simp] theorem clear_nextTok (n : Net) (c t : Nat) : (clear n c t).nextTok = n.nextTok := by unfold clear; split <;> rfl
@[simp] theorem clear_ev (n : Net) (c t : Nat) : (clear n c t).ev = n.ev := by unfold clear; split <;> rfl

/-- a clear that carries the token of an ask its asker has given up finds either no edge or a newer token: the graph
    (and everything else) is left as it is -/
theorem clear_stale {n : Net} (h : NInv n) {t : Nat} (hst : (n.asks t).st = .abandoned) :
    clear n (n.asks t).caller t = n := by
  unfold clear
  split
  · rename_i hc
    obtain ⟨hsome, htok⟩ := hc
    cases hg : n.graph.get? (n.asks t).caller with
    | none => simp [hg] at hsome
    | some b =>
      have := (h.edgeAsk _ b hg).2.2
      rw [htok, hst] at this
      simp [waiting] at this
  · rfl

theorem waiting_holding {st : AskSt} (h : waiting st = true) : holding st = true := by
  cases st <;> simp_all [waiting, holding]

/-- the asker's ask future ends (resumed, timed out, cancelled, or dropped by its own unwinding):
    the guard clears the edge if it is still this ask's; the actor awaits nothing any more -/
theorem NInv_release (n : Net) (t a : Nat) (st' : AskSt) (h : NInv n) (ha : (n.asks t).caller = a)
    (hh : holding (n.asks t).st = true)
    (hs : holding st' = false) (hsl : st' ≠ .lost) :
    NInv { clear n a t with asks := setN (clear n a t).asks t { (clear n a t).asks t with st := st' },
                            busy := setN (clear n a t).busy a none } ∧
    (clear n a t).graph.get? a = none := by
  have hba : n.busy a = some t := ha ▸ h.askBusy t hh
  have hw' : waiting st' = false := by cases st' <;> simp_all [waiting, holding]
  -- an edge of a, if any, carries token t
  have hedge : ∀ b, n.graph.get? a = some b → n.tokOf a = t := by
    intro b hg
    obtain ⟨c1, _, c3⟩ := h.edgeAsk a b hg
    have := h.askBusy _ (waiting_holding c3)
    rw [c1, hba] at this
    exact (Option.some.inj this).symm
  have hga : (clear n a t).graph.get? a = none := by
    rw [clear_get?]
    split
    · rfl
    · rename_i hne
      cases hg : n.graph.get? a with
      | none => rfl
      | some b => exact absurd ⟨rfl, hedge b hg⟩ hne
  refine ⟨?_, hga⟩
  refine ⟨?_, ?_, ?_, ?_, ?_, ?_, ?_, ?_⟩
  · -- edgeAsk
    intro x y hg
    simp only at hg
    have hxa : x ≠ a := by intro he; subst he; rw [hga] at hg; cases hg
    have hg0 : n.graph.get? x = some y := by
      rw [clear_get?] at hg; simp [hxa] at hg; exact hg
    obtain ⟨c1, c2, c3⟩ := h.edgeAsk x y hg0
    have hne : n.tokOf x ≠ t := by
      intro he; rw [he, ha] at c1; exact hxa c1.symm
    simp only [clear_tokOf, clear_asks, setN, hne, if_false]
    exact ⟨c1, c2, c3⟩
  · -- askEdge
    intro t' hw
    simp only [clear_asks, clear_tokOf, setN] at hw ⊢
    by_cases htt : t' = t
    · subst htt; simp [hw'] at hw
    · simp only [htt, if_false] at hw ⊢
      obtain ⟨c1, c2⟩ := h.askEdge t' hw
      refine ⟨?_, c2⟩
      rw [clear_get?]
      split
      · rename_i hc
        rw [hc.1] at c2; exact absurd (c2.symm.trans hc.2) htt
      · exact c1
  · -- busyAsk
    intro a' t' hb
    simp only [clear_busy, clear_asks, setN] at hb ⊢
    by_cases haa : a' = a
    · subst haa; simp at hb
    · simp only [haa, if_false] at hb
      obtain ⟨c1, c2⟩ := h.busyAsk a' t' hb
      have htt : t' ≠ t := by intro he; subst he; rw [ha] at c1; exact haa c1.symm
      simp only [htt, if_false]; exact ⟨c1, c2⟩
  · -- askBusy
    intro t' hh'
    simp only [clear_asks, clear_busy, setN] at hh' ⊢
    by_cases htt : t' = t
    · subst htt; simp [hs] at hh'
    · simp only [htt, if_false] at hh' ⊢
      have := h.askBusy t' hh'
      have hca : (n.asks t').caller ≠ a := by
        intro he; rw [he, hba] at this; exact htt (Option.some.inj this).symm
      simp only [hca, if_false]; exact this
  · -- deadQuiet
    intro y hd
    simp only [clear_dead] at hd
    obtain ⟨d1, d2⟩ := h.deadQuiet y hd
    refine ⟨?_, ?_⟩
    · simp only [clear_busy, setN]; split <;> simp_all
    · simp only; rw [clear_get?]; split <;> simp_all
  · -- lostDead
    intro t' hl
    simp only [clear_asks, clear_dead, setN] at hl ⊢
    by_cases htt : t' = t
    · subst htt; simp at hl; exact absurd hl hsl
    · simp only [htt, if_false] at hl ⊢; exact h.lostDead t' hl
  · -- fresh
    intro t' ht'
    simp only [clear_nextTok, clear_asks, setN] at ht' ⊢
    by_cases htt : t' = t
    · subst htt
      have := h.fresh t' ht'
      rw [this] at hh; simp [holding] at hh
    · simp only [htt, if_false]; exact h.fresh t' ht'
  · simpa using h.tokPos

theorem loseTo_fields (asks : Nat → AskRec) (y t : Nat) :
    (loseTo asks y t).caller = (asks t).caller ∧ (loseTo asks y t).callee = (asks t).callee ∧
    waiting (loseTo asks y t).st = waiting (asks t).st ∧ holding (loseTo asks y t).st = holding (asks t).st ∧
    ((loseTo asks y t).st = .none ↔ (asks t).st = .none) ∧
    ((loseTo asks y t).st = .lost → (asks t).st = .lost ∨ (asks t).callee = y) := by
  unfold loseTo
  split
  · rename_i hc; simp [hc.2, waiting, holding, hc.1]
  · simp; exact fun h => Or.inl h

/-- actor y ends while awaiting nothing: asks in flight to it are lost -/
theorem NInv_die (n : Net) (y : Nat) (evs : List NEv) (h : NInv n) (hb : n.busy y = none) :
    NInv { n with dead := setN n.dead y true, asks := loseTo n.asks y, ev := evs } := by
  have hg := noEdgeIfIdle h hb
  refine ⟨?_, ?_, ?_, ?_, ?_, ?_, ?_, h.tokPos⟩
  · intro a b hgab
    obtain ⟨c1, c2, c3⟩ := h.edgeAsk a b hgab
    obtain ⟨f1, f2, f3, _, _, _⟩ := loseTo_fields n.asks y (n.tokOf a)
    exact ⟨by simp only; rw [f1]; exact c1, by simp only; rw [f2]; exact c2, by simp only; rw [f3]; exact c3⟩
  · intro t hw
    obtain ⟨f1, f2, f3, _, _, _⟩ := loseTo_fields n.asks y t
    simp only at hw ⊢
    rw [f3] at hw; rw [f1, f2]; exact h.askEdge t hw
  · intro a t hba
    obtain ⟨f1, _, _, f4, _, _⟩ := loseTo_fields n.asks y t
    simp only at hba ⊢
    rw [f1, f4]; exact h.busyAsk a t hba
  · intro t hh
    obtain ⟨f1, _, _, f4, _, _⟩ := loseTo_fields n.asks y t
    simp only at hh ⊢
    rw [f4] at hh; rw [f1]; exact h.askBusy t hh
  · intro z hd
    simp only [setN] at hd ⊢
    by_cases hz : z = y
    · subst hz; exact ⟨hb, hg⟩
    · simp only [hz, if_false] at hd; exact h.deadQuiet z hd
  · intro t hl
    obtain ⟨_, f2, _, _, _, f6⟩ := loseTo_fields n.asks y t
    simp only [setN] at hl ⊢
    rw [f2]
    rcases f6 hl with hq | hq
    · have := h.lostDead t hq; split <;> simp_all
    · simp [hq]
  · intro t ht
    obtain ⟨_, _, _, _, f5, _⟩ := loseTo_fields n.asks y t
    simp only at ht ⊢
    exact f5.mpr (h.fresh t ht)

/-- the callee answers an ask that is still in flight: the reply sender clears the asker's edge first -/
theorem NInv_reply (n : Net) (t : Nat) (evs : List NEv) (h : NInv n) (hst : (n.asks t).st = .inflight) :
    NInv { clear n (n.asks t).caller t with
             asks := setN (clear n (n.asks t).caller t).asks t { (clear n (n.asks t).caller t).asks t with st := .answered },
             ev := evs } := by
  have hw : waiting (n.asks t).st = true := by rw [hst]; rfl
  obtain ⟨e1, e2⟩ := h.askEdge t hw
  have hba := h.askBusy t (waiting_holding hw)
  refine ⟨?_, ?_, ?_, ?_, ?_, ?_, ?_, ?_⟩
  · intro x y hg
    simp only at hg
    rw [clear_get?] at hg
    have hxa : x ≠ (n.asks t).caller := by
      intro he; subst he; simp [e2] at hg
    simp [hxa] at hg
    obtain ⟨c1, c2, c3⟩ := h.edgeAsk x y hg
    have hne : n.tokOf x ≠ t := by intro he; rw [he] at c1; exact hxa c1.symm
    simp only [clear_tokOf, clear_asks, setN, hne, if_false]
    exact ⟨c1, c2, c3⟩
  · intro t' hw'
    simp only [clear_asks, clear_tokOf, setN] at hw' ⊢
    by_cases htt : t' = t
    · subst htt; simp [waiting] at hw'
    · simp only [htt, if_false] at hw' ⊢
      obtain ⟨c1, c2⟩ := h.askEdge t' hw'
      refine ⟨?_, c2⟩
      rw [clear_get?]
      split
      · rename_i hc; rw [hc.1] at c2; exact absurd (c2.symm.trans hc.2) htt
      · exact c1
  · intro a' t' hb
    simp only [clear_busy, clear_asks, setN] at hb ⊢
    obtain ⟨c1, c2⟩ := h.busyAsk a' t' hb
    by_cases htt : t' = t
    · subst htt; simp [holding]; exact c1
    · simp only [htt, if_false]; exact ⟨c1, c2⟩
  · intro t' hh'
    simp only [clear_asks, clear_busy, setN] at hh' ⊢
    by_cases htt : t' = t
    · subst htt; simp; exact hba
    · simp only [htt, if_false] at hh' ⊢; exact h.askBusy t' hh'
  · intro y hd
    simp only [clear_dead] at hd
    obtain ⟨d1, d2⟩ := h.deadQuiet y hd
    refine ⟨by simpa using d1, ?_⟩
    simp only; rw [clear_get?]; split <;> simp_all
  · intro t' hl
    simp only [clear_asks, clear_dead, setN] at hl ⊢
    by_cases htt : t' = t
    · subst htt; simp at hl
    · simp only [htt, if_false] at hl ⊢; exact h.lostDead t' hl
  · intro t' ht'
    simp only [clear_nextTok, clear_asks, setN] at ht' ⊢
    by_cases htt : t' = t
    · subst htt; have := h.fresh t' ht'; rw [this] at hst; cases hst
    · simp only [htt, if_false]; exact h.fresh t' ht'
  · simpa using h.tokPos

/-- a hook of `a` asks `b`: no cycle would close, `b` is alive: the edge is inserted under the same lock -/
theorem NInv_ask (n : Net) (a b : Nat) (evs : List NEv) (h : NInv n) (hb : n.busy a = none)
    (hda : n.dead a = false) (hdb : n.dead b = false) :
    NInv { n with graph := n.graph.insert a b, tokOf := setN n.tokOf a n.nextTok,
                  asks := setN n.asks n.nextTok ⟨a, b, .inflight⟩, busy := setN n.busy a (some n.nextTok),
                  nextTok := n.nextTok + 1, ev := evs } := by
  have hga := noEdgeIfIdle h hb
  have hfresh : (n.asks n.nextTok).st = .none := h.fresh _ (Nat.le_refl _)
  have tok_lt : ∀ t, (n.asks t).st ≠ .none → t ≠ n.nextTok := by
    intro t ht he; subst he; exact ht hfresh
  refine ⟨?_, ?_, ?_, ?_, ?_, ?_, ?_, ?_⟩
  · intro x y hg
    simp only at hg ⊢
    by_cases hx : x = a
    · subst hx
      rw [get?_insert_self] at hg
      have hby := Option.some.inj hg
      simp [setN, waiting, hby]
    · rw [get?_insert_ne _ _ _ _ hx] at hg
      obtain ⟨c1, c2, c3⟩ := h.edgeAsk x y hg
      have hne : n.tokOf x ≠ n.nextTok := tok_lt _ (by intro he; rw [he] at c3; simp [waiting] at c3)
      simp only [setN, hx, if_false, hne]
      exact ⟨c1, c2, c3⟩
  · intro t hw
    simp only [setN] at hw ⊢
    by_cases ht : t = n.nextTok
    · subst ht; simp [get?_insert_self]
    · simp only [ht, if_false] at hw ⊢
      obtain ⟨c1, c2⟩ := h.askEdge t hw
      have hca : (n.asks t).caller ≠ a := by
        intro he; rw [he, hga] at c1; cases c1
      rw [get?_insert_ne _ _ _ _ hca]
      simp only [hca, if_false]; exact ⟨c1, c2⟩
  · intro a' t hb'
    simp only [setN] at hb' ⊢
    by_cases ha : a' = a
    · subst ha; simp at hb'; subst hb'; simp [holding]
    · simp only [ha, if_false] at hb'
      obtain ⟨c1, c2⟩ := h.busyAsk a' t hb'
      have ht : t ≠ n.nextTok := tok_lt t (by intro he; rw [he] at c2; simp [holding] at c2)
      simp only [ht, if_false]; exact ⟨c1, c2⟩
  · intro t hh
    simp only [setN] at hh ⊢
    by_cases ht : t = n.nextTok
    · subst ht; simp
    · simp only [ht, if_false] at hh ⊢
      have := h.askBusy t hh
      have hca : (n.asks t).caller ≠ a := by intro he; rw [he, hb] at this; cases this
      simp only [hca, if_false]; exact this
  · intro y hd
    simp only at hd
    obtain ⟨d1, d2⟩ := h.deadQuiet y hd
    have hya : y ≠ a := by intro he; subst he; rw [hda] at hd; cases hd
    exact ⟨by simp [setN, hya, d1], by simp only; rw [get?_insert_ne _ _ _ _ hya]; exact d2⟩
  · intro t hl
    simp only [setN] at hl ⊢
    by_cases ht : t = n.nextTok
    · subst ht; simp at hl
    · simp only [ht, if_false] at hl ⊢; exact h.lostDead t hl
  · intro t ht
    simp only [setN] at ht ⊢
    have : t ≠ n.nextTok := by omega
    simp only [this, if_false]; exact h.fresh t (by omega)
  · simp

theorem NInv_ev {n : Net} (h : NInv n) (evs : List NEv) : NInv { n with ev := evs } :=
  ⟨h.edgeAsk, h.askEdge, h.busyAsk, h.askBusy, h.deadQuiet, h.lostDead, h.fresh, h.tokPos⟩

theorem NInv_step (n n' : Net) (l : NLabel) (h : NInv n) (hs : step? n l = some n') : NInv n' := by
  obtain ⟨f1, f2⟩ := flags
  cases l with
  | ask a b =>
    simp only [step?, stepWith] at hs
    split at hs
    · cases hs
    · rename_i hg
      have hda : n.dead a = false := by
        cases hd : n.dead a with
        | false => rfl
        | true => exact absurd (Or.inl hd) hg
      have hb : n.busy a = none := by
        cases hbb : n.busy a with
        | none => rfl
        | some t => exact absurd (Or.inr (by simp [hbb])) hg
      split at hs
      · cases hs
        exact NInv_die _ a _ (NInv_ev h _) hb
      · split at hs
        · cases hs; exact NInv_ev h _
        · rename_i hdb
          cases hs
          exact NInv_ask n a b _ h hb hda (by simpa using hdb)
  | reply t =>
    simp only [step?, stepWith] at hs
    split at hs
    · rename_i hst
      cases hs
      simp only [f1, if_true]
      exact NInv_reply n t _ h hst
    · rename_i hst
      cases hs
      simp only [f1, if_true]
      rw [clear_stale h hst]
      exact NInv_ev h _
    · cases hs
  | resume t =>
    simp only [step?, stepWith] at hs
    split at hs
    · rename_i hst
      cases hs
      simp only [f2, if_true]
      exact NInv_ev (NInv_release n t _ .done h rfl (by rw [hst]; rfl) rfl nofun).1 _
    · rename_i hst
      cases hs
      simp only [f2, if_true]
      exact NInv_ev (NInv_release n t _ .done h rfl (by rw [hst]; rfl) rfl nofun).1 _
    · cases hs
  | giveUp t =>
    simp only [step?, stepWith] at hs
    split at hs
    · rename_i hst; cases hs; simp only [f2, if_true]
      exact NInv_ev (NInv_release n t _ .abandoned h rfl (by rw [hst]; rfl) rfl nofun).1 _
    · rename_i hst; cases hs; simp only [f2, if_true]
      exact NInv_ev (NInv_release n t _ .abandoned h rfl (by rw [hst]; rfl) rfl nofun).1 _
    · rename_i hst; cases hs; simp only [f2, if_true]
      exact NInv_ev (NInv_release n t _ .abandoned h rfl (by rw [hst]; rfl) rfl nofun).1 _
    · cases hs
  | die y =>
    simp only [step?, stepWith] at hs
    split at hs
    · cases hs
    · cases hs
      cases hb : n.busy y with
      | none =>
        simp only
        exact NInv_die _ y _ h hb
      | some t =>
        simp only [f2, if_true]
        obtain ⟨c1, c2⟩ := h.busyAsk y t hb
        have hr := (NInv_release n t y .abandoned h c1 c2 rfl nofun).1
        exact NInv_die _ y _ hr (by simp [setN])

/-- the invariant holds in every state the protocol can reach -/
theorem NInv_run_from (ls : List NLabel) : ∀ (m n : Net), NInv m → run? m ls = some n → NInv n := by
  induction ls with
  | nil => intro m n hm h; simp [run?] at h; subst h; exact hm
  | cons l ls ih =>
    intro m n hm h
    simp only [run?] at h
    split at h
    · cases h
    · rename_i m' hs; exact ih m' n (NInv_step m m' l hm hs) h

/-- the invariant holds in every state the protocol can reach -/
theorem NInv_run (ls : List NLabel) (n : Net) (hr : run? init ls = some n) : NInv n :=
  NInv_run_from ls init n NInv_init hr

end Rsactor.Net
