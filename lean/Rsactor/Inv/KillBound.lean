/- C06 `kill_bound`: after kill() on an actor that had not begun to stop, at most one further
   handler starts (exactly the poll that had already passed the termination branch). -/
import Rsactor.Inv.Tactics
import Rsactor.Monitor

namespace Rsactor.Model
open Rsactor.Monitor

def pcStopped : Pc → Bool
  | .stopping _ _ _ => true
  | .ended => true
  | _ => false

/-- handler starts the actor may still perform before it looks at the control channel again -/
def budget : Pc → Nat
  | .selMail => 1
  | _ => 0

def kbRun (m : C06.KB) (chunk : List Ev) : C06.KB := chunk.foldl C06.kbStep m

theorem kb_append (ev chunk : List Ev) : C06.kb (ev ++ chunk) = kbRun (C06.kb ev) chunk := by
  simp [C06.kb, kbRun, List.foldl_append]

structure KBInv (s : Sys) : Prop where
  stoppedIff : (C06.kb s.ev).stopped = pcStopped s.pc
  unarmed : (C06.kb s.ev).armed = false → (C06.kb s.ev).starts = 0
  armed : (C06.kb s.ev).armed = true →
    (C06.kb s.ev).starts + budget s.pc ≤ 1 ∧ (s.termSlot = false → pcStopped s.pc = true)
  closedEnded : s.rxOpen = false → s.pc = .ended

def isNeutralKB : Ev → Bool
  | .issued _ .kill _ _ => false
  | .handlerStart _ => false
  | .stopStart _ => false
  | .joined _ => false
  | _ => true

theorem kbRun_neutral (m : C06.KB) (chunk : List Ev) (hn : chunk.all isNeutralKB = true) : kbRun m chunk = m := by
  induction chunk generalizing m with
  | nil => rfl
  | cons e es ih =>
    simp only [List.all_cons, Bool.and_eq_true] at hn
    have : C06.kbStep m e = m := by
      cases e <;> simp_all [isNeutralKB, C06.kbStep]
      rename_i k _ _; cases k <;> simp_all [isNeutralKB, C06.kbStep]
    simp only [kbRun, List.foldl_cons, this] at ih ⊢
    exact ih m hn.2

/-- neutral events; pc, termSlot, rxOpen unchanged -/
theorem KBInv_neutral (s s' : Sys) (chunk : List Ev) (h : KBInv s) (hev : s'.ev = s.ev ++ chunk)
    (hpc : s'.pc = s.pc) (ht : s'.termSlot = s.termSlot) (hr : s'.rxOpen = s.rxOpen)
    (hn : chunk.all isNeutralKB = true) : KBInv s' := by
  have hk : C06.kb s'.ev = C06.kb s.ev := by rw [hev, kb_append, kbRun_neutral _ _ hn]
  exact ⟨by rw [hk, hpc]; exact h.stoppedIff, by rw [hk]; exact h.unarmed,
         by rw [hk, hpc, ht]; exact h.armed, by rw [hr, hpc]; exact h.closedEnded⟩

theorem KBInv_of_eq {s s' : Sys} (h : KBInv s) (hev : s'.ev = s.ev) (hpc : s'.pc = s.pc)
    (ht : s'.termSlot = s.termSlot) (hr : s'.rxOpen = s.rxOpen) : KBInv s' :=
  KBInv_neutral s s' [] h (by simp [hev]) hpc ht hr rfl

theorem KBInv_complete (s : Sys) (oid : Nat) (r : Res) (why : Option Reason) (h : KBInv s) :
    KBInv (s.complete oid r why) := by
  cases why with
  | none => exact KBInv_neutral s _ [Ev.ret oid r s.clock] h (by simp [complete_ev]) rfl rfl rfl rfl
  | some w => exact KBInv_neutral s _ [Ev.dead oid w, Ev.ret oid r s.clock] h (by simp [complete_ev]) rfl rfl rfl rfl

theorem KBInv_failSend (s : Sys) (oid : Nat) (it : Item) (h : KBInv s) : KBInv (s.failSend oid it) := by
  cases it <;> simp only [Sys.failSend] <;> exact KBInv_complete _ _ _ _ h

theorem KBInv_afterPush (s : Sys) (it : Item) (h : KBInv s) : KBInv (s.afterPush it) := by
  cases it with
  | env mid k =>
    cases k <;> simp only [Sys.afterPush, Item.oid] <;>
      first
      | exact KBInv_complete _ _ _ _ (KBInv_neutral s _ _ h rfl rfl rfl rfl rfl)
      | exact KBInv_neutral s _ _ h rfl rfl rfl rfl rfl
  | stop o =>
    simp only [Sys.afterPush, Item.oid]
    exact KBInv_complete _ _ _ _ (KBInv_neutral s _ _ h rfl rfl rfl rfl rfl)

theorem KBInv_afterStrand (s : Sys) (it : Item) (h : KBInv s) : KBInv (s.afterStrand it) := by
  cases it with
  | env mid k =>
    cases k <;> simp only [Sys.afterStrand] <;>
      first
      | exact KBInv_complete _ _ _ _ (KBInv_of_eq h rfl rfl rfl rfl)
      | exact KBInv_of_eq h rfl rfl rfl rfl
  | stop o =>
    simp only [Sys.afterStrand]
    exact KBInv_complete _ _ _ _ (KBInv_of_eq h rfl rfl rfl rfl)

/-- the actor moves between states that have not begun to stop; no kill, no handler start logged -/
theorem KBInv_move (s s' : Sys) (chunk : List Ev) (h : KBInv s) (hev : s'.ev = s.ev ++ chunk)
    (hn : chunk.all isNeutralKB = true) (hst : pcStopped s'.pc = pcStopped s.pc)
    (hb : budget s'.pc ≤ budget s.pc ∨ s.termSlot = false) (ht : s'.termSlot = s.termSlot)
    (hns : pcStopped s.pc = false) (hr : s'.rxOpen = s.rxOpen) (hne : s'.pc ≠ .ended → s.pc ≠ .ended) : KBInv s' := by
  have hk : C06.kb s'.ev = C06.kb s.ev := by rw [hev, kb_append, kbRun_neutral _ _ hn]
  refine ⟨by rw [hk, hst]; exact h.stoppedIff, by rw [hk]; exact h.unarmed, ?_, ?_⟩
  · rw [hk, ht, hst]
    intro ha
    obtain ⟨a1, a2⟩ := h.armed ha
    refine ⟨?_, a2⟩
    rcases hb with hb | hb
    · omega
    · rw [a2 hb] at hns; cases hns
  · intro hc
    rw [hr] at hc
    have := h.closedEnded hc
    rw [this] at hns; cases hns

/-- the actor begins to stop or ends: the chunk marks `stopped` and logs no kill / handler start -/
theorem KBInv_stop (s s' : Sys) (chunk : List Ev) (h : KBInv s) (hev : s'.ev = s.ev ++ chunk)
    (hk : kbRun (C06.kb s.ev) chunk = { C06.kb s.ev with stopped := true })
    (hst : pcStopped s'.pc = true) (hb0 : budget s'.pc = 0)
    (hr : s'.rxOpen = s.rxOpen) (hne : s.pc ≠ .ended) : KBInv s' := by
  have hkb : C06.kb s'.ev = { C06.kb s.ev with stopped := true } := by rw [hev, kb_append, hk]
  refine ⟨by rw [hkb, hst], by rw [hkb]; exact h.unarmed, ?_,
    fun hc => absurd (h.closedEnded (hr ▸ hc)) hne⟩
  rw [hkb, hb0, hst]
  intro ha
  obtain ⟨a1, _⟩ := h.armed ha
  exact ⟨by simp only; omega, fun _ => rfl⟩

theorem KBInv_move0 (s s' : Sys) (h : KBInv s) (hev : s'.ev = s.ev)
    (hst : pcStopped s'.pc = pcStopped s.pc)
    (hb : budget s'.pc ≤ budget s.pc ∨ s.termSlot = false) (ht : s'.termSlot = s.termSlot)
    (hns : pcStopped s.pc = false) (hr : s'.rxOpen = s.rxOpen) : KBInv s' :=
  KBInv_move s s' [] h (by simp [hev]) rfl hst hb ht hns hr (fun _ => by intro hc; rw [hc] at hns; cases hns)

theorem KBInv_move2 (s s' : Sys) (c1 c2 : List Ev) (h : KBInv s) (hev : s'.ev = (s.ev ++ c1) ++ c2)
    (h1 : c1.all isNeutralKB = true) (h2 : c2.all isNeutralKB = true) (hst : pcStopped s'.pc = pcStopped s.pc)
    (hb : budget s'.pc ≤ budget s.pc ∨ s.termSlot = false) (ht : s'.termSlot = s.termSlot)
    (hns : pcStopped s.pc = false) (hr : s'.rxOpen = s.rxOpen) : KBInv s' :=
  KBInv_move s s' (c1 ++ c2) h (by rw [hev, List.append_assoc]) (by simp [List.all_append, h1, h2]) hst hb ht hns hr
    (fun _ => by intro hc; rw [hc] at hns; cases hns)

theorem KBInv_stop2 (s s' : Sys) (c1 c2 : List Ev) (h : KBInv s) (hev : s'.ev = (s.ev ++ c1) ++ c2)
    (hk : kbRun (C06.kb s.ev) (c1 ++ c2) = { C06.kb s.ev with stopped := true })
    (hst : pcStopped s'.pc = true) (hb0 : budget s'.pc = 0)
    (hr : s'.rxOpen = s.rxOpen) (hne : s.pc ≠ .ended) : KBInv s' :=
  KBInv_stop s s' (c1 ++ c2) h (by rw [hev, List.append_assoc]) hk hst hb0 hr hne

/-- the actor ends -/
theorem KBInv_finish (b : Sys) (o : Outcome) (evs : List Ev) (h : KBInv b)
    (hn : evs.all isNeutralKB = true) : KBInv (b.finish o evs) := by
  have hkb : C06.kb (b.finish o evs).ev = { C06.kb b.ev with stopped := true } := by
    simp only [finish_ev, List.append_assoc, kb_append, kbRun, List.foldl_append]
    have := kbRun_neutral (C06.kb b.ev) evs hn
    simp only [kbRun] at this
    rw [this]; rfl
  refine ⟨by rw [hkb]; rfl, by rw [hkb]; exact h.unarmed, ?_, fun _ => rfl⟩
  rw [hkb]
  intro ha
  obtain ⟨a1, _⟩ := h.armed ha
  exact ⟨by simp only [finish_pc, budget]; omega, fun _ => rfl⟩

/-- a dequeue: one handler start, from `selMail` -/
theorem KBInv_start (s s' : Sys) (mid : Nat) (h : KBInv s) (hev : s'.ev = s.ev ++ [.handlerStart mid])
    (hpc : s.pc = .selMail) (hst : pcStopped s'.pc = false) (hb0 : budget s'.pc = 0)
    (ht : s'.termSlot = s.termSlot) (hr : s'.rxOpen = s.rxOpen) : KBInv s' := by
  have hs0 : (C06.kb s.ev).stopped = false := by rw [h.stoppedIff, hpc]; rfl
  have hkb : C06.kb s'.ev = (if (C06.kb s.ev).armed then { C06.kb s.ev with starts := (C06.kb s.ev).starts + 1 } else C06.kb s.ev) := by
    rw [hev, kb_append]; rfl
  refine ⟨?_, ?_, ?_, ?_⟩
  · rw [hkb, hst]; split <;> simp [hs0]
  · rw [hkb]; intro ha
    split at ha
    · rename_i h1; simp at ha; rw [h1] at ha; cases ha
    · split
      · rename_i h1 h2; exact absurd h2 h1
      · exact h.unarmed ha
  · rw [hkb, hb0, ht, hst]
    intro ha
    split at ha
    · rename_i h1
      obtain ⟨a1, a2⟩ := h.armed h1
      rw [hpc] at a1 a2
      simp only [budget] at a1
      rw [if_pos h1]
      refine ⟨by simp only; omega, fun hts => ?_⟩
      have := a2 hts; simp [pcStopped] at this
    · rename_i h1; exact absurd ha h1
  · intro hc; rw [hr] at hc
    have := h.closedEnded hc; rw [hpc] at this; cases this

theorem KBInv_init (cap : Nat) (sc : Script) : KBInv (init cap sc) :=
  ⟨rfl, fun _ => rfl, fun h => by simp [init, C06.kb] at h, fun h => by simp [init] at h⟩

theorem kb_issue_nonkill (m : C06.KB) (o : Nat) (k : OpKind) (t : Option Nat) (a : Nat) (hk : k ≠ .kill) :
    C06.kbStep m (.issued o k t a) = m := by
  cases k <;> simp_all [C06.kbStep]

theorem KBInv_issue_nonkill (s : Sys) (op : OpSpec) (h : KBInv s) (hk : op.kind ≠ .kill) : KBInv (issueBase s op) := by
  refine KBInv_neutral s (issueBase s op) [.issued s.nextOid op.kind op.timeout s.clock] h rfl rfl rfl rfl ?_
  cases hkk : op.kind <;> simp_all [isNeutralKB]

/-- kill(): sets the control slot if the actor lives; arms the bound unless the actor has begun to stop -/
theorem KBInv_issue_kill (s : Sys) (op : OpSpec) (h : KBInv s) (hk : op.kind = .kill) :
    KBInv (if s.rxOpen = true then { issueBase s op with termSlot := true } else issueBase s op) := by
  have hkb : C06.kb (issueBase s op).ev =
      (if (C06.kb s.ev).stopped then C06.kb s.ev else { C06.kb s.ev with armed := true }) := by
    simp only [issueBase, kb_append, hk, kbRun, List.foldl_cons, List.foldl_nil, C06.kbStep]
  cases hs : (C06.kb s.ev).stopped
  · -- not stopped: armed
    have hopen : s.rxOpen = true := by
      cases ho : s.rxOpen with
      | true => rfl
      | false =>
        have := h.closedEnded ho
        have h2 := h.stoppedIff; rw [this, hs] at h2; cases h2
    rw [if_pos hopen]
    rw [hs] at hkb; simp only [Bool.false_eq_true, if_false] at hkb
    have hps : pcStopped s.pc = false := by rw [← h.stoppedIff]; exact hs
    refine ⟨?_, ?_, ?_, ?_⟩
    · show (C06.kb (issueBase s op).ev).stopped = pcStopped s.pc
      rw [hkb]; simp only; rw [hs, hps]
    · show (C06.kb (issueBase s op).ev).armed = false → _
      rw [hkb]; intro ha; cases ha
    · show (C06.kb (issueBase s op).ev).armed = true → (C06.kb (issueBase s op).ev).starts + budget s.pc ≤ 1 ∧ (true = false → _)
      rw [hkb]; intro _
      refine ⟨?_, fun hc => by cases hc⟩
      simp only
      cases ha : (C06.kb s.ev).armed
      · rw [h.unarmed ha]; cases s.pc <;> simp [budget]
      · exact (h.armed ha).1
    · intro hc; exact h.closedEnded hc
  · -- already stopping: nothing changes
    rw [hs] at hkb; simp only [if_true] at hkb
    have hbase : KBInv (issueBase s op) :=
      ⟨by rw [hkb]; exact h.stoppedIff, by rw [hkb]; exact h.unarmed, by rw [hkb]; exact h.armed, h.closedEnded⟩
    split
    · refine ⟨hbase.stoppedIff, hbase.unarmed, ?_, hbase.closedEnded⟩
      intro ha
      exact ⟨(hbase.armed ha).1, fun hc => by cases hc⟩
    · exact hbase

theorem KBInv_step (s s' : Sys) (l : Label) (h : KBInv s) (hs : step? s l = some s') : KBInv s' := by
  cases l with
  | issue hd op =>
    simp only [step?, Sys.issue] at hs
    split at hs
    · split at hs
      · rename_i heq
        have hk : op.kind = .kill := by cases hkk : op.kind <;> simp [opItem, hkk] at heq; rfl
        cases hs
        exact KBInv_complete _ _ _ _ (KBInv_issue_kill s op h hk)
      · rename_i it heq
        have hk : op.kind ≠ .kill := by intro hkk; simp [opItem, hkk] at heq
        have hb := KBInv_issue_nonkill s op h hk
        split at hs
        · cases hs; exact KBInv_failSend _ _ _ hb
        · split at hs <;> cases hs <;> exact KBInv_of_eq hb rfl rfl rfl rfl
    · cases hs
  | _ =>
    simp only [step?, Sys.runStep] at hs
    (repeat' split at hs) <;> (try cases hs)
    all_goals first
      | exact h
      | exact KBInv_of_eq h rfl rfl rfl rfl
      | exact KBInv_neutral s _ _ h rfl rfl rfl rfl rfl
      | exact KBInv_complete _ _ _ _ h
      | exact KBInv_complete _ _ _ _ (KBInv_of_eq h rfl rfl rfl rfl)
      | exact KBInv_failSend _ _ _ (KBInv_of_eq h rfl rfl rfl rfl)
      | exact KBInv_afterPush _ _ (KBInv_of_eq h rfl rfl rfl rfl)
      | exact KBInv_afterStrand _ _ (KBInv_of_eq h rfl rfl rfl rfl)
      | (refine KBInv_start s _ _ h rfl ?_ ?_ ?_ rfl rfl <;> simp [*, pcStopped, budget]; done)
      | (refine KBInv_move0 s _ h rfl ?_ ?_ rfl ?_ rfl <;> simp [*, pcStopped, budget]; done)
      | (refine KBInv_move s _ _ h rfl rfl ?_ ?_ rfl ?_ rfl ?_ <;> simp [*, pcStopped, budget]; done)
      | (refine KBInv_stop s _ _ h rfl ?_ ?_ ?_ rfl ?_ <;>
           simp [*, pcStopped, budget, kbRun, C06.kbStep]; done)
      | exact KBInv_finish _ _ _ h rfl
      | exact KBInv_finish _ _ _ (KBInv_of_eq h rfl rfl rfl rfl) rfl
      | exact KBInv_finish _ _ _ (KBInv_neutral s _ _ h rfl rfl rfl rfl rfl) rfl
      | (refine KBInv_move2 s _ _ _ h rfl rfl rfl ?_ ?_ rfl ?_ rfl <;> simp [*, pcStopped, budget]; done)
      | (refine KBInv_stop2 s _ _ _ h rfl ?_ ?_ ?_ rfl ?_ <;>
           simp [*, pcStopped, budget, kbRun, C06.kbStep]; done)
      | trace_state

end Rsactor.Model
